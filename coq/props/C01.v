(* C01 — builder-constructed HUGRs satisfy the specification's validity rules.
   Property-level theorems only; each is closed by an exact reference to a lemma of proofs/BuilderP.v.

   The goal, at full strength, IS NOW PROVED for the modelled builder language (second pass; theorem
   C01_builder_valid at the end of this file):

       forall tys p g,
         r_table tys = true ->            (* the type table is consistent *)
         wf_prog tys p = true ->          (* spec/BuilderWFS.v, a boolean computed from the program text:
                                             wt_prog (wires bound and typed, arguments match fixed signatures),
                                             ord_prog (add_state_order forward inside its region),
                                             lin_prog (non-copyable wires consumed exactly once, in their region) *)
         run tys p = Ok g ->              (* no builder call raises *)
         valid {| v_tys := tys; v_main := g; v_subs := [] |} = true.

   Third pass: the same for the extended language of model/Builder2.v (TailLoop, Conditional, insert_*, CallIndirect), 15 of
   the 18 rules; fourth pass: all 18 (C01_builder2_valid, under wf_prog2 with liveness-aware premises), and the third
   model model/Builder3.v (functions, modules, control-flow graphs, function constants): conservative over the second,
   the structural rules 0, 2, 6 (no premise) and 1 (under croot3) for all its programs.  For the rules not proved for the third language, and for the tracked builder,
   `valid` is evaluated by the monitor on the implementation's own document for every generated program.

   `run` is the builder model of model/Builder.v (programs over Dfg / add_op / add / extend / load /
   add_nested / add_state_order / set_outputs with non-local wires, any nesting depth); `run2` and `run3` / `run3s` are the
   interpreters of the wider models.  Each is tied to hugr-py by the correspondence `run prog == the document the real
   builders serialise` on generated programs (run/C01Run.v), and the premises are evaluated on each in-model program. *)
From Coq Require Import NArith List Bool.
Import ListNotations.
From HV Require Import lib.Harness model.Validity model.Builder spec.BuilderS proofs.BuilderP proofs.BuilderExtP
  spec.BuilderWFS proofs.BuilderFrameP proofs.BuilderRulesP proofs.BuilderTypeP
  proofs.BuilderAcyclicP proofs.BuilderNonLocalP proofs.BuilderInputsP proofs.BuilderLinearP proofs.BuilderCopyP
  model.Builder2 proofs.Builder2EmbP spec.Builder2WFS proofs.Builder2P proofs.Builder2FrameP proofs.Builder2RulesP proofs.Builder2TypeP proofs.Builder2NonLocalP
  spec.Builder2LiveS proofs.Builder2AcyclicP proofs.Builder2LinearP proofs.Builder2ValidP
  model.Builder3 proofs.Builder3EmbP proofs.Builder3IndexP spec.Builder3S proofs.Builder3TagsP proofs.Builder3FirstSecondP.

(* ---- tie of the validity predicate's tables to the Rust sources (regenerated data: gen/RustTables.v) ---- *)
From HV Require Import gen.RustTables proofs.RustTablesP proofs.RustSigP.

(* OpTag::is_superset over the regenerated lattice (fuel = number of tags) is the reflexive-transitive closure of
   immediate_supersets, whatever the fuel ... *)
Theorem C01_validity_tables_match_rust_lattice : forall a b, In a rs_tags ->
  (is_superset a b = true <-> Sup a b).
Proof. exact is_superset_spec. Qed.
Print Assumptions C01_validity_tables_match_rust_lattice.

(* ... and the lattice has no cycle (the Rust recursion terminates). *)
Theorem C01_validity_tables_match_rust_lattice_acyclic : forall a b, In a rs_tags -> In b rs_tags ->
  is_superset a b = true -> is_superset b a = true -> a = b.
Proof. exact is_superset_antisym. Qed.
Print Assumptions C01_validity_tables_match_rust_lattice_acyclic.

(* Every table has a row for every OpType variant an operation of Validity.v stands for; these are variants of enum
   OpType; every variant of enum OpType is modelled. *)
Theorem C01_validity_tables_match_rust_coverage :
  (forall o k, In k (rnames o) -> krow k = Some (vrow o)) /\
  (forall o k, In k (rnames o) -> In k rs_optypes) /\
  (forall k, In k rs_optypes -> exists o, In k (rnames o)).
Proof. exact tables_cover. Qed.
Print Assumptions C01_validity_tables_match_rust_coverage.

(* Rule 1 (permitted parent/child pairs), for every graph: the child's tag is in the parent's allowed_children. *)
Theorem C01_validity_tables_match_rust_child_tags : forall g,
  r_child_tags g =
  forallb (fun x => (fst x =? 0)%N ||
                    match op_of g (n_parent (snd x)) with
                    | Some p => is_superset (rw_allowed (vrow p)) (vtag (n_op (snd x)))
                    | None => false
                    end) (indexed (g_nodes g)).
Proof. exact r_child_tags_matches. Qed.
Print Assumptions C01_validity_tables_match_rust_child_tags.

(* Rule 2 (first/second child, containers non-empty, no inner Input/Output/Exit), for every graph satisfying rule 1:
   the decision validate_children + validate_op_children make from the flags (r_children_ok; a single child of a
   dataflow parent / CFG makes the Rust code panic = not accepted). *)
Theorem C01_validity_tables_match_rust_children : forall g, r_child_tags g = true ->
  r_first_second g =
  forallb (fun x => match r_children_ok (vrow (n_op (snd x))) (map vtag (child_ops g (fst x))) with
                    | Some b => b
                    | None => false
                    end) (indexed (g_nodes g)).
Proof. exact r_first_second_matches. Qed.
Print Assumptions C01_validity_tables_match_rust_children.

(* Rule 10 applies to exactly the regions whose parent has requires_dag. *)
Theorem C01_validity_tables_match_rust_acyclic : forall g,
  r_acyclic g =
  forallb (fun x => negb (rw_req_dag (vrow (n_op (snd x)))) || region_acyclic g (redges g) (fst x)) (indexed (g_nodes g)).
Proof. exact r_acyclic_matches. Qed.
Print Assumptions C01_validity_tables_match_rust_acyclic.

(* Which operations have a dataflow signature / an inner signature / a static input or output / other ports, of which
   kind and how many. *)
Theorem C01_validity_tables_match_rust_ports : forall o,
  is_some (df_sig o) = rw_sig (vrow o) /\
  is_some (inner_sig o) = rw_dfparent (vrow o) /\
  kclass (static_in o) = rw_static_in (vrow o) /\
  kclass (static_out o) = rw_static_out (vrow o) /\
  kclass (fst (other_in o)) = rw_other_in (vrow o) /\
  kclass (fst (other_out o)) = rw_other_out (vrow o) /\
  r_count o (rw_cnt_in (vrow o)) (rw_other_in (vrow o)) = Some (snd (other_in o)) /\
  r_count o (rw_cnt_out (vrow o)) (rw_other_out (vrow o)) = Some (snd (other_out o)).
Proof. exact ports_match. Qed.
Print Assumptions C01_validity_tables_match_rust_ports.

(* OpType::port_kind: value ports, then the static port, then the other ports — for every port an operation has. *)
Theorem C01_validity_tables_match_rust_port_kind_in : forall o off, (off <? count_in o)%N = true ->
  kclass (kind_in o off) = r_port_kind (lenN (val_in o)) (rw_static_in (vrow o)) (rw_other_in (vrow o)) off.
Proof. exact kind_in_matches. Qed.
Print Assumptions C01_validity_tables_match_rust_port_kind_in.
Theorem C01_validity_tables_match_rust_port_kind_out : forall o off, (off <? count_out o)%N = true ->
  kclass (kind_out o off) = r_port_kind (lenN (val_out o)) (rw_static_out (vrow o)) (rw_other_out (vrow o)) off.
Proof. exact kind_out_matches. Qed.
Print Assumptions C01_validity_tables_match_rust_port_kind_out.

(* Rule 8, for every graph: every incoming port the operation has, whose kind is not one of rs_unconnected_ok_kinds
   (StateOrder, ControlFlow: validate_port's must_be_connected), has exactly one link (Rust: at least one). *)
Theorem C01_validity_tables_match_rust_inputs_once : forall g,
  r_inputs_once g =
  forallb (fun x => (fst x =? 0)%N ||
     forallb (fun off => match kind_in (n_op (snd x)) off with
                         | Some k => smem (kname k) rs_unconnected_ok_kinds || (links_into (redges g) (fst x) off =? 1)%N
                         | None => true
                         end) (upto (N.to_nat (count_in (n_op (snd x)))))) (indexed (g_nodes g)).
Proof. exact r_inputs_once_matches. Qed.
Print Assumptions C01_validity_tables_match_rust_inputs_once.

(* Rule 9, for every graph: every outgoing port the operation has, whose kind is a non-copyable value
   (EdgeKind::is_linear) or one of rs_linear_out_extra_kinds (ControlFlow: outgoing_is_linear), has exactly one link. *)
Theorem C01_validity_tables_match_rust_linear_once : forall tys g,
  r_linear_once tys g =
  forallb (fun x => (fst x =? 0)%N ||
     forallb (fun off => match kind_out (n_op (snd x)) off with
                         | Some k => negb (r_linear tys k) || (links_from (redges g) (fst x) off =? 1)%N
                         | None => true
                         end) (upto (N.to_nat (count_out (n_op (snd x)))))) (indexed (g_nodes g)).
Proof. exact r_linear_once_matches. Qed.
Print Assumptions C01_validity_tables_match_rust_linear_once.

(* The rows of df_sig / inner_sig are the rows `fn signature` / `fn inner_signature` build from the struct fields; a type
   built by Type::new_sum / Type::new_function is the id rule 4 checks against the table. *)
Theorem C01_validity_tables_match_rust_signatures : forall tys o k, derived_ok tys o = true -> In k (rnames o) ->
  sig_agrees tys o [] (slookup k rs_signature) (df_sig o) = true.
Proof. exact df_sig_matches. Qed.
Print Assumptions C01_validity_tables_match_rust_signatures.
Theorem C01_validity_tables_match_rust_inner_signatures : forall tys o k, derived_ok tys o = true -> In k (rnames o) ->
  sig_agrees tys o [] (slookup k rs_inner_signature) (inner_sig o) = true.
Proof. exact inner_sig_matches. Qed.
Print Assumptions C01_validity_tables_match_rust_inner_signatures.
(* ---- end of the Rust-table tie ---- *)


(* Proved for ALL programs of the modelled language, with no well-formedness premise: whenever the
   builder calls do not raise, the serialised document satisfies
     r_index        : node 0 is the root, every other parent is an earlier node, edge endpoints exist;
     r_child_tags   : only permitted parent/child operation pairs;
     r_first_second : every dataflow container has an Input first and an Output second and no other
                      Input/Output child (CFG/Conditional positions hold vacuously: not in the model). *)
Theorem C01_builder_valid_partial : forall tys p g,
  run tys p = Ok g -> r_index g = true /\ r_child_tags g = true /\ r_first_second g = true.
Proof. exact run_structural. Qed.
Print Assumptions C01_builder_valid_partial.

(* "a state-order edge accompanies every value edge that enters a nested region", for ALL programs of the
   modelled language, stated on the graph store the program leaves behind (spec/BuilderS.v: ExtOrder, written
   with an inductive ancestor relation, not the code's loop): every value link ends at, or strictly inside, a
   sibling `a` of its source, and in the second case the store holds the order link source -> a.
   `to_serial` keeps the nodes and the end nodes of every link and writes order links at the operation's
   order port; the last step to the document-level boolean r_ext_order_edge of `valid` (its ancestor walk and
   resolved offsets) is NOT proved and stays monitored. *)
Theorem C01_ext_wires_have_order_edges : forall tys p st,
  exec_prog tys p = Ok st -> ExtOrder st.
Proof. exact exec_prog_ext_order. Qed.
Print Assumptions C01_ext_wires_have_order_edges.

(* Second pass.  Proved for ALL programs of the modelled language, again with no well-formedness premise:
     r_io_rows (rule 3)          : the Input and Output rows of every dataflow container equal its inner signature
                                   (the Output node and its container are completed together by set_outputs);
     r_root_no_edges (rule 6)    : no edge touches the root;
     r_no_edge_into_func (rule 13): no value edge enters a function body (the modelled language has no FuncDefn);
     r_cfg_edges (rule 16)       : vacuous in the modelled language (no control-flow edges). *)
Theorem C01_builder_io_rows_root_func : forall tys p g,
  run tys p = Ok g ->
  r_io_rows g = true /\ r_root_no_edges g = true /\ r_no_edge_into_func tys g = true /\ r_cfg_edges g = true.
Proof. exact run_io_root_func. Qed.
Print Assumptions C01_builder_io_rows_root_func.

(* Second pass.  For every WELL-TYPED program (spec/BuilderWFS.v: wt_prog, a boolean computed from the program
   text alone: used wires are bound and typed, the arguments of a fixed-signature operation or Tag have its input
   row, partial operations can be completed, Tags and constants agree with the type table, add_state_order does
   not start at Output / end at Input) whose builder calls do not raise:
     r_port_counts (rule 5)   : every edge attaches to a port its operation has;
     r_edge_kinds (rule 7)    : same kind and type at both ends of every edge;
     r_derived_types (rule 4) : the sum type carried by a Tag is the table entry of its rows;
     r_const (rule 17)        : constants inhabit their type.
   The premise is needed: hugr-py's add_op wires arguments of any type to an operation with a fixed signature
   without raising. *)
Theorem C01_builder_ports_kinds : forall tys p g,
  wt_prog tys p = true -> run tys p = Ok g ->
  r_port_counts g = true /\ r_edge_kinds g = true /\ r_derived_types tys g = true /\ r_const tys [] g = true.
Proof. exact run_ports_kinds. Qed.
Print Assumptions C01_builder_ports_kinds.

(* Second pass.  r_inputs_once (rule 8): every value / static input port of every non-root node has exactly one
   link, for every well-typed program (wt_prog) whose builder calls do not raise. *)
Theorem C01_builder_inputs_once : forall tys p g,
  wt_prog tys p = true -> run tys p = Ok g -> r_inputs_once g = true.
Proof. exact run_inputs_once. Qed.
Print Assumptions C01_builder_inputs_once.

(* Second pass.  r_linear_once (rule 9): every output port of non-copyable type of every non-root node has exactly
   one outgoing link, for every well-typed program whose non-copyable wires are consumed exactly once in the region
   that binds them (spec/BuilderWFS.v: lin_prog, a boolean computed from the program text: wire ids never
   re-bound, every non-copyable output bound to a wire, every non-copyable wire used exactly once as an argument of
   add_op / add_nested or by set_outputs of its own region) and whose builder calls do not raise. *)
Theorem C01_builder_linear_once : forall tys p g,
  wt_prog tys p = true -> lin_prog tys p = true -> run tys p = Ok g -> r_linear_once tys g = true.
Proof. exact run_linear_once. Qed.
Print Assumptions C01_builder_linear_once.

(* Second pass.  r_acyclic (rule 10, the boolean the validator computes: Kahn's algorithm on fuel over the
   value, static and order edges between the children of each dataflow container) for every program whose
   add_state_order calls go forward (spec/BuilderWFS.v: ord_prog, a boolean computed from the program text:
   statement ids unique; every add_state_order joins Input / statements of the region it is written in /\

   Output in program order) and whose builder calls do not raise.  The ranking: node index, Output last; the
   builders only wire existing nodes to the node being added, set_outputs wires into Output, and the order edge
   of a non-local wire runs from the wire's source to a container created after it. *)
Theorem C01_builder_acyclic : forall tys p g,
  ord_prog p = true -> run tys p = Ok g -> r_acyclic g = true.
Proof. exact run_acyclic. Qed.
Print Assumptions C01_builder_acyclic.

(* the premise ord_prog is needed: hugr-py accepts a backward add_state_order and the document then has a cycle *)
Theorem C01_backward_order_refuted : ord_prog ex_cyclic = false /\ wt_prog ex_tys ex_cyclic = true /\
  exists g, run ex_tys ex_cyclic = Ok g /\ r_acyclic g = false.
Proof. exact ex_cyclic_refuted. Qed.
Print Assumptions C01_backward_order_refuted.

(* Second pass.  The bridge from the store-level ExtOrder (above) to the document-level booleans, for ALL programs
   of the modelled language (no well-formedness premise): the validator's ancestor walk (`walk`, on fuel, with the
   resolved order-port offsets of the serialised document) classifies every edge of the document as local, as a
   good non-local edge, or as non-copyable; hence
     r_ext_order_edge (rule 14)    : every value edge entering a nested region has its order edge;
     r_nonlocal_relation (rule 12) : every non-local edge is an Ext edge / a static edge from an enclosing region;
     r_dominance (rule 15)         : no edge is a Dom edge (vacuous: no CFG in the modelled language).
   Rule 11 (non-local edges carry copyable values only) is NOT claimed: it needs a premise on the program. *)
Theorem C01_builder_nonlocal_edges : forall tys p g,
  run tys p = Ok g ->
  r_nonlocal_relation tys g = true /\ r_ext_order_edge tys g = true /\ r_dominance tys g = true.
Proof. exact run_nonlocal. Qed.
Print Assumptions C01_builder_nonlocal_edges.

(* non-vacuity: a program whose document has a good non-local value edge and a good non-local static edge *)
Theorem C01_nonlocal_example : exists g, run ex3_tys ex3_prog = Ok g /\
  valid {| v_tys := ex3_tys; v_main := g; v_subs := [] |} = true /\
  existsb (fun r => ecode_eqb (classify ex3_tys g (redges g) r) EOk && negb (is_static (r_kind r))) (redges g) = true /\
  existsb (fun r => ecode_eqb (classify ex3_tys g (redges g) r) EOk && is_static (r_kind r)) (redges g) = true.
Proof. exact ex3_nonlocal. Qed.
Print Assumptions C01_nonlocal_example.

(* the premises are satisfiable by a non-trivial program: constant at the root, nested region with an Ext wire,
   MakeTuple / UnpackTuple / Noop, Tag, fixed-signature op, linear value, explicit order edge; 13 nodes *)
Theorem C01_wf_example : (wt_prog ex2_tys ex2_prog = true /\ ord_prog ex2_prog = true) /\
  exists g, run ex2_tys ex2_prog = Ok g /\
    valid {| v_tys := ex2_tys; v_main := g; v_subs := [] |} = true /\ length (g_nodes g) = 13%nat /\
    existsb (fun e => negb (optN_eqb (parent_of g (e_src e)) (parent_of g (e_dst e)))) (g_edges g) = true.
Proof. exact ex2_all. Qed.
Print Assumptions C01_wf_example.

(* the theorem is not vacuous: a program with a nested region and a non-local wire runs in the model and
   the whole `valid` accepts its document *)
Theorem C01_model_runs : exists g, run ex_tys ex_prog = Ok g /\
  valid {| v_tys := ex_tys; v_main := g; v_subs := [] |} = true /\ length (g_edges g) = 4%nat.
Proof. exact ex_runs. Qed.
Print Assumptions C01_model_runs.
Theorem C01_model_has_ext_wire : exists st, exec_prog ex_tys ex_prog = Ok st /\
  existsb (fun e => port_link e && negb (optN_eqb (anc_sib st (e_src e) (e_dst e)) (Some (e_dst e)))) (s_links st) = true.
Proof. exact ex_has_ext_wire. Qed.
Print Assumptions C01_model_has_ext_wire.

(* Second pass.  r_nonlocal_copyable (rule 11): no non-local edge carries a non-copyable value and no order edge is
   non-local, for every well-formed program (wf_prog = wt_prog && ord_prog && lin_prog). *)
Theorem C01_builder_nonlocal_copyable : forall tys p g,
  wf_prog tys p = true -> run tys p = Ok g -> r_nonlocal_copyable tys g = true.
Proof. exact run_nonlocal_copyable. Qed.
Print Assumptions C01_builder_nonlocal_copyable.

(* THE GOAL for the modelled builder language: every well-formed program whose builder calls do not raise
   serialises a document that the whole of `valid` (all 18 rules and the type table) accepts. *)
Theorem C01_builder_valid : forall tys p g,
  r_table tys = true -> wf_prog tys p = true -> run tys p = Ok g ->
  valid {| v_tys := tys; v_main := g; v_subs := [] |} = true.
Proof. exact run_valid. Qed.
Print Assumptions C01_builder_valid.

(* its premises are satisfiable: the 13-node example program of C01_wf_example *)
Theorem C01_wf_premises_example : wf_prog ex2_tys ex2_prog = true /\ r_table ex2_tys = true.
Proof. exact ex2_wf. Qed.
Print Assumptions C01_wf_premises_example.

(* ==================================================================== third pass: the extended builder language
   model/Builder2.v widens the statement language by TailLoop (add_tail_loop ... set_loop_outputs), Conditional
   (add_conditional / add_case in any order / add_if + add_else), every insert_* variant through
   _insert_nested_impl + Hugr.insert_hugr (a separately built Dfg / TailLoop / Conditional program), CallIndirect,
   and the roots TailLoop(...) and Conditional(...).  `run2` is its interpreter.  Builder.v and every theorem above
   are unchanged. *)

(* the extended model is conservative: the embedding of a program of the first language runs to the same result
   (the same document or the same error), for every program and every type table *)
Theorem C01_builder2_conservative : forall tys p, run2 tys (emb p) = run tys p.
Proof. exact run2_emb. Qed.
Print Assumptions C01_builder2_conservative.

(* so all theorems above transfer to run2 on embedded programs; the full validity theorem restated: *)
Theorem C01_builder2_valid_embedded : forall tys p g,
  r_table tys = true -> wf_prog tys p = true -> run2 tys (emb p) = Ok g ->
  valid {| v_tys := tys; v_main := g; v_subs := [] |} = true.
Proof. exact run2_emb_valid. Qed.
Print Assumptions C01_builder2_valid_embedded.

(* Third pass.  The structural rules for ALL programs of the EXTENDED language (mutual induction over statements,
   regions, statement lists, case lists and separately built programs; no depth bound): whenever the builder calls
   do not raise, the serialised document satisfies
     r_index        : node 0 is the root, every other parent is an earlier node, edge endpoints exist
                      (insert_hugr re-indexes the inserted nodes and links consistently);
     r_child_tags   : only permitted parent/child pairs (Case only under Conditional, Conditional / TailLoop / DFG
                      under dataflow parents, the root of an inserted program under the inserting container);
     r_first_second : Input first and Output second in every DFG / Case / TailLoop, no other Input/Output, and every
                      Conditional has at least one Case (a Conditional over an empty sum never completes: the model,
                      like hugr-py, fails at serialisation).
   Premise croot_ok (spec/Builder2WFS.v, computed from the program text): no constant is placed at the root of a
   Hugr that is rooted in a Conditional.  For rules 3-17 see below (third pass: 3-8, 12-17; fourth pass: 9, 10, 11 and
   the whole of `valid`, C01_builder2_valid). *)
Theorem C01_builder2_structural : forall tys p g,
  croot_ok p = true -> run2 tys p = Ok g ->
  r_index g = true /\ r_child_tags g = true /\ r_first_second g = true.
Proof. exact run2_structural. Qed.
Print Assumptions C01_builder2_structural.

(* the premise is needed: hugr-py puts a constant under a Conditional root when asked to *)
Theorem C01_const_under_conditional_refuted : croot_ok ex_croot = false /\
  exists g, run2 ex_croot_tys ex_croot = Ok g /\ r_child_tags g = false.
Proof. exact ex_croot_refuted. Qed.
Print Assumptions C01_const_under_conditional_refuted.

(* non-vacuity for the extended language: a program with a tail loop, a conditional whose cases are built in the
   order 1, 0, and an inserted Dfg runs in the model; the whole `valid` accepts its document (19 nodes) *)
Theorem C01_builder2_example : croot_ok ex4_prog = true /\ exists g, run2 ex4_tys ex4_prog = Ok g /\
  valid {| v_tys := ex4_tys; v_main := g; v_subs := [] |} = true /\ length (g_nodes g) = 19%nat /\
  existsb (fun n => match n_op n with TailLoop _ _ _ _ => true | _ => false end) (g_nodes g) = true /\
  existsb (fun n => match n_op n with Conditional _ _ _ _ => true | _ => false end) (g_nodes g) = true.
Proof. exact ex4_runs. Qed.
Print Assumptions C01_builder2_example.

(* Third pass.  For ALL programs of the extended language (premise croot_ok only): rule 6 (no edge touches the root:
   the interpreter's environment never names the root, insert_hugr shifts every inserted link above the insertion
   point), rule 13 (no FuncDefn occurs, so no value edge enters a function body), rule 16 (no control-flow edges). *)
Theorem C01_builder2_root_func_cfg : forall tys p g,
  croot_ok p = true -> run2 tys p = Ok g ->
  r_root_no_edges g = true /\ r_no_edge_into_func tys g = true /\ r_cfg_edges g = true.
Proof. exact run2_root_func_cfg. Qed.
Print Assumptions C01_builder2_root_func_cfg.

(* Third pass.  For every WELL-TYPED program of the EXTENDED language (spec/Builder2WFS.v: wt_prog2, a boolean computed
   from the program text: wires bound, typed and alive — the wires and statements of a separately built program are
   dead outside it and the enclosing program's are dead inside —, arguments of fixed-signature operations / Tags /\

   CallIndirect / inserted programs have the right input row, a loop body outputs Sum [just_inputs; just_outputs] ::
   rest, all cases of a conditional give the same outputs, Tags and constants agree with the type table,
   add_state_order joins live statements) whose builder calls do not raise:
     r_io_rows (rule 3)       : Input/Output rows of every DFG, Case and TailLoop body (Sum(just_in, just_out) + rest),
                                the Case children of every Conditional (variant i + other inputs, common outputs);
     r_derived_types (rule 4) : the sum types of Tag, Conditional, TailLoop and the function type of CallIndirect;
     r_port_counts (rule 5), r_edge_kinds (rule 7) : every edge attaches to existing ports of equal kind and type, also the
                                re-indexed edges of inserted programs and the wires into TailLoop / Conditional / inserted
                                roots;
     r_const (rule 17)        : constants inhabit their type.
   Rule 8 and rules 12, 14, 15 follow below; rules 9, 10, 11 need liveness-aware premises and follow in the fourth pass
   (C01_builder2_linear_once, C01_builder2_acyclic, C01_builder2_nonlocal_copyable) at the end of this file. *)
Theorem C01_builder2_typed_rules : forall tys p g,
  wt_prog2 tys p = true -> croot_ok p = true -> run2 tys p = Ok g ->
  r_io_rows g = true /\ r_derived_types tys g = true /\ r_port_counts g = true /\ r_edge_kinds g = true /\
  r_const tys [] g = true.
Proof. exact run2_typed_rules. Qed.
Print Assumptions C01_builder2_typed_rules.

(* the example with a loop, a conditional and an inserted Dfg satisfies the premises *)
Theorem C01_builder2_example_wt : wt_prog2 ex4_tys ex4_prog = true /\ croot_ok ex4_prog = true.
Proof. exact (conj ex4_wt (proj1 ex4_runs)). Qed.
Print Assumptions C01_builder2_example_wt.

(* the typing premise is needed: hugr-py accepts a TailLoop body whose remaining outputs are not the loop's `rest`
   row (TailLoop._set_out_types asserts the first variant row only); the document then breaks rule 3 *)
Theorem C01_loop_rest_refuted : wt_prog2 ex_rest_tys ex_rest = false /\ croot_ok ex_rest = true /\
  exists g, run2 ex_rest_tys ex_rest = Ok g /\ r_io_rows g = false.
Proof. exact ex_rest_refuted. Qed.
Print Assumptions C01_loop_rest_refuted.

(* Third pass.  r_inputs_once (rule 8) for every well-typed program of the EXTENDED language: every value / static
   input port of every non-root node has exactly one link — the ports of TailLoop / Conditional / CallIndirect nodes and
   of the root of an inserted program are wired once each by _wire_up, the Output node of every region by set_outputs,
   and insert_hugr re-indexes the inner program's links one to one (no inner link touches the inner root). *)
Theorem C01_builder2_inputs_once : forall tys p g,
  wt_prog2 tys p = true -> croot_ok p = true -> run2 tys p = Ok g -> r_inputs_once g = true.
Proof. exact run2_inputs_once. Qed.
Print Assumptions C01_builder2_inputs_once.

(* Third pass.  For ALL programs of the extended language (premise croot_ok only), the non-local edges:
     r_ext_order_edge (rule 14)    : every value edge that enters a nested region — a DFG, a TailLoop body, a Case of a
                                     Conditional, at any depth, also inside and into inserted programs — has its state-order
                                     edge from the source to the sibling ancestor of the target;
     r_nonlocal_relation (rule 12) : every non-local edge is an Ext edge or a static edge from an enclosing region;
     r_dominance (rule 15)         : no edge is classified as a Dom edge.
   Store level: ExtOrder and ConstLinks are invariants of exec2 (Hugr.insert_hugr keeps the ancestor relations of the
   re-indexed links); then the bridge to the validator's fuelled ancestor walk on the serialised document. *)
Theorem C01_builder2_nonlocal_edges : forall tys p g,
  croot_ok p = true -> run2 tys p = Ok g ->
  r_nonlocal_relation tys g = true /\ r_ext_order_edge tys g = true /\ r_dominance tys g = true.
Proof. exact run2_nonlocal. Qed.
Print Assumptions C01_builder2_nonlocal_edges.

(* non-vacuity: a conditional whose cases use a wire of the enclosing region, one of them through an inserted Dfg:
   the premises hold, `valid` accepts the document, and it has a good non-local value edge *)
Theorem C01_builder2_nonlocal_example : croot_ok ex5_prog = true /\ wt_prog2 ex5_tys ex5_prog = true /\
  exists g, run2 ex5_tys ex5_prog = Ok g /\
  valid {| v_tys := ex5_tys; v_main := g; v_subs := [] |} = true /\
  existsb (fun r => ecode_eqb (classify ex5_tys g (redges g) r) EOk && negb (is_static (r_kind r))) (redges g) = true.
Proof. exact ex5_nonlocal. Qed.
Print Assumptions C01_builder2_nonlocal_example.

(* Rule 10 (acyclic regions) cannot be claimed for the extended language without a liveness premise on wires: a program
   that uses, inside a case of a Conditional under construction, the dead wire of a previously inserted program (it
   names the node index of the Conditional in the enclosing Hugr) runs without any builder call raising and its
   document has a cycle.  wt_prog2 rejects it; the program contains no add_state_order.  With the liveness premise
   ord_prog2 (fourth pass) rule 10 IS a theorem for the whole extended language: C01_builder2_acyclic below. *)
Theorem C01_dead_wire_cycle_refuted : croot_ok ex6_prog = true /\ wt_prog2 ex6_tys ex6_prog = false /\
  exists g, run2 ex6_tys ex6_prog = Ok g /\ r_acyclic g = false.
Proof. exact ex6_dead_wire_cycle. Qed.
Print Assumptions C01_dead_wire_cycle_refuted.

(* ==================================================================== fourth pass: rules 9, 10, 11 for the WHOLE extended
   language, under liveness-aware premises (spec/Builder2LiveS.v, booleans computed from the program text):
     ord_prog2 p      statement ids and wire ids never re-bound; every argument wire of a statement and every output wire
                      of a region is LIVE there — bound in that region or in an enclosing region of the same Hugr, not in a
                      region already closed, not in another case, not in a separately built program (any insert_ call); a
                      separately built program sees no wire of the enclosing one; add_state_order joins Input / statements
                      of its own region / Output in program order;
     lin_prog2 tys p  (for a well-typed p) every output of non-copyable type is bound to a wire, and every wire of
                      non-copyable type is consumed exactly once in the region that bound it — nested Dfg, loop body,
                      case, separately built program each start with the non-copyable wires of their own Input node and
                      end with none pending.
   wf_prog2 = croot_ok && wt_prog2 && ord_prog2 && lin_prog2.  The premises are evaluated on every in-model generated
   program (run/C01Run.v: CPrem2). *)

(* Rule 10 (the fuelled Kahn boolean of the validator) for every program of the extended language: the links between
   siblings go forward (node index, Output last) — the order edge of a non-local wire because a LIVE wire starts before
   every container still open, or inside it; the re-indexed links of an inserted program because insert_hugr is monotone.
   Needs no typing premise. *)
Theorem C01_builder2_acyclic : forall tys p g,
  croot_ok p = true -> ord_prog2 p = true -> run2 tys p = Ok g -> r_acyclic g = true.
Proof. exact run2_acyclic. Qed.
Print Assumptions C01_builder2_acyclic.

(* the dead-wire program of C01_dead_wire_cycle_refuted is exactly what the liveness premise excludes; the loop /\

   conditional / inserted-Dfg examples satisfy it *)
Theorem C01_builder2_ord_examples : ord_prog2 ex4_prog = true /\ ord_prog2 ex5_prog = true /\ ord_prog2 ex6_prog = false.
Proof. exact (conj ex4_ord (conj ex5_ord ex6_ord)). Qed.
Print Assumptions C01_builder2_ord_examples.

(* Rule 9 for every program of the extended language: every out port of non-copyable type of every non-root node has
   exactly one link — across add_tail_loop, add_conditional (cases in any order), every insert_* (the inner program's
   accounting is carried over by insert_hugr), CallIndirect. *)
Theorem C01_builder2_linear_once : forall tys p g,
  wt_prog2 tys p = true -> croot_ok p = true -> lin_prog2 tys p = true -> run2 tys p = Ok g -> r_linear_once tys g = true.
Proof. exact run2_linear_once. Qed.
Print Assumptions C01_builder2_linear_once.

(* Rule 11 for every program of the extended language: no non-local edge carries a non-copyable value (a non-copyable
   wire is consumed in the region that bound it) and no order edge is non-local. *)
Theorem C01_builder2_nonlocal_copyable : forall tys p g,
  wt_prog2 tys p = true -> croot_ok p = true -> ord_prog2 p = true -> lin_prog2 tys p = true -> run2 tys p = Ok g ->
  r_nonlocal_copyable tys g = true.
Proof. exact run2_nonlocal_copyable. Qed.
Print Assumptions C01_builder2_nonlocal_copyable.

(* the linearity premise is needed: hugr-py raises neither for a non-copyable wire used twice (rule 9 fails) nor for
   one used inside a nested region (rule 11 fails) *)
Theorem C01_builder2_linear_refuted :
  (wt_prog2 ex7_tys ex8_twice = true /\ lin_prog2 ex7_tys ex8_twice = false /\
   exists g, run2 ex7_tys ex8_twice = Ok g /\ r_linear_once ex7_tys g = false) /\
  (wt_prog2 ex7_tys ex8_nonlocal = true /\ lin_prog2 ex7_tys ex8_nonlocal = false /\
   exists g, run2 ex7_tys ex8_nonlocal = Ok g /\ r_nonlocal_copyable ex7_tys g = false).
Proof. exact (conj ex8_twice_refuted ex8_nonlocal_refuted). Qed.
Print Assumptions C01_builder2_linear_refuted.

(* THE GOAL for the extended builder language: every well-formed program (Dfg / add_op / load / add_nested /\

   add_state_order / add_tail_loop / add_conditional / add_if + add_else / every insert_* / CallIndirect; Dfg, TailLoop
   and Conditional roots) whose builder calls do not raise serialises a document that the whole of `valid` — all 18
   rules and the type table — accepts. *)
Theorem C01_builder2_valid : forall tys p g,
  r_table tys = true -> wf_prog2 tys p = true -> run2 tys p = Ok g ->
  valid {| v_tys := tys; v_main := g; v_subs := [] |} = true.
Proof. exact run2_valid. Qed.
Print Assumptions C01_builder2_valid.

(* its premises are satisfiable: the loop + conditional + inserted-Dfg example, the non-local example, and a program
   in which a NON-COPYABLE value goes through a Conditional, an inserted Dfg and a TailLoop (19 nodes) *)
Theorem C01_builder2_wf_examples :
  (wf_prog2 ex4_tys ex4_prog = true /\ r_table ex4_tys = true) /\ (wf_prog2 ex5_tys ex5_prog = true /\ r_table ex5_tys = true) /\
  (wf_prog2 ex7_tys ex7_prog = true /\ r_table ex7_tys = true /\
   exists g, run2 ex7_tys ex7_prog = Ok g /\ valid {| v_tys := ex7_tys; v_main := g; v_subs := [] |} = true /\
     length (g_nodes g) = 19%nat /\
     existsb (fun n => existsb (fun t => negb (ty_copy ex7_tys t)) (val_out (n_op n))) (g_nodes g) = true).
Proof. exact (conj ex4_wf (conj ex5_wf ex7_linear)). Qed.
Print Assumptions C01_builder2_wf_examples.

(* ==================================================================== fourth pass: the third builder model
   model/Builder3.v keeps every construct of Builder2 and adds Function / Module roots (declare_function,
   define_function, define_main, module constants), call and load_function (monomorphic, and polymorphic with an explicit
   instantiation), functions defined inside dataflow regions, function-valued constants, and control-flow graphs: Cfg
   roots, add_cfg / insert_cfg, add_entry / add_block / add_successor, set_block_outputs / set_single_succ_outputs,
   branch / branch_exit, and the Dom wires of Block._wire_up_port.  `run3` is its interpreter; it is tied to hugr-py by the
   correspondence `run3s program == the document (and the nested documents of its function constants)` on every
   generated program of every root (run/C01Run.v: CProg3). *)

(* the third model is conservative over the second: the embedding of a program of the extended language runs to the same
   result (the same document or the same error), for every program, type table and signature table *)
Theorem C01_builder3_conservative : forall tys sigs p, run3 tys sigs (emb2 p) = run2 tys p.
Proof. exact run3_emb2. Qed.
Print Assumptions C01_builder3_conservative.

(* so every theorem about run2 transfers to run3 on embedded programs; the full validity theorem restated *)
Theorem C01_builder3_valid_embedded : forall tys sigs p g,
  r_table tys = true -> wf_prog2 tys p = true -> run3 tys sigs (emb2 p) = Ok g ->
  valid {| v_tys := tys; v_main := g; v_subs := [] |} = true.
Proof. exact run3_emb2_valid. Qed.
Print Assumptions C01_builder3_valid_embedded.

(* non-vacuity for the third language: a module with a declared and a defined function; the body calls and loads the
   declared function and runs a CFG whose second block uses a value of the entry block through a Dom wire; the whole
   `valid` accepts the document (21 nodes), which has a good non-local value edge *)
Theorem C01_builder3_example : exists g, run3 ex9_tys ex9_sigs ex9_prog = Ok g /\
  valid {| v_tys := ex9_tys; v_main := g; v_subs := [] |} = true /\ length (g_nodes g) = 21%nat /\
  existsb (fun n => match n_op n with CFG _ _ => true | _ => false end) (g_nodes g) = true /\
  existsb (fun n => match n_op n with Call _ _ _ => true | _ => false end) (g_nodes g) = true /\
  existsb (fun r => ecode_eqb (classify ex9_tys g (redges g) r) EOk && negb (is_static (r_kind r))) (redges g) = true.
Proof. exact ex9_runs. Qed.
Print Assumptions C01_builder3_example.

(* Rules 0 and 6 for EVERY program of the third language — functions, modules, control-flow graphs, function constants,
   everything of the extended language — with NO premise: whenever the builder calls do not raise, in the serialised
   document node 0 is the root, every other parent is an earlier node, every edge joins existing nodes (Hugr.add_node
   refuses a missing parent, Hugr.add_link a missing end; insert_hugr re-indexes consistently) and no edge touches the
   root (the builders only link nodes created after the root or found in the interpreter's dictionaries — wires,
   statements, functions, module constants —, which never name the root).  The same for the nested documents of
   function-valued constants.  Rules 1 (under croot3) and 2 (no premise) follow below; the typed and non-local rules
   (3-5, 7-17) are MONITORED for programs of the third language that are not embedded ones (`valid` on the implementation's
   document; the correspondence run3s == document holds on every generated program). *)
Theorem C01_builder3_index_root : forall tys sigs p g,
  run3 tys sigs p = Ok g -> r_index g = true /\ r_root_no_edges g = true.
Proof. exact run3_index_root. Qed.
Print Assumptions C01_builder3_index_root.
Theorem C01_builder3_index_root_subs : forall tys sigs p subs g gs, run3s tys sigs p subs = Ok (g, gs) ->
  (r_index g = true /\ r_root_no_edges g = true) /\ forall x, In x gs -> r_index x = true /\ r_root_no_edges x = true.
Proof. exact run3s_index_root. Qed.
Print Assumptions C01_builder3_index_root_subs.

(* Rule 1 (only permitted parent/child operation pairs) for EVERY program of the third language, under the premise croot3
   (spec/Builder3S.v) computed from the program text: no constant is asked to be placed at the root of a Hugr rooted in a
   Conditional, and no separately built Module is inserted.  Each add_node call of the builders puts its child under a node
   whose kind the induction tracks: the open container (DFG / Case / TailLoop / FuncDefn / DataflowBlock accept every
   dataflow child, nested function definitions included), the Conditional for Case nodes, the CFG for blocks and the exit
   block, the Module for declarations, definitions and constants, the root for constants asked to be placed there;
   insert_hugr keeps the pairs of the inserted Hugr and puts its root (a dataflow child unless a Module) under the open
   container; set_outputs / branch_exit complete operations in place.  The premise is necessary: both clauses are refuted
   by programs the builders accept (C01_builder3_child_tags_refuted).  The same for the nested documents of
   function-valued constants. *)
Theorem C01_builder3_child_tags : forall tys sigs p g,
  run3 tys sigs p = Ok g -> croot3 p = true -> r_child_tags g = true.
Proof. exact run3_child_tags. Qed.
Print Assumptions C01_builder3_child_tags.
Theorem C01_builder3_child_tags_subs : forall tys sigs p subs g gs, run3s tys sigs p subs = Ok (g, gs) -> croot3s p subs = true ->
  r_child_tags g = true /\ forall x, In x gs -> r_child_tags x = true.
Proof. exact run3s_child_tags. Qed.
Print Assumptions C01_builder3_child_tags_subs.
(* non-vacuity: the example program of C01_builder3_example meets the premise; a constant at the root of a
   Conditional-rooted Hugr and an inserted Module each give an accepted program whose document violates rule 1 *)
Theorem C01_builder3_child_tags_refuted :
  croot3 ex9_prog = true /\
  (croot3 (emb2 ex_croot) = false /\ exists g, run3 ex_croot_tys [] (emb2 ex_croot) = Ok g /\ r_child_tags g = false) /\
  (croot3 ex10_prog = false /\ exists g, run3 [] [] ex10_prog = Ok g /\ r_child_tags g = false).
Proof. exact (conj ex9_croot3 (conj ex_croot3_refuted ex10_module_refuted)). Qed.
Print Assumptions C01_builder3_child_tags_refuted.

(* Rule 2 (first / second child) for EVERY program of the third language, with NO premise: in the serialised document
   every dataflow container (DFG, Case, TailLoop, FuncDefn, DataflowBlock) has its Input and Output nodes as first and
   second child and no other Input / Output child, every CFG has its entry block first, its exit block second and no
   other exit block, every Conditional has a Case.  A child that is neither Input, Output nor exit block can be appended
   under any node whose check holds; a fresh container is exempt from its add_node call until its second child is there,
   and those moments lie inside one builder call each (init_io; Cfg._init_impl, where the CFG and its entry block are
   exempt at once; Conditional._init_impl); completion steps keep all child lists.  The same for the nested documents of
   function-valued constants. *)
Theorem C01_builder3_first_second : forall tys sigs p g,
  run3 tys sigs p = Ok g -> r_first_second g = true.
Proof. exact run3_first_second. Qed.
Print Assumptions C01_builder3_first_second.
Theorem C01_builder3_first_second_subs : forall tys sigs p subs g gs, run3s tys sigs p subs = Ok (g, gs) ->
  r_first_second g = true /\ forall x, In x gs -> r_first_second x = true.
Proof. exact run3s_first_second. Qed.
Print Assumptions C01_builder3_first_second_subs.

(* The structural rules 0, 1, 2 and 6 together, for every program of the third language that meets croot3 (needed for
   rule 1 only). *)
Theorem C01_builder3_structural : forall tys sigs p g, run3 tys sigs p = Ok g -> croot3 p = true ->
  r_index g = true /\ r_child_tags g = true /\ r_first_second g = true /\ r_root_no_edges g = true.
Proof. exact run3_structural. Qed.
Print Assumptions C01_builder3_structural.

(* ---- the tie: what the correspondence check compares (false alarms corrected: harmless renumbering) ----
   The property promises validity of the serialised document; it does not say which index a node gets (Hugr.insert_hugr
   may copy the nodes of an inserted Hugr in any parent-before-child order that keeps the order of siblings).  The
   theorems above speak about the document `run / run2 / run3s` produce, in the MODEL's numbering; `corr` (run/C01Run.v)
   accepts the implementation's document h for the model's g only if `graph_isob opb g h = true`.  This theorem says
   what that boolean establishes, whatever renumbering its traversal proposes: a bijection pi of the node indices that
   fixes the root, relates the operations (opb: equality of operations; for function constants the nested documents
   named are compared the same way), carries parents to parents, keeps the order of siblings (so Input / Output, entry /
   exit block and Case positions agree) and carries the edges of g onto the edges of h as multisets (offsets explicit).
   NOT proved: that `valid` is invariant under such a renumbering (it is for a renumbering that keeps parents before
   children, which `r_index` checks of h); `valid` is evaluated on the implementation's own document by the monitor. *)
From HV Require Import model.DocIso spec.DocIsoS proofs.DocIsoP.
Theorem C01_corr_is_isomorphism_check : forall opb g h,
  graph_isob opb g h = true -> exists pi, DocIso (fun a b => opb a b = true) pi g h.
Proof. exact graph_isob_sound. Qed.
Print Assumptions C01_corr_is_isomorphism_check.
(* With the plain operation comparison (CProg, CProg2, and the nested documents of CProg3): the operations of a node
   and of its image are EQUAL (Leibniz equality of the literals, i.e. of every fact `valid` reads). *)
Theorem C01_corr_is_isomorphism_check_eq : forall g h,
  graph_isob (vop_eqb_with N.eqb) g h = true -> exists pi, DocIso eq pi g h.
Proof. exact graph_isob_eq_sound. Qed.
Print Assumptions C01_corr_is_isomorphism_check_eq.
