(* C01 — builder-constructed HUGRs satisfy the specification's validity rules (stage A: predicate only). *)
From Coq Require Import NArith List Bool.
From HV Require Import model.Validity.
