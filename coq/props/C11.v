(* C11 — placeholder while the proofs are being written *)
From HV Require Import lib.Harness model.Types model.Resolve spec.ResolveS.
