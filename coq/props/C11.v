(* C11 — extension resolution is conservative, idempotent and invisible on the wire.
   Model: model/Resolve.v (mirrors tys.py / ops.py / hugr/base.py / ext.py after the repairs D15-D17).
   Spec: spec/ResolveS.v.
   The property leaves one thing open: "an operation's free-text description MAY be replaced by its
   definition's".  The model takes that choice as an oracle `keep : descr_choice` (one bit per opaque
   operation: true = the implementation keeps the description the operation was loaded with, false = it
   writes the definition's); every theorem below is stated for every oracle, so it speaks about every
   implementation the property admits.  Nothing else is left open: a third string is excluded by the
   relation ROp (spec) and by the model.
   Guards, all visible in the statements:
     RegWF reg          the registry's dictionaries are keyed by the objects' own names, each definition
                        names the extension it is filed in, extension names are not empty;
     consistent reg x   every recorded bound of an opaque type that has a definition is the bound that
                        definition computes for its arguments (serial-form and bound clauses only);
     no_ext x           x holds no definition-backed type, as everything loaded from serialised form
                        (every-depth clause only: ExtType.resolve is the identity). *)
From Coq Require Import NArith List Bool Arith.
Import ListNotations.
From HV Require Import lib.Harness model.Types model.Resolve spec.ResolveS proofs.ResolveP.
From HV Require Import model.SerialHugr model.ResolveHugr spec.ResolveHugrS proofs.ResolveHugrP.

(* ---- replaced exactly when the registry holds an extension of that name with a definition of that name *)
Theorem C11_resolve_exactly_when_defined : forall reg keep, RegWF reg ->
  (forall e id args b,
     ((exists d, defines_ty reg e id d /\
                 resolve_ty reg (TOpaque e id args b) = TExt d (map (resolve_arg reg) args) Generic)
      <-> resolvable_ty reg e id) /\
     (resolve_ty reg (TOpaque e id args b) = TOpaque e id (map (resolve_arg reg) args) b
      <-> ~ resolvable_ty reg e id)) /\
  (forall c,
     ((exists d, defines_op reg (c_ext c) (c_name c) d /\
                 resolve_op reg keep (OCustom c) =
                 OExt {| x_def := d; x_sig := resolve_ft reg (c_sig c); x_args := map (resolve_arg reg) (c_args c);
                       x_descr := if keep c then c_descr c else od_descr d |})
      <-> resolvable_op reg (c_ext c) (c_name c)) /\
     (resolve_op reg keep (OCustom c) = OCustom c <-> ~ resolvable_op reg (c_ext c) (c_name c))).
Proof. exact resolve_exactly_when_defined_thm. Qed.

(* ---- the result is the input with exactly the resolvable opaque types (operations) replaced by the
   definition filed under their name, at every position, and every other node identical *)
Theorem C11_resolve_pointwise : forall reg keep, RegWF reg ->
  (forall t, RTy reg t (resolve_ty reg t)) /\ (forall a, RArg reg a (resolve_arg reg a)) /\
  (forall o, ROp reg o (resolve_op reg keep o)) /\
  (forall h, Forall2 (ROp reg) h (resolve_hugr reg keep h)).
Proof. exact resolve_pointwise_thm. Qed.

(* what the monitor computes on the implementation's result is sound for that relation *)
Theorem C11_monitor_relation_sound : forall reg,
  (forall t t', rty_b reg t t' = true -> RTy reg t t') /\ (forall a a', rarg_b reg a a' = true -> RArg reg a a') /\
  (forall o o', rop_b reg o o' = true -> ROp reg o o') /\ (regwf_b reg = true -> RegWF reg).
Proof. exact monitor_relation_sound. Qed.

(* ---- every depth: in an expression loaded from serial form no resolvable opaque type remains, in
   variants of sums, function types, type arguments, sequence arguments, arguments of opaque types *)
Theorem C11_resolve_reaches_every_depth : forall reg, RegWF reg ->
  (forall t, no_ext t = true -> clean reg (resolve_ty reg t) = true) /\
  (forall a, no_ext_arg a = true -> clean_arg reg (resolve_arg reg a) = true).
Proof. exact resolve_deep_both. Qed.

(* the same with the inductive reading of "a resolvable opaque type remains somewhere" (Remains is
   reflected by the boolean: clean reg t = false <-> Remains reg t) *)
Theorem C11_no_resolvable_opaque_remains : forall reg t, RegWF reg -> no_ext t = true ->
  ~ Remains reg (resolve_ty reg t).
Proof. exact no_resolvable_opaque_remains. Qed.
Theorem C11_clean_reflects_remains : forall reg,
  (forall t, clean reg t = false <-> Remains reg t) /\ (forall a, clean_arg reg a = false <-> RemainsArg reg a).
Proof. exact remains_clean_both. Qed.

(* ---- nothing to resolve: the object is returned as it was; operations that are not opaque, and opaque
   operations without a definition (including the opaque types of their signature), are not touched *)
Theorem C11_resolve_untouched_otherwise : forall reg keep,
  (forall t, clean reg t = true -> resolve_ty reg t = t) /\
  (forall a, clean_arg reg a = true -> resolve_arg reg a = a) /\
  (forall x, resolve_op reg keep (OExt x) = OExt x) /\ (forall k, resolve_op reg keep (OOther k) = OOther k) /\
  (RegWF reg -> forall c, ~ resolvable_op reg (c_ext c) (c_name c) -> resolve_op reg keep (OCustom c) = OCustom c).
Proof. exact resolve_untouched_otherwise_thm. Qed.

(* ---- the serialised form does not change; for an operation the description may become the definition's,
   and nothing else changes; for a HUGR, node by node *)
Theorem C11_resolve_preserves_encoding : forall reg keep, RegWF reg ->
  (forall t, consistent reg t = true -> ser_ty (resolve_ty reg t) = ser_ty t) /\
  (forall a, consistent_arg reg a = true -> ser_arg (resolve_arg reg a) = ser_arg a) /\
  (forall o s, consistent_op reg o = true -> ser_op o = Some s ->
     exists s', ser_op (resolve_op reg keep o) = Some s' /\ same_but_descr reg s s') /\
  (forall h s, forallb (consistent_op reg) h = true -> ser_hugr h = Some s ->
     exists s', ser_hugr (resolve_hugr reg keep h) = Some s' /\ Forall2 (same_but_descr reg) s s') /\
  (* both directions of "may be replaced": where the loaded description is kept the serial operation is
     identical (also when serialising raises); where it is not, the description is the definition's *)
  (forall o, consistent_op reg o = true -> (forall c, o = OCustom c -> keep c = true) ->
     ser_op (resolve_op reg keep o) = ser_op o) /\
  (forall c d s', defines_op reg (c_ext c) (c_name c) d -> keep c = false ->
     ser_op (resolve_op reg keep (OCustom c)) = Some (OCustom s') -> c_descr s' = od_descr d).
Proof. exact resolve_preserves_encoding_thm. Qed.

(* ---- the exported model does not change (types, type arguments, operation symbol/arguments/signature) *)
Theorem C11_resolve_preserves_model_export : forall reg keep, RegWF reg ->
  (forall t, to_model (resolve_ty reg t) = to_model t) /\
  (forall a, arg_to_model (resolve_arg reg a) = arg_to_model a) /\
  (forall o, export_op (resolve_op reg keep o) = export_op o).
Proof. exact resolve_preserves_model_export_thm. Qed.

(* ---- type bounds; signatures and port types of operations: the signature of the resolved operation is
   the resolved signature (same extension requirements), with as many ports, the same bounds port by
   port and the same serial form *)
Theorem C11_resolve_preserves_facts : forall reg keep,
  (forall t, consistent reg t = true -> tbound (resolve_ty reg t) = tbound t) /\
  (forall o f, outer_signature o = Some f ->
     exists f', outer_signature (resolve_op reg keep o) = Some f' /\ (f' = f \/ f' = resolve_ft reg f)) /\
  (forall f, consistent_ft reg f = true ->
     ft_reqs (resolve_ft reg f) = ft_reqs f /\
     length (ft_in (resolve_ft reg f)) = length (ft_in f) /\ length (ft_out (resolve_ft reg f)) = length (ft_out f) /\
     row_bounds (ft_in (resolve_ft reg f)) = row_bounds (ft_in f) /\
     row_bounds (ft_out (resolve_ft reg f)) = row_bounds (ft_out f) /\
     (RegWF reg -> ser_ft (resolve_ft reg f) = ser_ft f)).
Proof. exact resolve_preserves_facts_thm. Qed.

(* ---- resolving twice equals resolving once (no guard; whatever the choices at the two calls) *)
Theorem C11_resolve_idempotent : forall reg keep keep',
  (forall t, resolve_ty reg (resolve_ty reg t) = resolve_ty reg t) /\
  (forall a, resolve_arg reg (resolve_arg reg a) = resolve_arg reg a) /\
  (forall o, resolve_op reg keep' (resolve_op reg keep o) = resolve_op reg keep o) /\
  (forall h, resolve_hugr reg keep' (resolve_hugr reg keep h) = resolve_hugr reg keep h).
Proof. exact resolve_idempotent_thm. Qed.

(* ---- the guards are satisfiable by a registry with two type definitions and an operation definition, a
   sum holding List<T> inside an argument of an unknown opaque type, and an operation whose description
   differs from its definition's: an implementation that takes the definition's changes the serial
   description, one that keeps the loaded description leaves the serial operation identical *)
Example C11_example :
  RegWF Ex.reg /\ no_ext Ex.t = true /\ consistent Ex.reg Ex.t = true /\ clean Ex.reg Ex.t = false /\
  resolve_ty Ex.reg Ex.t <> Ex.t /\ ser_ty (resolve_ty Ex.reg Ex.t) = Some Ex.t /\
  consistent_op Ex.reg (OCustom Ex.c) = true /\
  (forall keep, exists x, resolve_op Ex.reg keep (OCustom Ex.c) = OExt x) /\
  (exists s s', ser_op (OCustom Ex.c) = Some (OCustom s) /\
                ser_op (resolve_op Ex.reg take_definitions (OCustom Ex.c)) = Some (OCustom s') /\ c_descr s <> c_descr s') /\
  ser_op (resolve_op Ex.reg keep_loaded (OCustom Ex.c)) = ser_op (OCustom Ex.c).
Proof. exact ex_nontrivial. Qed.

(* ====================================================================================================
   Second pass: Hugr.resolve_extensions on the whole HUGR (model/ResolveHugr.v over the HUGR record of
   model/SerialHugr.v: node table with holes, operation / parent / ordered children / metadata / recorded port
   counts per node, links, root; constants hold the HUGRs of their function values, to any depth).

   Scope: the property speaks of the opaque operations of the HUGR being resolved, i.e. of its nodes, and of the
   depths "sums, function types, type arguments, arguments of opaque types".  The HUGR held by a function value
   inside a constant is not made of nodes of that HUGR: hugr-py's resolve_extensions leaves it alone, and under
   "leaves everything else untouched" it belongs to the frame (C11_hugr_constants_untouched).  hugr-core's
   resolve_value_exts does descend into function values; that difference is outside this property.
   ==================================================================================================== *)

(* ---- the loop `for node in self: self[node].op = ...` rewrites `op` fields and nothing else: it equals
   the node table with resolve_hop mapped over the operations, slot by slot *)
Theorem C11_hugr_loop_is_map : forall reg keep h,
  resolve_extensions reg keep h = map_hugr (resolve_hop reg keep) h /\
  (forall i, get_node (resolve_extensions reg keep h) i = option_map (map_node (resolve_hop reg keep)) (get_node h i)).
Proof. exact hugr_loop_is_map_thm. Qed.

(* ---- (a) the frame: root, links, holes, and per live node parent, children in order, metadata and recorded port
   counts are untouched; the live indices (iteration order) and the table length are the same *)
Theorem C11_hugr_frame : forall reg keep h,
  same_frame h (resolve_extensions reg keep h) /\ live (resolve_extensions reg keep h) = live h /\
  length (h_nodes (resolve_extensions reg keep h)) = length (h_nodes h).
Proof. exact hugr_frame_thm. Qed.

(* ---- (a) exactly the opaque operations the registry defines are replaced, at every node of the HUGR, each as the
   per-operation relation ROp says; every other operation - constants with all they hold included - identical *)
Theorem C11_hugr_resolve_pointwise : forall reg keep, RegWF reg ->
  (forall h, RHugr reg h (resolve_extensions reg keep h)) /\ (forall o, RHop reg o (resolve_hop reg keep o)).
Proof. exact hugr_resolve_pointwise_thm. Qed.

(* ---- (a) a node's operation changes iff it is an opaque operation with a definition in the registry; a HUGR
   without any is returned as it was; a node without one keeps its whole entry *)
Theorem C11_hugr_only_defined_ops_change : forall reg keep,
  (forall o, hop_holds (untouchable_op reg) o = true -> resolve_hop reg keep o = o) /\
  (RegWF reg -> forall o, resolve_hop reg keep o = o -> hop_holds (untouchable_op reg) o = true) /\
  (forall h, hugr_all (untouchable_op reg) h = true -> resolve_extensions reg keep h = h) /\
  (forall h i n, get_node h i = Some n -> hop_holds (untouchable_op reg) (SerialHugr.n_op n) = true ->
                 get_node (resolve_extensions reg keep h) i = Some n).
Proof. exact hugr_only_defined_ops_change_thm. Qed.

(* ---- (a) function-valued constants and their bodies are part of the frame: a constant is returned as it is
   whatever its value holds, its node entry is unchanged, and both the monitor's boolean and the relation RHop
   accept nothing but the identical constant (a change inside the HUGR of a function value is a violation of
   "leaves everything else untouched") *)
Theorem C11_hugr_constants_untouched : forall reg keep,
  (forall v, resolve_hop reg keep (HConst v) = HConst v) /\
  (forall h i n v, get_node h i = Some n -> SerialHugr.n_op n = HConst v ->
                   get_node (resolve_extensions reg keep h) i = Some n) /\
  (forall v o, rhop_b reg (HConst v) o = true -> o = HConst v) /\
  (forall v o, RHop reg (HConst v) o -> o = HConst v).
Proof. exact hugr_constants_untouched_thm. Qed.

(* ---- every depth, at HUGR level: in a HUGR as loading produces it (opaque operations only, no definition-backed
   type) no resolved operation keeps a resolvable opaque type at any depth of its signature or type arguments *)
Theorem C11_hugr_reaches_every_depth : forall reg keep, RegWF reg ->
  (forall h, hugr_all op_loaded h = true -> hugr_all (op_clean reg) (resolve_extensions reg keep h) = true) /\
  (forall o, op_loaded o = true -> op_clean reg (resolve_op reg keep o) = true).
Proof. exact hugr_reaches_every_depth_thm. Qed.

(* ---- (b) resolving twice equals resolving once, for the whole HUGR (no guard) *)
Theorem C11_hugr_idempotent : forall reg keep keep',
  (forall h, resolve_extensions reg keep' (resolve_extensions reg keep h) = resolve_extensions reg keep h) /\
  (forall o, resolve_hop reg keep' (resolve_hop reg keep o) = resolve_hop reg keep o).
Proof. exact hugr_idempotent_thm. Qed.

(* ---- (c) the serialised document (Hugr._to_serial of model/SerialHugr.v with the encoder ser_hop; the documents
   of function values nested inside constants) is unchanged: same edges, same metadata, same parents, identical
   constants, same operations except that the description of an Extension operation at a node may have become
   that of a definition filed under its name *)
Theorem C11_hugr_document_unchanged : forall reg keep, RegWF reg ->
  (forall h s, consistent_hugr reg h = true -> hugr_doc h = Some s ->
     exists s', hugr_doc (resolve_extensions reg keep h) = Some s' /\ SameDoc reg s s') /\
  (forall b, ser_val (VFunc b) = match to_serial ser_hop hop_ndp md_is_nil b with
                                 | Some d => option_map SVFunc (seq_serial d)
                                 | None => None
                                 end) /\
  (* both directions: a HUGR all of whose opaque operations keep their loaded description has the identical
     document (also when serialising raises); an operation that does not keep it is written with its definition's *)
  (forall h, consistent_hugr reg h = true -> hugr_all (keeps_descr keep) h = true ->
     hugr_doc (resolve_extensions reg keep h) = hugr_doc h) /\
  (forall c d s', defines_op reg (c_ext c) (c_name c) d -> keep c = false ->
     ser_hop (resolve_hop reg keep (HOp (OCustom c))) = Some (SOp (OCustom s')) -> c_descr s' = od_descr d).
Proof. exact hugr_document_thm. Qed.

(* the same through an arbitrary encoder: for any `enc`, any dataflow-port-count function and any rewriting f of
   the operations that keeps the port counts and relates the encodings by R, Hugr._to_serial of the HUGR and of
   the rewritten HUGR both fail or both succeed, with the same edges and metadata and node lists related position
   by position (same parent, operations related by R) *)
Theorem C11_document_frame_through_enc :
  forall (A S M : Type) (enc : A -> S) (ndp : A -> dir -> option nat) (nil : M -> bool) (f : A -> A)
         (R : S -> S -> Prop) (h : hugr A M),
  (forall n, In (Some n) (h_nodes h) ->
     (forall d, ndp (f (SerialHugr.n_op n)) d = ndp (SerialHugr.n_op n) d) /\
    R (enc (SerialHugr.n_op n)) (enc (f (SerialHugr.n_op n)))) ->
  match to_serial enc ndp nil h, to_serial enc ndp nil (map_hugr f h) with
  | Some s, Some s' =>
      s_edges s' = s_edges s /\ s_meta s' = s_meta s /\
     Forall2 (fun a b => s_parent b = s_parent a /\ R (s_op a) (s_op b)) (s_nodes s) (s_nodes s')
  | None, None => True
  | _, _ => False
  end.
Proof. exact document_frame_through_enc_thm. Qed.

(* ---- (d) Hugr.port_type of every out port: identical, or (only at a node whose opaque operation has a definition)
   the resolved type; related by RTy; identical at nodes holding nothing the registry defines; same bound and
   same serial form; the dataflow port counts of every operation are unchanged *)
Theorem C11_hugr_port_types : forall reg keep h i k,
  (port_type (resolve_extensions reg keep h) i k = port_type h i k \/
   exists n c, get_node h i = Some n /\ SerialHugr.n_op n = HOp (OCustom c) /\
               lookup_op reg (c_ext c) (c_name c) <> None /\
               port_type (resolve_extensions reg keep h) i k = option_map (resolve_ty reg) (port_type h i k)) /\
  (RegWF reg -> port_type_rel reg (port_type h i k) (port_type (resolve_extensions reg keep h) i k)) /\
  (forall n, get_node h i = Some n -> hop_holds (untouchable_op reg) (SerialHugr.n_op n) = true ->
             port_type (resolve_extensions reg keep h) i k = port_type h i k) /\
  (RegWF reg -> consistent_hugr reg h = true ->
     option_map tbound (port_type (resolve_extensions reg keep h) i k) = option_map tbound (port_type h i k) /\
     option_map ser_ty (port_type (resolve_extensions reg keep h) i k) = option_map ser_ty (port_type h i k)) /\
  (forall d n, get_node h i = Some n ->
     hop_ndp (resolve_hop reg keep (SerialHugr.n_op n)) d = hop_ndp (SerialHugr.n_op n) d).
Proof. exact hugr_port_types_thm. Qed.

(* ---- what the monitor computes on the implementation's dumps is sound for the relations above *)
Theorem C11_hugr_monitor_sound : forall reg,
  (forall h h', rhugr_b reg h h' = true -> RHugr reg h h') /\
  (forall d d', same_doc_b reg d d' = true -> SameDoc reg d d') /\
  (forall a b, port_type_rel_b reg a b = true -> port_type_rel reg a b).
Proof. exact hugr_monitor_sound_thm. Qed.

(* ---- the guards hold of a HUGR with a hole, an opaque operation with more recorded out ports than its signature,
   value and order links, and a constant whose sum value holds a function value whose body holds the operation
   again; resolution changes the node's operation, the document changes in that description only, a port type
   changes to its resolved form, and the constant's entry - with the resolvable operation inside - is unchanged *)
Example C11_hugr_example :
  RegWF Ex.reg /\ consistent_hugr Ex.reg ExH.h = true /\ hugr_all (untouchable_op Ex.reg) ExH.h = false /\
  get_node ExH.h 1 = None /\
  hugr_eqb (resolve_extensions Ex.reg take_definitions ExH.h) ExH.h = false /\ rhugr_b Ex.reg ExH.h (resolve_extensions Ex.reg take_definitions ExH.h) = true /\
  (exists s s', hugr_doc ExH.h = Some s /\ hugr_doc (resolve_extensions Ex.reg take_definitions ExH.h) = Some s' /\
                doc_eqb s s' = false /\ same_doc_b Ex.reg s s' = true) /\
  (exists t, port_type ExH.h 2 0 = Some t /\ port_type (resolve_extensions Ex.reg take_definitions ExH.h) 2 0 = Some (resolve_ty Ex.reg t) /\
             ty_eqb (resolve_ty Ex.reg t) t = false) /\
  port_type ExH.h 2 1 = None /\
  get_node (resolve_extensions Ex.reg take_definitions ExH.h) 3 = get_node ExH.h 3 /\ hugr_all (untouchable_op Ex.reg) ExH.body = false /\
  (* an implementation that keeps the loaded description: the operation is resolved all the same, the document is identical *)
  hugr_eqb (resolve_extensions Ex.reg keep_loaded ExH.h) ExH.h = false /\
  rhugr_b Ex.reg ExH.h (resolve_extensions Ex.reg keep_loaded ExH.h) = true /\
  hugr_doc (resolve_extensions Ex.reg keep_loaded ExH.h) = hugr_doc ExH.h /\ hugr_doc ExH.h <> None.
Proof. exact exh_nontrivial. Qed.

Print Assumptions C11_resolve_exactly_when_defined.
Print Assumptions C11_resolve_pointwise.
Print Assumptions C11_monitor_relation_sound.
Print Assumptions C11_resolve_reaches_every_depth.
Print Assumptions C11_no_resolvable_opaque_remains.
Print Assumptions C11_clean_reflects_remains.
Print Assumptions C11_resolve_untouched_otherwise.
Print Assumptions C11_resolve_preserves_encoding.
Print Assumptions C11_resolve_preserves_model_export.
Print Assumptions C11_resolve_preserves_facts.
Print Assumptions C11_resolve_idempotent.
Print Assumptions C11_hugr_loop_is_map.
Print Assumptions C11_hugr_frame.
Print Assumptions C11_hugr_resolve_pointwise.
Print Assumptions C11_hugr_only_defined_ops_change.
Print Assumptions C11_hugr_idempotent.
Print Assumptions C11_hugr_document_unchanged.
Print Assumptions C11_document_frame_through_enc.
Print Assumptions C11_hugr_port_types.
Print Assumptions C11_hugr_monitor_sound.
Print Assumptions C11_hugr_reaches_every_depth.
Print Assumptions C11_hugr_constants_untouched.
