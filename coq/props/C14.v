(* C14 — constants inhabit the type they report. *)
From Coq Require Import ZArith NArith List Bool Arith.
Import ListNotations.
From HV Require Import lib.Harness model.Types model.TypesEq model.Values spec.TypesS spec.ValuesS gen.StdBounds
  proofs.TypesP proofs.ValuesP.

(* Every value expression (any nesting: sums of tuples of extension constants, arrays of sums, functions as
   values) that satisfies the guard wf_expr — raw val.Sum / UnitSum tags in range and caller-chosen field /
   element types equal to what the fields report, integer widths 0..6 — serialises to a value that inhabits
   the type it reports, under the judgment of spec/ValuesS.v (after hugr-core's Value::validate). *)
Theorem C14_values_inhabit_reported_type : forall std, std_ok std -> forall e t s,
  wf_expr std e = true -> type_of std e = Some t -> ser std e = Some s -> has_type std s t.
Proof. intros std H e t s Hw. exact (expr_well_typed std H e Hw t s). Qed.

(* values built from the helpers alone (Tuple / Some / None_ / Left / Right / bool_value / UnitSum with a tag
   below its size / Function / IntVal width<=6 / FloatVal / StringVal / opaque Extension) need no guard *)
Theorem C14_helpers_well_typed : forall std, std_ok std -> forall e t s, helper_only e = true ->
  type_of std e = Some t -> ser std e = Some s -> has_type std s t.
Proof. exact helpers_well_typed. Qed.

(* a raw val.Sum(tag, typ, vals) with a caller-chosen type is well typed iff the tag is in range and the
   field types match the tagged row *)
Theorem C14_raw_sum_well_typed_iff : forall std, std_ok std -> forall tag typ vs ts ss,
  forallb (wf_expr std) vs = true -> types_of std vs = Some ts -> mapO (ser std) vs = Some ss ->
  type_of std (ESum tag typ vs) = Some typ /\ ser std (ESum tag typ vs) = Some (SSum tag typ ss) /\
  (has_type std (SSum tag typ ss) typ <->
   exists rows row, sum_rows typ = Some rows /\ nth_error rows tag = Some row /\ Forall2 same_ty ts row).
Proof. exact raw_sum_well_typed_iff. Qed.

Theorem C14_helper_types : forall std vs ts ss, types_of std vs = Some ts -> mapO (ser std) vs = Some ss ->
  (type_of std (ETuple vs) = Some (TSum [ts]) /\ ser std (ETuple vs) = Some (STuple ss)) /\
  (type_of std (ESome vs) = Some (TSum [[]; ts]) /\ ser std (ESome vs) = Some (SSum 1 (TSum [[]; ts]) ss)) /\
  (forall rts, type_of std (ELeft vs rts) = Some (TSum [ts; rts]) /\
               ser std (ELeft vs rts) = Some (SSum 0 (TSum [ts; rts]) ss)) /\
  (forall lts, type_of std (ERight lts vs) = Some (TSum [lts; ts]) /\
               ser std (ERight lts vs) = Some (SSum 1 (TSum [lts; ts]) ss)) /\
  (forall tys, type_of std (ENone tys) = Some (TSum [[]; tys]) /\ ser std (ENone tys) = Some (SSum 0 (TSum [[]; tys]) [])) /\
  (forall tag n, type_of std (EUnitSum tag n) = Some (TUnitSum n) /\ ser std (EUnitSum tag n) = Some (SSum tag (TUnitSum n) [])) /\
  (forall b, type_of std (EBool b) = Some (TUnitSum 2) /\
             ser std (EBool b) = Some (SSum (if b then 1 else 0) (TUnitSum 2) [])) /\
  (forall sig, type_of std (EFunc sig) = Some (TFunc (fs_in sig) (fs_out sig) (fs_reqs sig))).
Proof. exact helper_types. Qed.

Theorem C14_std_constants : forall std,
  (forall v w, type_of std (EInt v w) = Some (int_t std w) /\
               ser std (EInt v w) = Some (SExt CInt (int_t std w) (SPInt w v) [td_ext (d_int std)])) /\
  (type_of std EFloat = Some (float_t std) /\ ser std EFloat = Some (SExt CF64 (float_t std) SPFloat [td_ext (d_float std)])) /\
  (type_of std EString = Some (string_t std) /\
   ser std EString = Some (SExt CString (string_t std) SPString [td_ext (d_string std)])) /\
  (forall vs elem ss, mapO (ser std) vs = Some ss ->
     type_of std (EArray vs elem) = Some (array_t std (length vs) elem) /\ length ss = length vs /\
     ser std (EArray vs elem) = Some (SExt CArray (array_t std (length vs) elem) (SPSeq ss elem) [td_ext (d_array std)]) /\
     type_of std (EList vs elem) = Some (list_t std elem) /\
     ser std (EList vs elem) = Some (SExt CList (list_t std elem) (SPSeq ss elem) [td_ext (d_list std)]) /\
     (forall nm, static_array_accepts elem = Some true ->
        type_of std (EStatic vs elem nm) = Some (static_t std elem) /\
        ser std (EStatic vs elem nm) = Some (SExt CStatic (static_t std elem) (SPStatic ss elem nm) [td_ext (d_static std)]))).
Proof. exact std_constants. Qed.

Theorem C14_collection_well_typed_iff : forall std, std_ok std -> forall vs elem ts ss,
  forallb (wf_expr std) vs = true -> types_of std vs = Some ts -> mapO (ser std) vs = Some ss ->
  (has_type std (SExt CArray (array_t std (length vs) elem) (SPSeq ss elem) [td_ext (d_array std)]) (array_t std (length vs) elem)
   <-> Forall (fun t => same_ty t elem) ts) /\
  (has_type std (SExt CList (list_t std elem) (SPSeq ss elem) [td_ext (d_list std)]) (list_t std elem)
   <-> Forall (fun t => same_ty t elem) ts).
Proof. exact collection_well_typed_iff. Qed.

Theorem C14_const_port_and_load_agree : forall std e t, type_of std e = Some t ->
  const_port_type std e = Some t /\ load_const_type std e = Some t /\ load_sig std e = Some ([], [t]) /\
  (std_ok std -> wf_expr std e = true -> forall s, ser std e = Some s -> has_type std s t).
Proof. exact const_port_and_load_agree. Qed.

(* the judgment: decided by has_type_b (what the monitor runs), assigns one type up to normal form, and is
   stable under it; the comparison of types is structural equality of normal forms *)
Theorem C14_has_type_b_reflects : forall std s t, has_type_b std s t = true <-> has_type std s t.
Proof. exact has_type_b_spec. Qed.
Theorem C14_type_unique : forall std s t1 t2, has_type std s t1 -> has_type std s t2 -> same_ty t1 t2.
Proof. exact has_type_unique. Qed.
Theorem C14_same_tyb_reflects : forall a b, same_tyb a b = true <-> tnorm a = tnorm b.
Proof. exact same_tyb_spec. Qed.

(* the guard on the std definitions holds for the bounds in the JSON definition files (both locations) *)
Theorem C14_std_ok_from_json : forall std,
  In (td_bound (d_array std)) [std_array_bound_py; std_array_bound_spec] ->
  In (td_bound (d_list std)) [std_list_bound_py; std_list_bound_spec] ->
  In (td_bound (d_static std)) [std_static_array_bound_py; std_static_array_bound_spec] -> std_ok std.
Proof. exact std_ok_from_json. Qed.

(* Histories on ONE Const node (the value it holds changes between observations: the value object is changed in
   place, `hugr[c].op.val` is re-assigned, or the op is replaced): nothing is remembered — every observation
   (type_(), serial form, static port, a LoadConstant built now) is the observation of a fresh node holding the
   value of that moment — and therefore each one satisfies the property for that value. *)
Theorem C14_history_fresh : forall std steps cur,
  run_hist std cur steps = map (observe_const std) (held_at cur steps).
Proof. exact history_fresh. Qed.
Theorem C14_history_inhabits : forall std, std_ok std -> forall steps cur,
  Forall2 (obs_ok std) (held_at cur steps) (run_hist std cur steps).
Proof. exact history_inhabits. Qed.

(* Spellings of one value.  The serial format writes a tuple either in the shorthand {"v":"Tuple","vs"} or as the
   general sum value with tag 0 that carries the one-row sum type (hugr-core reads the former as an alias of the
   latter).  `general s t` rewrites every shorthand met while reading s at type t into the general form; the typing
   judgment does not see the difference, so every theorem above holds of either spelling of what `ser` writes. *)
Theorem C14_spelling_irrelevant : forall std s t, has_type std (general s t) t <-> has_type std s t.
Proof. exact general_has_type. Qed.
Theorem C14_tuple_spellings : forall std vs row t,
  sum_rows t = Some [row] -> (has_type std (STuple vs) t <-> has_type std (SSum 0 t vs) t).
Proof. exact tuple_spellings. Qed.

Print Assumptions C14_values_inhabit_reported_type.
Print Assumptions C14_helpers_well_typed.
Print Assumptions C14_raw_sum_well_typed_iff.
Print Assumptions C14_helper_types.
Print Assumptions C14_std_constants.
Print Assumptions C14_collection_well_typed_iff.
Print Assumptions C14_const_port_and_load_agree.
Print Assumptions C14_has_type_b_reflects.
Print Assumptions C14_type_unique.
Print Assumptions C14_same_tyb_reflects.
Print Assumptions C14_std_ok_from_json.
Print Assumptions C14_history_fresh.
Print Assumptions C14_history_inhabits.
Print Assumptions C14_spelling_irrelevant.
Print Assumptions C14_tuple_spellings.
