(* C02 — JSON round trip of a HUGR is lossless and a fixed point.
   Model: model/SerialHugr.v (Hugr._to_serial / _constrain_offset / _from_serial over abstract operations
   and metadata).  Spec: spec/SerialHugrS.v.  Proofs: proofs/SerialHugrP.v.
   The operation-level facts are hypotheses that stay in the statements (they are property C05):
     enc (dec (enc o)) = enc o          decoding and re-encoding an encoded operation gives the same encoding
     ndp (dec (enc o)) d = ndp o d      the decoded operation has the same number of value+static ports
   and ndp (ops._num_dataflow_ports) is what the reader's contract says: value + static port count for the
   operations that have an order port, None for the others.
   guard_b h = the hierarchy is consistent with index order (every parent a live node of smaller index,
   children lists in index order: true after every builder program and every add/delete history that
   never re-uses a freed index) and links attach only to ports their operations have.
   The JSON-text level (pydantic dump/validate) is monitored per case, not proved.

   Second pass (model/HugrHist.v, spec/HugrHistS.v, proofs/HugrHistP.v): the guard is an invariant of mutation
   histories.  A history is Hugr(root_op) followed by any list of add_node / add_const / add_link /
   add_order_link / delete_link / delete_node / insert_hugr calls (the statement-by-statement store model of
   C04, model/Graph.v: node table with holes, free stack, BiMap of sub-ports) and metadata assignments;
   `view` is what the public queries show of a store state (harness/hobs.py dump).  Premises are on the
   individual calls, each evaluated in the state the call is made in:
     hist_ok        every call is inside the store's guard (live node arguments, link offsets >= -1,
                    delete_node of a childless non-root node, insert_hugr under a live parent of a HUGR that
                    was itself built inside the guard without index reuse) and no freed index is pending at
                    any add_node / insert_hugr
     hist_on_ports  every add_link / add_order_link names ports the operations have (C03's premise) *)
From Coq Require Import List Bool Arith ZArith Permutation.
Import ListNotations.
From HV Require Import model.Graph spec.GraphS proofs.GraphInvP.
From HV Require Import lib.Harness model.SerialHugr spec.SerialHugrS proofs.SerialHugrP.
From HV Require Import model.HugrHist spec.HugrHistS proofs.HugrHistP.

Section C02.
  Variables op sop md : Type.
  Variable enc : op -> sop.
  Variable dec : sop -> op.
  Variable ndp : op -> dir -> option nat.
  Variable md_nil : md.
  Variable md_is_nil : md -> bool.
  Variables vports sports : op -> dir -> nat.
  Variable has_order : op -> bool.
  Hypothesis ndp_spec : forall o d, ndp o d = if has_order o then Some (vports o d + sports o d) else None.
  Hypothesis md_nil_is_nil : md_is_nil md_nil = true.
  Hypothesis md_nil_unique : forall m, md_is_nil m = true -> m = md_nil.
  Hypothesis enc_dec_enc : forall o, enc (dec (enc o)) = enc o.
  Hypothesis ndp_dec_enc : forall o d, ndp (dec (enc o)) d = ndp o d.

  (* serialization succeeds, loading the document succeeds, and the loaded HUGR serializes to the same document *)
  Theorem C02_roundtrip_fixpoint : forall h : hugr op md, guard_b vports sports has_order h = true ->
    exists s h', to_serial enc ndp md_is_nil h = Some s /\ from_serial dec ndp md_nil s = Some h' /\
                 to_serial enc ndp md_is_nil h' = Some s.
  Proof.
    exact (roundtrip_fixpoint_total op sop md enc dec ndp md_nil md_is_nil vports sports has_order ndp_spec
             md_nil_is_nil enc_dec_enc).
  Qed.

  (* the loaded HUGR shows the same observable structure under the order-preserving renumbering `rank`:
     no holes, same operation by encoded form, same parent, same ordered children, same metadata on every
     node, the same root, and the same multiset of links on every port (order links stay order links) *)
  Theorem C02_roundtrip_iso : forall (h : hugr op md) s, guard_b vports sports has_order h = true ->
    to_serial enc ndp md_is_nil h = Some s ->
    exists h', from_serial dec ndp md_nil s = Some h' /\ Iso enc h h'.
  Proof.
    exact (roundtrip_iso op sop md enc dec ndp md_nil md_is_nil vports sports has_order ndp_spec
             enc_dec_enc ndp_dec_enc md_nil_unique).
  Qed.

  (* the only licence: `rank` is the order-preserving compaction of the live indices onto 0 .. n-1 *)
  Theorem C02_renumbering_order_preserving : forall (h : hugr op md) i j,
    is_live h i = true -> i < j -> rank h i < rank h j.
  Proof. exact (rank_order_preserving op md md_nil md_is_nil). Qed.
  Theorem C02_renumbering_onto_prefix : forall (h : hugr op md) i,
    is_live h i = true -> rank h i < length (lives h).
  Proof. exact (rank_bound op md md_nil md_is_nil). Qed.

  (* index_ordered is an invariant of mutation histories that never reuse an index: every call returns
     normally, the store invariant of C04 holds and the hierarchy of the HUGR the public queries show is
     consistent with index order *)
  Theorem C02_history_index_ordered : forall (o : op) (m : md) (cs : list (hcmd op md)),
    hist_ok (init o m) cs = true ->
    all_return (init o m) cs = true /\ Inv (hrun (init o m) cs) /\
    index_ordered_b (view (hrun (init o m) cs)) = true.
  Proof. exact history_index_ordered. Qed.
  (* ... and so is the whole guard when add_link / add_order_link are only called on ports the operations have *)
  Theorem C02_history_guard : forall (o : op) (m : md) (cs : list (hcmd op md)),
    hist_ok (init o m) cs = true -> hist_on_ports vports sports has_order (init o m) cs = true ->
    all_return (init o m) cs = true /\ guard_b vports sports has_order (view (hrun (init o m) cs)) = true.
  Proof. exact (history_guard vports sports has_order). Qed.
  (* the round trip of every HUGR reached by such a history: premises only on the individual calls *)
  Theorem C02_history_roundtrip : forall (o : op) (m : md) (cs : list (hcmd op md)),
    hist_ok (init o m) cs = true -> hist_on_ports vports sports has_order (init o m) cs = true ->
    exists s h', to_serial enc ndp md_is_nil (view (hrun (init o m) cs)) = Some s /\
                 from_serial dec ndp md_nil s = Some h' /\ to_serial enc ndp md_is_nil h' = Some s /\
                 Iso enc (view (hrun (init o m) cs)) h'.
  Proof.
    exact (history_roundtrip op sop md enc dec ndp md_nil md_is_nil vports sports has_order ndp_spec
             md_nil_is_nil md_nil_unique enc_dec_enc ndp_dec_enc).
  Qed.
  (* the syntactic form of "no index reuse": inside the guard, no node added after a node was deleted *)
  Theorem C02_no_add_after_delete_never_reuses : forall (o : op) (m : md) (cs : list (hcmd op md)),
    hist_in_guard (init o m) cs = true -> no_add_after_delete cs = true -> hist_ok (init o m) cs = true.
  Proof. exact no_add_after_delete_init. Qed.
End C02.

(* a document in canonical form (root first, parents earlier, explicit offsets, full metadata list) is a
   fixed point whatever HUGR it came from: stated for the loader alone *)
Theorem C02_canonical_document_fixpoint :
  forall (op sop md : Type) (enc : op -> sop) (dec : sop -> op) (ndp : op -> dir -> option nat)
         (md_nil : md) (md_is_nil : md -> bool), md_is_nil md_nil = true ->
  forall s h', Canonical op sop md enc dec md_is_nil s -> from_serial dec ndp md_nil s = Some h' ->
               to_serial enc ndp md_is_nil h' = Some s.
Proof. exact canonical_fixpoint. Qed.

(* index reuse (D3): after delete_node + add_node a child can sit below its parent's index, or siblings
   out of index order.  The hierarchy is still a tree, but the first document does not load and the
   second loads with a different child order: the full statement of C02 is false of the faithful model. *)
Theorem C02_index_reuse_child_before_parent_refuted :
  hierarchy_ok_b Witness.reuse_child = true /\
  ports_exist_b Witness.vports Witness.sports Witness.has_order Witness.reuse_child = true /\
  exists s, Witness.to_s Witness.reuse_child = Some s /\ Witness.from_s s = None /\ index_sane_b s = false.
Proof. exact reuse_child_before_parent_refuted. Qed.
Theorem C02_index_reuse_sibling_order_refuted :
  hierarchy_ok_b Witness.reuse_sibling = true /\
  ports_exist_b Witness.vports Witness.sports Witness.has_order Witness.reuse_sibling = true /\
  exists s h', Witness.to_s Witness.reuse_sibling = Some s /\ Witness.from_s s = Some h' /\
               Witness.to_s h' = Some s /\ ~ Iso Witness.enc Witness.reuse_sibling h'.
Proof. exact reuse_sibling_order_refuted. Qed.
(* a link on a port the operation does not have is written where the order port is addressed and comes
   back as an order link: the premise "links attach only to ports their operations have" is needed *)
Theorem C02_link_on_missing_port_refuted :
  index_ordered_b Witness.off_port = true /\
  exists s h', Witness.to_s Witness.off_port = Some s /\ Witness.from_s s = Some h' /\
               Witness.to_s h' = Some s /\ h_links h' = [((1, AOrder), (2, APort 0))] /\
               ~ Iso Witness.enc Witness.off_port h'.
Proof. exact missing_port_refuted. Qed.

(* non-vacuity: a HUGR with a hole, metadata, a value link and an order link satisfies the guard and round-trips *)
Example C02_example :
  guard_b Witness.vports Witness.sports Witness.has_order Witness.good = true /\
  exists s h', Witness.to_s Witness.good = Some s /\ Witness.from_s s = Some h' /\ Witness.to_s h' = Some s /\
               length (s_nodes s) = 3 /\ h_links h' = [((1, APort 0), (2, APort 0)); ((1, AOrder), (2, AOrder))].
Proof. split; [exact Witness.good_guard|exact roundtrip_example]. Qed.

(* non-vacuity of the history theorems: an insert_hugr, a deletion in the middle (of a node with a link from a
   multi-linked port), then an order link, a metadata assignment, a link added and deleted again *)
Example C02_history_example :
  hist_ok (init 0 0) HistWitness.cs = true /\
  hist_on_ports Witness.vports Witness.sports Witness.has_order (init 0 0) HistWitness.cs = true /\
  no_add_after_delete HistWitness.cs = true /\
  map (option_map (fun n => (n_parent n, n_children n, n_md n))) (h_nodes HistWitness.final) =
    [Some (None, [1; 3], 0); Some (Some 0, [4], 0); None; Some (Some 0, [], 7);
     Some (Some 1, [5], 0); Some (Some 4, [6], 0); Some (Some 5, [], 2)] /\
  h_links HistWitness.final = [((5, APort 0), (6, APort 0)); ((1, APort 0), (3, APort 0)); ((1, AOrder), (3, AOrder))] /\
  exists s h', Witness.to_s HistWitness.final = Some s /\ Witness.from_s s = Some h' /\ Witness.to_s h' = Some s /\
               length (s_nodes s) = 6.
Proof. exact history_example. Qed.

Print Assumptions C02_roundtrip_fixpoint.
Print Assumptions C02_roundtrip_iso.
Print Assumptions C02_renumbering_order_preserving.
Print Assumptions C02_renumbering_onto_prefix.
Print Assumptions C02_canonical_document_fixpoint.
Print Assumptions C02_index_reuse_child_before_parent_refuted.
Print Assumptions C02_index_reuse_sibling_order_refuted.
Print Assumptions C02_link_on_missing_port_refuted.
Print Assumptions C02_example.
Print Assumptions C02_history_index_ordered.
Print Assumptions C02_history_guard.
Print Assumptions C02_history_roundtrip.
Print Assumptions C02_no_add_after_delete_never_reuses.
Print Assumptions C02_history_example.

(* ==================================================================================================================
   False alarms corrected (harmless changes; design.d/C02.md).  The statements above are about the document
   Hugr._to_serial writes TODAY (edges in link-insertion order, a full metadata list).  C02 promises "the same multiset
   of links on every port" and "the same node metadata": neither the order of the `edges` array nor the writing of the
   metadata table.  Below the writer's choices are a parameter `pres` with SameDoc (pres s) s (same node list, the
   same multiset of edges, the same dictionary for every node as the loader reads the table: null table, null entry and
   {} all read as {}) -- model/SerialHugrGen.v to_serial_p, spec/SerialHugrGenS.v, proofs/SerialHugrGenP.v.
   The order of the NODE list stays fixed: "the only licence is the order-preserving renumbering".
   ================================================================================================================== *)
From HV Require Import model.SerialHugrGen spec.SerialHugrGenS proofs.SerialHugrGenP.

Section C02Presentation.
  Variables op sop md : Type.
  Variable enc : op -> sop.
  Variable dec : sop -> op.
  Variable ndp : op -> dir -> option nat.
  Variable md_nil : md.
  Variable md_is_nil : md -> bool.
  Variables vports sports : op -> dir -> nat.
  Variable has_order : op -> bool.
  Hypothesis ndp_spec : forall o d, ndp o d = if has_order o then Some (vports o d + sports o d) else None.
  Hypothesis md_nil_is_nil : md_is_nil md_nil = true.
  Hypothesis md_nil_unique : forall m, md_is_nil m = true -> m = md_nil.
  Hypothesis enc_dec_enc : forall o, enc (dec (enc o)) = enc o.
  Hypothesis ndp_dec_enc : forall o d, ndp (dec (enc o)) d = ndp o d.

  (* for EVERY presentation: the document loads, the loaded HUGR shows the same observable structure, and it serializes
     to a document that differs from the first at most in presentation; to the very same document ("a fixed point") when
     the presentation is canonical, i.e. a function of the SameDoc class (edges sorted, "null when no node has
     metadata": both the clean tree's and the harmless changes' choices are of this kind or the identity) *)
  Theorem C02_roundtrip_any_presentation : forall (pres : serial sop md -> serial sop md),
    (forall s, SameDoc md_nil (pres s) s) ->
    forall h : hugr op md, guard_b vports sports has_order h = true ->
    exists s h', to_serial_p enc ndp md_is_nil pres h = Some s /\ from_serial dec ndp md_nil s = Some h' /\
                 Iso enc h h' /\
                 exists s2, to_serial_p enc ndp md_is_nil pres h' = Some s2 /\ SameDoc md_nil s2 s /\
                            ((forall a b, SameDoc md_nil a b -> pres a = pres b) -> s2 = s).
  Proof.
    exact (roundtrip_any_presentation op sop md enc dec ndp md_nil md_is_nil vports sports has_order ndp_spec
             md_nil_is_nil md_nil_unique enc_dec_enc ndp_dec_enc).
  Qed.
End C02Presentation.

(* the loader alone: two presentations of a loadable document (node 0 the root, parents earlier, edges between listed
   nodes with explicit offsets) load to the same HUGR up to the order of links() and the recorded port counts (SameH:
   same root, same live indices, same operation / parent / ordered children / metadata on every node, the same
   multiset of links) ... *)
Theorem C02_loader_respects_presentation :
  forall (op sop md : Type) (dec : sop -> op) (ndp : op -> dir -> option nat) (md_nil : md) (s s' : serial sop md)
         (h1 : hugr op md),
  Loadable sop md s -> SameDoc md_nil s' s -> from_serial dec ndp md_nil s = Some h1 ->
  exists h2, from_serial dec ndp md_nil s' = Some h2 /\ SameH op md h1 h2.
Proof. exact load_respects_presentation. Qed.
(* ... and the HUGR loaded from ANY loadable document whose operations re-encode to themselves serializes to that
   document with the metadata table written in full (norm_doc): same nodes, same edges in the same order *)
Theorem C02_reload_writes_the_loaded_document :
  forall (op sop md : Type) (enc : op -> sop) (dec : sop -> op) (ndp : op -> dir -> option nat) (md_nil : md)
         (md_is_nil : md -> bool),
  md_is_nil md_nil = true -> (forall m, md_is_nil m = true -> m = md_nil) ->
  forall (s : serial sop md) (h' : hugr op md), Loadable sop md s ->
  (forall y, In y (s_nodes s) -> enc (dec (s_op y)) = s_op y) ->
  from_serial dec ndp md_nil s = Some h' ->
  to_serial enc ndp md_is_nil h' = Some (norm_doc sop md md_nil md_is_nil s) /\
  SameDoc md_nil (norm_doc sop md md_nil md_is_nil s) s.
Proof.
  intros op sop md enc dec ndp md_nil md_is_nil H1 H2 s h' HL He Hf. split.
  - exact (reload_serializes_to_norm op sop md enc dec ndp md_nil md_is_nil H1 H2 s h' HL He Hf).
  - exact (norm_doc_same sop md md_nil md_is_nil H2 s).
Qed.

(* non-vacuity: a presentation (edges array reversed, metadata table null when no node has metadata) satisfies the
   hypothesis; the guarded example HUGR written with it loads with its links in the other order; a HUGR without
   metadata is written with "metadata": null and is a fixed point *)
Example C02_presentation_example :
  (forall s, SameDoc 0 (GenWitness.pres_ex s) s) /\
  (exists s h', to_serial_p Witness.enc Witness.ndp Witness.md_is_nil GenWitness.pres_ex Witness.good = Some s /\
                s_edges s = [((1, Some 1), (2, Some 1)); ((1, Some 0), (2, Some 0))] /\
                Witness.from_s s = Some h' /\ h_links h' = [((1, AOrder), (2, AOrder)); ((1, APort 0), (2, APort 0))]) /\
  (exists s h', to_serial_p Witness.enc Witness.ndp Witness.md_is_nil GenWitness.pres_ex GenWitness.no_md = Some s /\
                s_meta s = None /\ Witness.from_s s = Some h' /\
                to_serial_p Witness.enc Witness.ndp Witness.md_is_nil GenWitness.pres_ex h' = Some s).
Proof.
  exact (conj GenWitness.pres_ex_same (conj GenWitness.presentation_example GenWitness.null_metadata_example)).
Qed.

Print Assumptions C02_roundtrip_any_presentation.
Print Assumptions C02_loader_respects_presentation.
Print Assumptions C02_reload_writes_the_loaded_document.
Print Assumptions C02_presentation_example.

(* ==================================================================================================================
   Composition pass (X02).  The theorems above keep the operation layer abstract and carry the operation-level facts
   as hypotheses; the ones below have none.

   (1) C02 o C05.  enc / dec / ndp / vports / sports / has_order are instantiated with the concrete operations and
       codec of model/CodecOps.v (model/ComposeOps.v: c_enc = <Op>._to_serial with the parent slot at 0, c_dec =
       deserialize(), c_ndp = ops._num_dataflow_ports, the reader's contract read off the ENCODED operation as in
       run/C02Run.v).  ndp_spec is proved for every operation; enc_dec_enc and ndp_dec_enc are C05's
       op_roundtrip_all, which holds for the operations inside C05's domain (op_ok: the encoding returns and the
       object is one its constructor can have built).  The C02 lemmas needed the two facts for ALL operations; they
       are re-proved in proofs/SerialHugrOnP.v for "the operations occurring in h" (a generalisation in a new file,
       not a subset type; the statements above are untouched).  Premise on the nodes: ops_ok_b = C05's op_ok.  (A Tag
       whose tag names no variant has no signature; ops._num_dataflow_ports answers None for it since fix f60e9c0, as
       the model does: it has no order port, no premise about it is needed.)
       Depth 0 = no function-valued constants (payload type Empty_set); any depth = the tower of
       model/ComposeDepth.v, where the payload of a function-valued constant one level up is a HUGR of
       model/SerialHugr.v one level down and C05's payload hypothesis h_rt is this very theorem one level down.
   (2) C01 -> C02 (-> C05).  model/ComposeBuilder.v: the store of the builder model seen as an API-level HUGR; the
       builder model's document seen as a SerialHugr document.
   The metadata hypotheses (md_is_nil md_nil = true; {} is the only empty dictionary) are not about operations and stay.
   ================================================================================================================== *)
From HV Require Import model.Types model.SerialTypes model.Codec model.CodecVals model.CodecOps
  proofs.CodecOpsP proofs.CodecDocP proofs.CodecEqP proofs.SerialHugrOnP
  model.ComposeOps proofs.ComposeOpsP model.ComposeDepth proofs.ComposeDepthP proofs.ComposeExamplesP.
From HV Require model.Validity model.Builder spec.BuilderS spec.BuilderWFS proofs.BuilderTypeP model.ComposeBuilder
  proofs.ComposeBuilderP proofs.ComposeBuilderOpsP.

(* the three operation-level hypotheses of Section C02, discharged for the concrete operations (depth 0) *)
Theorem C02_concrete_ops_hypotheses_discharged :
  (forall (o : op E0) d, c_ndp E0 o d =
      if c_has_order E0 E0 e0 o then Some (c_vports E0 E0 e0 o d + c_sports E0 E0 e0 o d) else None) /\
  (forall o : op E0, OpOK E0 e0_ok o -> c_enc E0 E0 e0 (c_dec E0 E0 e0 (c_enc E0 E0 e0 o)) = c_enc E0 E0 e0 o) /\
  (forall (o : op E0) d, OpOK E0 e0_ok o -> c_ndp E0 (c_dec E0 E0 e0 (c_enc E0 E0 e0 o)) d = c_ndp E0 o d) /\
  (forall o : op E0, op_ok E0 e0_ok o = true -> OpOK E0 e0_ok o).
Proof.
  exact (conj (c_ndp_spec E0 E0 e0)
        (conj (c_enc_dec_enc E0 E0 e0 e0 e0 e0_type e0_ok e0_rt)
        (conj (c_ndp_dec_enc E0 E0 e0 e0 e0 e0_type e0_ok e0_rt) (op_ok_OpOK E0 e0_ok)))).
Qed.

(* C02 o C05, depth 0: every HUGR over C05's operations (no function-valued constants) inside the guard whose nodes
   carry operations of C05's domain serializes, the document loads, the loaded HUGR serializes to the same document
   and is Iso -- NO hypothesis about operations *)
Theorem C02_roundtrip_concrete_ops :
  forall (md : Type) (md_nil : md) (md_is_nil : md -> bool),
    md_is_nil md_nil = true -> (forall m, md_is_nil m = true -> m = md_nil) ->
  forall h : hugr (op E0) md,
    guard_b (c_vports E0 E0 e0) (c_sports E0 E0 e0) (c_has_order E0 E0 e0) h = true ->
    ops_ok_b md e0_ok h = true ->
    exists s h', to_serial (c_enc E0 E0 e0) (c_ndp E0) md_is_nil h = Some s /\
                 from_serial (c_dec E0 E0 e0) (c_ndp E0) md_nil s = Some h' /\
                 to_serial (c_enc E0 E0 e0) (c_ndp E0) md_is_nil h' = Some s /\
                 Iso (c_enc E0 E0 e0) h h' /\
                 (* and each operation comes back as its C05 normal form, attribute by attribute *)
                 (forall i nd, get_node h i = Some nd ->
                    exists nd', get_node h' (rank h i) = Some nd' /\ n_op nd' = op_nf E0 e0 (n_op nd)).
Proof.
  exact (fun md md_nil md_is_nil H1 H2 h G A =>
           roundtrip_concrete E0 E0 e0 e0 e0 e0_type e0_ok e0_rt md md_nil md_is_nil H1 H2 h G (ops_ok_OpsIn E0 md e0_ok h A)).
Qed.

(* the nodes of that document are what `self[node]._to_serial(Node(rekey[parent]))` returns: C05's op_to_serial of the
   node's operation with the renumbered parent (the root: itself) in the parent field; keeping the parent beside a
   parent-less encoding (SerialHugr.snode) loses nothing *)
Theorem C02_concrete_document_nodes :
  forall (md : Type) (md_nil : md) (md_is_nil : md -> bool) (h : hugr (op E0) md) s,
    guard_b (c_vports E0 E0 e0) (c_sports E0 E0 e0) (c_has_order E0 E0 e0) h = true ->
    to_serial (c_enc E0 E0 e0) (c_ndp E0) md_is_nil h = Some s ->
    forall k i, nth_error (lives h) k = Some i ->
      exists nd, get_node h i = Some nd /\
        option_map (sop_of_snode E0) (nth_error (s_nodes s) k) =
          Some (op_to_serial E0 E0 e0 (n_op nd) (N.of_nat (rank h (match n_parent nd with Some p => p | None => i end)))).
Proof. exact (fun md md_nil md_is_nil => concrete_doc_nodes E0 E0 e0 md md_nil md_is_nil). Qed.

(* the C03 theorems with their hypothesis discharged (ndp_spec holds for every concrete operation, at every depth):
   serialization of a guarded HUGR over C05's operations is total, the document is index-sane, and every edge is the
   link renumbered and addressed by the reader's contract of the ENCODED operations.  (Stated here because
   props/C03.v is being edited by another agent.) *)
Theorem C02_concrete_ops_wire_format :
  forall (H SH : Type) (h_enc : H -> SH) (md : Type) (md_nil : md) (md_is_nil : md -> bool) (h : hugr (op H) md),
    guard_b (c_vports H SH h_enc) (c_sports H SH h_enc) (c_has_order H SH h_enc) h = true ->
    exists s, to_serial (c_enc H SH h_enc) (c_ndp H) md_is_nil h = Some s /\
      rank h (h_root h) = 0 /\ IndexSane s /\
      s_edges s = map (expected_edge (c_vports H SH h_enc) (c_sports H SH h_enc) h) (h_links h).
Proof. exact concrete_wire_format. Qed.

(* C02 o C05 at ANY nesting depth n of function-valued constants (HT md n = the HUGRs embedded in the constants:
   Empty_set at 0, HUGRs over operations of depth n-1 otherwise; okT = this theorem's own premises on the embedded
   HUGRs, as a boolean, plus a root with an inner signature) *)
Theorem C02_roundtrip_concrete_ops_any_depth :
  forall (md : Type) (md_nil : md) (md_is_nil : md -> bool),
    md_is_nil md_nil = true -> (forall m, md_is_nil m = true -> m = md_nil) ->
  forall (n : nat) (h : hugr (op (HT md n)) md),
    guardT md md_is_nil n h = true -> ops_ok_b md (okT md md_is_nil n) h = true ->
    exists s h', to_serial (c_enc (HT md n) (ST md n) (encT md md_is_nil n)) (c_ndp (HT md n)) md_is_nil h = Some s /\
                 from_serial (c_dec (HT md n) (ST md n) (decT md md_nil n)) (c_ndp (HT md n)) md_nil s = Some h' /\
                 to_serial (c_enc (HT md n) (ST md n) (encT md md_is_nil n)) (c_ndp (HT md n)) md_is_nil h' = Some s /\
                 Iso (c_enc (HT md n) (ST md n) (encT md md_is_nil n)) h h' /\
                 (forall i nd, get_node h i = Some nd ->
                    exists nd', get_node h' (rank h i) = Some nd' /\
                                n_op nd' = op_nf (HT md n) (nfT md md_nil md_is_nil n) (n_op nd)).
Proof. exact roundtrip_any_depth. Qed.

(* the same with metadata as the harness interns it (canonical JSON text -> N, 0 = {}): no hypothesis of any kind *)
Theorem C02_roundtrip_concrete_ops_closed :
  forall (n : nat) (h : hugr (op (HT N n)) N),
    guardT N is0 n h = true -> ops_ok_b N (okT N is0 n) h = true ->
    exists s h', to_serial (c_enc (HT N n) (ST N n) (encT N is0 n)) (c_ndp (HT N n)) is0 h = Some s /\
                 from_serial (c_dec (HT N n) (ST N n) (decT N 0%N n)) (c_ndp (HT N n)) 0%N s = Some h' /\
                 to_serial (c_enc (HT N n) (ST N n) (encT N is0 n)) (c_ndp (HT N n)) is0 h' = Some s /\
                 Iso (c_enc (HT N n) (ST N n) (encT N is0 n)) h h' /\
                 (forall i nd, get_node h i = Some nd ->
                    exists nd', get_node h' (rank h i) = Some nd' /\
                                n_op nd' = op_nf (HT N n) (nfT N 0%N is0 n) (n_op nd)).
Proof. exact (roundtrip_any_depth N 0%N is0 is0_nil is0_unique). Qed.

(* non-vacuity, depth 0: Module > FuncDecl, FuncDefn > Input, Output, Const Some(true), LoadConst, Const true, LoadConst,
   Call (function edge on the static port), DFG > Input, Output, Tag; a hole at index 3, metadata, an order link *)
Example C02_concrete_ops_example :
  (guard0 ex0 = true /\ ops_ok_b N e0_ok ex0 = true) /\
  exists s h', to_s0 ex0 = Some s /\ from_s0 s = Some h' /\ to_s0 h' = Some s /\
    length (s_nodes s) = 14 /\
    nth_error (s_edges s) 3 = Some ((1, Some 0), (9, Some 1)) /\ nth_error (s_edges s) 9 = Some ((6, Some 1), (10, Some 1)) /\
    nth_error (s_nodes s) 5 = Some {| s_op := c_enc E0 E0 e0 (OConst (VSum 1%N topt [VSum 1%N tbool []])); s_parent := 2 |} /\
    h_links h' = map (rename_link (rank ex0)) (h_links ex0) /\
    nth_error (h_links h') 9 = Some ((6, AOrder), (10, AOrder)).
Proof. exact (conj ex0_premises ex0_document). Qed.
(* a Tag whose tag names no variant (no signature: ops._num_dataflow_ports answers None since fix f60e9c0, as the model
   does) is covered: it has no order port, a numbered link on it round-trips *)
Example C02_tag_without_variant_example :
  guard0 ex_tag = true /\ ops_ok_b N e0_ok ex_tag = true /\
  tag_ok E0 (OTag 5%N (TSum [[tbool]])) = false /\ c_ndp E0 (OTag 5%N (TSum [[tbool]])) DIn = None /\
  exists s h', to_s0 ex_tag = Some s /\ from_s0 s = Some h' /\ to_s0 h' = Some s /\ h_links h' = h_links ex_tag.
Proof. exact ex_tag_roundtrip. Qed.
(* non-vacuity, depth 1: a DFG loading a function-valued constant whose body is a 5-node HUGR with a constant *)
Example C02_function_constant_example :
  (okT N is0 1 body1 = true /\ guardT N is0 1 ex1 = true /\ ops_ok_b N (okT N is0 1) ex1 = true) /\
  exists s, to_serial (c_enc (HT N 1) (ST N 1) (encT N is0 1)) (c_ndp (HT N 1)) is0 ex1 = Some s /\
    length (s_nodes s) = 5 /\
    exists sb, option_map s_op (nth_error (s_nodes s) 3) = Some (SConst 0%N (SVFunction sb)) /\
               length (s_nodes sb) = 5 /\ length (s_edges sb) = 3.
Proof. exact (conj ex1_premises ex1_document). Qed.

(* ---- C01 -> C02.  bview A f pc st: the store st of the builder model as an API-level HUGR, operations translated by
   f, recorded port counts from an arbitrary pc.  vid = the identity: the builder's operation literal is its own encoded
   form (Builder.to_serial keeps it). ---- *)
Import model.Validity model.Builder spec.BuilderS spec.BuilderWFS proofs.BuilderTypeP model.ComposeBuilder proofs.ComposeBuilderP
  proofs.ComposeBuilderOpsP.

(* ANY program of the modelled builder language that runs leaves a hierarchy consistent with index order *)
Theorem C02_builder_index_ordered : forall pc tys p st,
  exec_prog tys p = Ok st -> index_ordered_b (bview vop vid pc st) = true.
Proof. exact builder_index_ordered. Qed.
(* ... and, when well typed, links only on ports the operations have: the whole guard *)
Theorem C02_builder_guard : forall pc tys p st,
  wt_prog tys p = true -> exec_prog tys p = Ok st -> guard_b v_vports v_sports v_has_order (bview vop vid pc st) = true.
Proof. exact builder_guard. Qed.
(* the two models of Hugr._to_serial agree: SerialHugr.to_serial on the view of the store is the document
   Builder.to_serial produces (doc_of_graph: the same nodes and edges, N -> nat, vnode -> snode, no metadata) *)
Theorem C02_builder_documents_agree : forall pc tys p st g,
  wt_prog tys p = true -> exec_prog tys p = Ok st -> run tys p = Ok g ->
  SerialHugr.to_serial vid v_ndp unit_is_nil (bview vop vid pc st) = Some (doc_of_graph vop vid vop vid g).
Proof. exact builder_documents_agree. Qed.
(* every well-typed program of the modelled builder language that runs yields a HUGR whose document loads back to an
   isomorphic HUGR and is a fixed point *)
Theorem C02_builder_programs_roundtrip : forall pc tys p g,
  wt_prog tys p = true -> run tys p = Ok g ->
  exists st h', exec_prog tys p = Ok st /\
    guard_b v_vports v_sports v_has_order (bview vop vid pc st) = true /\
    SerialHugr.to_serial vid v_ndp unit_is_nil (bview vop vid pc st) = Some (doc_of_graph vop vid vop vid g) /\
    SerialHugr.from_serial vid v_ndp tt (doc_of_graph vop vid vop vid g) = Some h' /\
    SerialHugr.to_serial vid v_ndp unit_is_nil h' = Some (doc_of_graph vop vid vop vid g) /\
    Iso vid (bview vop vid pc st) h'.
Proof. exact builder_roundtrip. Qed.
(* the same end to end through C05's concrete codec: the builder's operation literals concretised into the operations
   of model/CodecOps.v by any type table tyc and name nm (extension operations as opaque Custom operations); the only
   premise besides wt_prog / run is that the concretised constants are inside C05's domain *)
Theorem C02_builder_programs_roundtrip_concrete_ops : forall tyc nm pc tys p g,
  wt_prog tys p = true -> run tys p = Ok g ->
  exists st, exec_prog tys p = Ok st /\
    (ConstsOK E0 tyc nm e0_ok st ->
     guard_b (c_vports E0 E0 e0) (c_sports E0 E0 e0) (c_has_order E0 E0 e0) (bview (op E0) (conc E0 tyc nm) pc st) = true /\
     ops_ok_b unit e0_ok (bview (op E0) (conc E0 tyc nm) pc st) = true /\
     exists h', SerialHugr.to_serial (c_enc E0 E0 e0) (c_ndp E0) unit_is_nil (bview (op E0) (conc E0 tyc nm) pc st) =
                  Some (doc_of_graph (op E0) (conc E0 tyc nm) (sop E0) (c_enc E0 E0 e0) g) /\
                SerialHugr.from_serial (c_dec E0 E0 e0) (c_ndp E0) tt (doc_of_graph (op E0) (conc E0 tyc nm) (sop E0) (c_enc E0 E0 e0) g) = Some h' /\
                SerialHugr.to_serial (c_enc E0 E0 e0) (c_ndp E0) unit_is_nil h' =
                  Some (doc_of_graph (op E0) (conc E0 tyc nm) (sop E0) (c_enc E0 E0 e0) g) /\
                Iso (c_enc E0 E0 e0) (bview (op E0) (conc E0 tyc nm) pc st) h').
Proof. exact builder_roundtrip_concrete. Qed.
(* the C03 corollary (stated here, not in props/C03.v, which another agent is editing): the document a well-typed
   builder program serialises is index-sane and port-addressed (C03_serial_index_sane / C03_serial_port_addressing
   applied to the view) *)
Theorem C02_builder_documents_wire_format : forall pc tys p g,
  wt_prog tys p = true -> run tys p = Ok g ->
  exists st, exec_prog tys p = Ok st /\ IndexSane (doc_of_graph vop vid vop vid g) /\
    SerialHugr.s_edges (doc_of_graph vop vid vop vid g) =
      map (expected_edge v_vports v_sports (bview vop vid pc st)) (h_links (bview vop vid pc st)).
Proof. exact builder_wire_format. Qed.
(* non-vacuity: the 13-node program of C01_wf_example (Ext wire + its order edge, constant at the root, partial
   operations, Tag, linear value) satisfies every premise, also after concretisation *)
Example C02_builder_example : wt_prog ex2_tys ex2_prog = true /\
  exists g st, run ex2_tys ex2_prog = Ok g /\ exec_prog ex2_tys ex2_prog = Ok st /\
    ConstsOK E0 ex_tyc 7%N e0_ok st /\
    existsb (fun e => port_link e && negb (optN_eqb (anc_sib st (e_src e) (e_dst e)) (Some (e_dst e)))) (s_links st) = true /\
    length (SerialHugr.s_nodes (doc_of_graph (op E0) (conc E0 ex_tyc 7%N) (sop E0) (c_enc E0 E0 e0) g)) = 13 /\
    guard_b (c_vports E0 E0 e0) (c_sports E0 E0 e0) (c_has_order E0 E0 e0) (bview (op E0) (conc E0 ex_tyc 7%N) ex_pc st) = true.
Proof. exact ex2_end_to_end. Qed.

(* ---- histories, composed.  (a) over C05's concrete operations at any nesting depth n: Hugr(o), then any list of
   public mutator calls; premises on the calls only (hist_ok, hist_on_ports as above; every operation handed to Hugr /
   add_node / add_const / insert_hugr inside C05's domain: cop_ok_b = op_ok). ---- *)
From HV Require proofs.ComposeHistP proofs.ComposeHistOpsP proofs.ComposeReplayP proofs.ComposeBuilderHistP.
Import proofs.ComposeHistP proofs.ComposeHistOpsP.
Theorem C02_history_roundtrip_concrete_ops :
  forall (md : Type) (md_nil : md) (md_is_nil : md -> bool),
    md_is_nil md_nil = true -> (forall m, md_is_nil m = true -> m = md_nil) ->
  forall (n : nat) (o : op (HT md n)) (m : md) (cs : list (hcmd (op (HT md n)) md)),
    hist_ok (init o m) cs = true ->
    hist_on_ports (vportsT md md_is_nil n) (sportsT md md_is_nil n) (has_orderT md md_is_nil n) (init o m) cs = true ->
    cop_ok_b (HT md n) (okT md md_is_nil n) o = true ->
    Forall (cmd_ops (fun o' => cop_ok_b (HT md n) (okT md md_is_nil n) o' = true)) cs ->
    all_return (init o m) cs = true /\
    exists s h', SerialHugr.to_serial (c_enc (HT md n) (ST md n) (encT md md_is_nil n)) (c_ndp (HT md n)) md_is_nil (view (hrun (init o m) cs)) = Some s /\
                 SerialHugr.from_serial (c_dec (HT md n) (ST md n) (decT md md_nil n)) (c_ndp (HT md n)) md_nil s = Some h' /\
                 SerialHugr.to_serial (c_enc (HT md n) (ST md n) (encT md md_is_nil n)) (c_ndp (HT md n)) md_is_nil h' = Some s /\
                 Iso (c_enc (HT md n) (ST md n) (encT md md_is_nil n)) (view (hrun (init o m) cs)) h'.
Proof. exact history_roundtrip_concrete. Qed.

(* (b) the guard is an invariant of such histories from ANY state of the store model that satisfies C04's invariant
   and whose view is inside the guard -- not only from Hugr(root_op) *)
Theorem C02_history_guard_from_any_state :
  forall (Op Meta : Type) (vports sports : Op -> dir -> nat) (has_order : Op -> bool)
         (h0 : Graph.hugr Op Meta) (cs : list (hcmd Op Meta)),
    Inv h0 -> guard_b vports sports has_order (view h0) = true ->
    hist_ok h0 cs = true -> hist_on_ports vports sports has_order h0 cs = true ->
    all_return h0 cs = true /\ Inv (hrun h0 cs) /\ guard_b vports sports has_order (view (hrun h0 cs)) = true.
Proof. exact (@hrun_guard). Qed.

(* (c) C01 o C04 o C02: "all HUGRs reachable by builder programs followed by arbitrary add/delete/insert mutation
   histories".  replay vop vid st is the state of the C04 store model reached by Hugr(root_op), add_node for every
   further node of the builder's store st in index order and add_link for every link in order; it satisfies C04's
   invariant, has no freed index pending, and its public view IS the builder's view (recorded port counts: pc_of).
   From there: any history without index reuse whose link calls name ports the operations have. *)
Import proofs.ComposeReplayP proofs.ComposeBuilderHistP.
Theorem C02_builder_store_is_reachable : forall (A : Type) (f : vop -> A) st,
  BuilderP.Inv st ->
  Inv (replay A f st) /\ free (replay A f st) = [] /\ view (replay A f st) = bview A f (pc_of A (replay A f st)) st.
Proof. exact replay_view. Qed.
Theorem C02_builder_then_history_roundtrip : forall tys p st (cs : list (hcmd vop unit)),
  wt_prog tys p = true -> exec_prog tys p = Builder.Ok st ->
  (Inv (replay vop vid st) /\ free (replay vop vid st) = [] /\
   view (replay vop vid st) = bview vop vid (pc_of vop (replay vop vid st)) st) /\
  (hist_ok (replay vop vid st) cs = true -> hist_on_ports v_vports v_sports v_has_order (replay vop vid st) cs = true ->
   all_return (replay vop vid st) cs = true /\
   exists s h', SerialHugr.to_serial vid v_ndp unit_is_nil (view (hrun (replay vop vid st) cs)) = Some s /\
                SerialHugr.from_serial vid v_ndp tt s = Some h' /\ SerialHugr.to_serial vid v_ndp unit_is_nil h' = Some s /\
                Iso vid (view (hrun (replay vop vid st) cs)) h').
Proof. exact builder_then_history_total. Qed.
(* the syntactic form of the no-reuse premise after a builder program *)
Theorem C02_builder_then_history_no_add_after_delete : forall tys p st (cs : list (hcmd vop unit)),
  exec_prog tys p = Builder.Ok st ->
  hist_in_guard (replay vop vid st) cs = true -> no_add_after_delete cs = true -> hist_ok (replay vop vid st) cs = true.
Proof. exact builder_then_history_syntactic. Qed.
(* ... and through C05's concrete codec for any concretisation of the builder's operation literals *)
Theorem C02_builder_then_history_roundtrip_concrete_ops : forall tyc nm tys p st (cs : list (hcmd (op E0) unit)),
  wt_prog tys p = true -> exec_prog tys p = Builder.Ok st -> ConstsOK E0 tyc nm e0_ok st ->
  (Inv (replay (op E0) (conc E0 tyc nm) st) /\ free (replay (op E0) (conc E0 tyc nm) st) = [] /\
   view (replay (op E0) (conc E0 tyc nm) st) =
     bview (op E0) (conc E0 tyc nm) (pc_of (op E0) (replay (op E0) (conc E0 tyc nm) st)) st) /\
  (hist_ok (replay (op E0) (conc E0 tyc nm) st) cs = true ->
   hist_on_ports (c_vports E0 E0 e0) (c_sports E0 E0 e0) (c_has_order E0 E0 e0) (replay (op E0) (conc E0 tyc nm) st) cs = true ->
   Forall (cmd_ops OK0) cs ->
   all_return (replay (op E0) (conc E0 tyc nm) st) cs = true /\
   exists s h', SerialHugr.to_serial (c_enc E0 E0 e0) (c_ndp E0) unit_is_nil (view (hrun (replay (op E0) (conc E0 tyc nm) st) cs)) = Some s /\
                SerialHugr.from_serial (c_dec E0 E0 e0) (c_ndp E0) tt s = Some h' /\
                SerialHugr.to_serial (c_enc E0 E0 e0) (c_ndp E0) unit_is_nil h' = Some s /\
                Iso (c_enc E0 E0 e0) (view (hrun (replay (op E0) (conc E0 tyc nm) st) cs)) h').
Proof. exact builder_then_history_concrete_total. Qed.
(* non-vacuity: the 13-node program, then add a leaf under the nested DFG, link, order link, metadata, delete the link, add
   it again, delete the node *)
Example C02_builder_then_history_example :
  wt_prog ex2_tys ex2_prog = true /\
  exec_prog ex2_tys ex2_prog = Builder.Ok BuilderHistWitness.st /\
  hist_ok BuilderHistWitness.h0 BuilderHistWitness.cs = true /\
  hist_on_ports v_vports v_sports v_has_order BuilderHistWitness.h0 BuilderHistWitness.cs = true /\
  no_add_after_delete BuilderHistWitness.cs = true /\
  length (h_nodes (view (hrun BuilderHistWitness.h0 BuilderHistWitness.cs))) = 14 /\
  is_live (view (hrun BuilderHistWitness.h0 BuilderHistWitness.cs)) 13 = false /\
  length (h_links (view BuilderHistWitness.h0)) = length (h_links (view (hrun BuilderHistWitness.h0 BuilderHistWitness.cs))).
Proof. exact builder_history_example. Qed.

Print Assumptions C02_concrete_ops_hypotheses_discharged.
Print Assumptions C02_roundtrip_concrete_ops.
Print Assumptions C02_concrete_document_nodes.
Print Assumptions C02_concrete_ops_wire_format.
Print Assumptions C02_roundtrip_concrete_ops_any_depth.
Print Assumptions C02_roundtrip_concrete_ops_closed.
Print Assumptions C02_concrete_ops_example.
Print Assumptions C02_tag_without_variant_example.
Print Assumptions C02_function_constant_example.
Print Assumptions C02_builder_index_ordered.
Print Assumptions C02_builder_guard.
Print Assumptions C02_builder_documents_agree.
Print Assumptions C02_builder_programs_roundtrip.
Print Assumptions C02_builder_programs_roundtrip_concrete_ops.
Print Assumptions C02_builder_documents_wire_format.
Print Assumptions C02_builder_example.
Print Assumptions C02_history_roundtrip_concrete_ops.
Print Assumptions C02_history_guard_from_any_state.
Print Assumptions C02_builder_store_is_reachable.
Print Assumptions C02_builder_then_history_roundtrip.
Print Assumptions C02_builder_then_history_no_add_after_delete.
Print Assumptions C02_builder_then_history_roundtrip_concrete_ops.
Print Assumptions C02_builder_then_history_example.
