(* C02 — JSON round trip of a HUGR is lossless and a fixed point.
   Model: model/SerialHugr.v (Hugr._to_serial / _constrain_offset / _from_serial over abstract operations
   and metadata).  Spec: spec/SerialHugrS.v.  Proofs: proofs/SerialHugrP.v.
   The operation-level facts are hypotheses that stay in the statements (they are property C05):
     enc (dec (enc o)) = enc o          decoding and re-encoding an encoded operation gives the same encoding
     ndp (dec (enc o)) d = ndp o d      the decoded operation has the same number of value+static ports
   and ndp (ops._num_dataflow_ports) is what the reader's contract says: value + static port count for the
   operations that have an order port, None for the others.
   guard_b h = the hierarchy is consistent with index order (every parent a live node of smaller index,
   children lists in index order: true after every builder program and every add/delete history that
   never re-uses a freed index) and links attach only to ports their operations have.
   The JSON-text level (pydantic dump/validate) is monitored per case, not proved.

   Second pass (model/HugrHist.v, spec/HugrHistS.v, proofs/HugrHistP.v): the guard is an invariant of mutation
   histories.  A history is Hugr(root_op) followed by any list of add_node / add_const / add_link /
   add_order_link / delete_link / delete_node / insert_hugr calls (the statement-by-statement store model of
   C04, model/Graph.v: node table with holes, free stack, BiMap of sub-ports) and metadata assignments;
   `view` is what the public queries show of a store state (harness/hobs.py dump).  Premises are on the
   individual calls, each evaluated in the state the call is made in:
     hist_ok        every call is inside the store's guard (live node arguments, link offsets >= -1,
                    delete_node of a childless non-root node, insert_hugr under a live parent of a HUGR that
                    was itself built inside the guard without index reuse) and no freed index is pending at
                    any add_node / insert_hugr
     hist_on_ports  every add_link / add_order_link names ports the operations have (C03's premise) *)
From Coq Require Import List Bool Arith ZArith Permutation.
Import ListNotations.
From HV Require Import model.Graph spec.GraphS proofs.GraphInvP.
From HV Require Import lib.Harness model.SerialHugr spec.SerialHugrS proofs.SerialHugrP.
From HV Require Import model.HugrHist spec.HugrHistS proofs.HugrHistP.

Section C02.
  Variables op sop md : Type.
  Variable enc : op -> sop.
  Variable dec : sop -> op.
  Variable ndp : op -> dir -> option nat.
  Variable md_nil : md.
  Variable md_is_nil : md -> bool.
  Variables vports sports : op -> dir -> nat.
  Variable has_order : op -> bool.
  Hypothesis ndp_spec : forall o d, ndp o d = if has_order o then Some (vports o d + sports o d) else None.
  Hypothesis md_nil_is_nil : md_is_nil md_nil = true.
  Hypothesis md_nil_unique : forall m, md_is_nil m = true -> m = md_nil.
  Hypothesis enc_dec_enc : forall o, enc (dec (enc o)) = enc o.
  Hypothesis ndp_dec_enc : forall o d, ndp (dec (enc o)) d = ndp o d.

  (* serialization succeeds, loading the document succeeds, and the loaded HUGR serializes to the same document *)
  Theorem C02_roundtrip_fixpoint : forall h : hugr op md, guard_b vports sports has_order h = true ->
    exists s h', to_serial enc ndp md_is_nil h = Some s /\ from_serial dec ndp md_nil s = Some h' /\
                 to_serial enc ndp md_is_nil h' = Some s.
  Proof.
    exact (roundtrip_fixpoint_total op sop md enc dec ndp md_nil md_is_nil vports sports has_order ndp_spec
             md_nil_is_nil enc_dec_enc).
  Qed.

  (* the loaded HUGR shows the same observable structure under the order-preserving renumbering `rank`:
     no holes, same operation by encoded form, same parent, same ordered children, same metadata on every
     node, the same root, and the same multiset of links on every port (order links stay order links) *)
  Theorem C02_roundtrip_iso : forall (h : hugr op md) s, guard_b vports sports has_order h = true ->
    to_serial enc ndp md_is_nil h = Some s ->
    exists h', from_serial dec ndp md_nil s = Some h' /\ Iso enc h h'.
  Proof.
    exact (roundtrip_iso op sop md enc dec ndp md_nil md_is_nil vports sports has_order ndp_spec
             enc_dec_enc ndp_dec_enc md_nil_unique).
  Qed.

  (* the only licence: `rank` is the order-preserving compaction of the live indices onto 0 .. n-1 *)
  Theorem C02_renumbering_order_preserving : forall (h : hugr op md) i j,
    is_live h i = true -> i < j -> rank h i < rank h j.
  Proof. exact (rank_order_preserving op md md_nil md_is_nil). Qed.
  Theorem C02_renumbering_onto_prefix : forall (h : hugr op md) i,
    is_live h i = true -> rank h i < length (lives h).
  Proof. exact (rank_bound op md md_nil md_is_nil). Qed.

  (* index_ordered is an invariant of mutation histories that never reuse an index: every call returns
     normally, the store invariant of C04 holds and the hierarchy of the HUGR the public queries show is
     consistent with index order *)
  Theorem C02_history_index_ordered : forall (o : op) (m : md) (cs : list (hcmd op md)),
    hist_ok (init o m) cs = true ->
    all_return (init o m) cs = true /\ Inv (hrun (init o m) cs) /\
    index_ordered_b (view (hrun (init o m) cs)) = true.
  Proof. exact history_index_ordered. Qed.
  (* ... and so is the whole guard when add_link / add_order_link are only called on ports the operations have *)
  Theorem C02_history_guard : forall (o : op) (m : md) (cs : list (hcmd op md)),
    hist_ok (init o m) cs = true -> hist_on_ports vports sports has_order (init o m) cs = true ->
    all_return (init o m) cs = true /\ guard_b vports sports has_order (view (hrun (init o m) cs)) = true.
  Proof. exact (history_guard vports sports has_order). Qed.
  (* the round trip of every HUGR reached by such a history: premises only on the individual calls *)
  Theorem C02_history_roundtrip : forall (o : op) (m : md) (cs : list (hcmd op md)),
    hist_ok (init o m) cs = true -> hist_on_ports vports sports has_order (init o m) cs = true ->
    exists s h', to_serial enc ndp md_is_nil (view (hrun (init o m) cs)) = Some s /\
                 from_serial dec ndp md_nil s = Some h' /\ to_serial enc ndp md_is_nil h' = Some s /\
                 Iso enc (view (hrun (init o m) cs)) h'.
  Proof.
    exact (history_roundtrip op sop md enc dec ndp md_nil md_is_nil vports sports has_order ndp_spec
             md_nil_is_nil md_nil_unique enc_dec_enc ndp_dec_enc).
  Qed.
  (* the syntactic form of "no index reuse": inside the guard, no node added after a node was deleted *)
  Theorem C02_no_add_after_delete_never_reuses : forall (o : op) (m : md) (cs : list (hcmd op md)),
    hist_in_guard (init o m) cs = true -> no_add_after_delete cs = true -> hist_ok (init o m) cs = true.
  Proof. exact no_add_after_delete_init. Qed.
End C02.

(* a document in canonical form (root first, parents earlier, explicit offsets, full metadata list) is a
   fixed point whatever HUGR it came from: stated for the loader alone *)
Theorem C02_canonical_document_fixpoint :
  forall (op sop md : Type) (enc : op -> sop) (dec : sop -> op) (ndp : op -> dir -> option nat)
         (md_nil : md) (md_is_nil : md -> bool), md_is_nil md_nil = true ->
  forall s h', Canonical op sop md enc dec md_is_nil s -> from_serial dec ndp md_nil s = Some h' ->
               to_serial enc ndp md_is_nil h' = Some s.
Proof. exact canonical_fixpoint. Qed.

(* index reuse (D3): after delete_node + add_node a child can sit below its parent's index, or siblings
   out of index order.  The hierarchy is still a tree, but the first document does not load and the
   second loads with a different child order: the full statement of C02 is false of the faithful model. *)
Theorem C02_index_reuse_child_before_parent_refuted :
  hierarchy_ok_b Witness.reuse_child = true /\
  ports_exist_b Witness.vports Witness.sports Witness.has_order Witness.reuse_child = true /\
  exists s, Witness.to_s Witness.reuse_child = Some s /\ Witness.from_s s = None /\ index_sane_b s = false.
Proof. exact reuse_child_before_parent_refuted. Qed.
Theorem C02_index_reuse_sibling_order_refuted :
  hierarchy_ok_b Witness.reuse_sibling = true /\
  ports_exist_b Witness.vports Witness.sports Witness.has_order Witness.reuse_sibling = true /\
  exists s h', Witness.to_s Witness.reuse_sibling = Some s /\ Witness.from_s s = Some h' /\
               Witness.to_s h' = Some s /\ ~ Iso Witness.enc Witness.reuse_sibling h'.
Proof. exact reuse_sibling_order_refuted. Qed.
(* a link on a port the operation does not have is written where the order port is addressed and comes
   back as an order link: the premise "links attach only to ports their operations have" is needed *)
Theorem C02_link_on_missing_port_refuted :
  index_ordered_b Witness.off_port = true /\
  exists s h', Witness.to_s Witness.off_port = Some s /\ Witness.from_s s = Some h' /\
               Witness.to_s h' = Some s /\ h_links h' = [((1, AOrder), (2, APort 0))] /\
               ~ Iso Witness.enc Witness.off_port h'.
Proof. exact missing_port_refuted. Qed.

(* non-vacuity: a HUGR with a hole, metadata, a value link and an order link satisfies the guard and round-trips *)
Example C02_example :
  guard_b Witness.vports Witness.sports Witness.has_order Witness.good = true /\
  exists s h', Witness.to_s Witness.good = Some s /\ Witness.from_s s = Some h' /\ Witness.to_s h' = Some s /\
               length (s_nodes s) = 3 /\ h_links h' = [((1, APort 0), (2, APort 0)); ((1, AOrder), (2, AOrder))].
Proof. split; [exact Witness.good_guard|exact roundtrip_example]. Qed.

(* non-vacuity of the history theorems: an insert_hugr, a deletion in the middle (of a node with a link from a
   multi-linked port), then an order link, a metadata assignment, a link added and deleted again *)
Example C02_history_example :
  hist_ok (init 0 0) HistWitness.cs = true /\
  hist_on_ports Witness.vports Witness.sports Witness.has_order (init 0 0) HistWitness.cs = true /\
  no_add_after_delete HistWitness.cs = true /\
  map (option_map (fun n => (n_parent n, n_children n, n_md n))) (h_nodes HistWitness.final) =
    [Some (None, [1; 3], 0); Some (Some 0, [4], 0); None; Some (Some 0, [], 7);
     Some (Some 1, [5], 0); Some (Some 4, [6], 0); Some (Some 5, [], 2)] /\
  h_links HistWitness.final = [((5, APort 0), (6, APort 0)); ((1, APort 0), (3, APort 0)); ((1, AOrder), (3, AOrder))] /\
  exists s h', Witness.to_s HistWitness.final = Some s /\ Witness.from_s s = Some h' /\ Witness.to_s h' = Some s /\
               length (s_nodes s) = 6.
Proof. exact history_example. Qed.

Print Assumptions C02_roundtrip_fixpoint.
Print Assumptions C02_roundtrip_iso.
Print Assumptions C02_renumbering_order_preserving.
Print Assumptions C02_renumbering_onto_prefix.
Print Assumptions C02_canonical_document_fixpoint.
Print Assumptions C02_index_reuse_child_before_parent_refuted.
Print Assumptions C02_index_reuse_sibling_order_refuted.
Print Assumptions C02_link_on_missing_port_refuted.
Print Assumptions C02_example.
Print Assumptions C02_history_index_ordered.
Print Assumptions C02_history_guard.
Print Assumptions C02_history_roundtrip.
Print Assumptions C02_no_add_after_delete_never_reuses.
Print Assumptions C02_history_example.
