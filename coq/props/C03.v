(* C03 — emitted documents conform to the published wire format.
   Model / spec / proofs as for C02 (model/SerialHugr.v, spec/SerialHugrS.v, proofs/SerialHugrP.v).
   Proved here: index sanity and port addressing of the document Hugr._to_serial produces, for every HUGR
   whose hierarchy is consistent with index order and whose links attach only to ports their operations
   have (guard_b).  `vports`, `sports`, `has_order` are the reader's contract (hugr-core/src/ops.rs:
   value_port_count, static_port, other_port); the hypothesis ties ops._num_dataflow_ports to it.
   Monitored, not proved: validity of the emitted JSON text against the published strict schema
   (jsonschema per generated document: HUGRs, packages, extensions), and the same clauses for every
   module of a package (a package document is the list of the modules' documents). *)
From Coq Require Import List Bool Arith.
Import ListNotations.
From HV Require Import lib.Harness model.SerialHugr spec.SerialHugrS proofs.SerialHugrP.

Section C03.
  Variables op sop md : Type.
  Variable enc : op -> sop.
  Variable ndp : op -> dir -> option nat.
  Variable md_nil : md.                 (* only witnesses that md is inhabited ({} exists) *)
  Variable md_is_nil : md -> bool.
  Variables vports sports : op -> dir -> nat.
  Variable has_order : op -> bool.
  Hypothesis ndp_spec : forall o d, ndp o d = if has_order o then Some (vports o d + sports o d) else None.

  (* node 0 is the root (the root is renumbered to 0 and names itself as parent); every other node's
     parent is a different node listed earlier; both endpoints of every edge name a listed node *)
  Theorem C03_serial_index_sane : forall (h : hugr op md) (s : serial sop md),
    guard_b vports sports has_order h = true -> to_serial enc ndp md_is_nil h = Some s ->
    rank h (h_root h) = 0 /\ IndexSane s.
  Proof. exact (serial_index_sane op sop md enc ndp md_nil md_is_nil vports sports has_order ndp_spec). Qed.

  (* every edge is the link with its nodes renumbered and its ports addressed by `addr`: a numbered port
     keeps its position in the signature (value ports first, the static port right after the value
     inputs), an order port is addressed at value + static port count of the operation -- `addr` reads
     neither the recorded port counts nor the set of connected ports *)
  Theorem C03_serial_port_addressing : forall (h : hugr op md) (s : serial sop md),
    guard_b vports sports has_order h = true -> to_serial enc ndp md_is_nil h = Some s ->
    s_edges s = map (expected_edge vports sports h) (h_links h).
  Proof. exact (serial_port_addressing op sop md enc ndp md_nil md_is_nil vports sports has_order ndp_spec). Qed.

  (* serialization of a guarded HUGR does not fail *)
  Theorem C03_serialization_total : forall h : hugr op md,
    guard_b vports sports has_order h = true -> exists s : serial sop md, to_serial enc ndp md_is_nil h = Some s.
  Proof. exact (to_serial_total op sop md enc ndp md_nil md_is_nil vports sports has_order ndp_spec). Qed.
End C03.

(* index reuse (D3): a child at a lower index than its parent is listed before it; the full statement
   ("including after node deletion and index reuse") is false of the faithful model *)
Theorem C03_index_reuse_refuted :
  hierarchy_ok_b Witness.reuse_child = true /\
  ports_exist_b Witness.vports Witness.sports Witness.has_order Witness.reuse_child = true /\
  exists s, Witness.to_s Witness.reuse_child = Some s /\ Witness.from_s s = None /\ index_sane_b s = false.
Proof. exact reuse_child_before_parent_refuted. Qed.

(* non-vacuity: the guarded example HUGR (hole, metadata, value link, order link) *)
Example C03_example :
  guard_b Witness.vports Witness.sports Witness.has_order Witness.good = true /\
  exists s, Witness.to_s Witness.good = Some s /\ index_sane_b s = true /\
            s_edges s = [((1, Some 0), (2, Some 0)); ((1, Some 1), (2, Some 1))].
Proof. split; [reflexivity|]. eexists. split; [reflexivity|]. split; reflexivity. Qed.

Print Assumptions C03_serial_index_sane.
Print Assumptions C03_serial_port_addressing.
Print Assumptions C03_serialization_total.
Print Assumptions C03_index_reuse_refuted.
Print Assumptions C03_example.
