(* C03 — emitted documents conform to the published wire format.
   Model / spec / proofs as for C02 (model/SerialHugr.v, spec/SerialHugrS.v, proofs/SerialHugrP.v).
   Proved here: index sanity and port addressing of the document Hugr._to_serial produces, for every HUGR
   whose hierarchy is consistent with index order and whose links attach only to ports their operations
   have (guard_b).  `vports`, `sports`, `has_order` are the reader's contract (hugr-core/src/ops.rs:
   value_port_count, static_port, other_port); the hypothesis ties ops._num_dataflow_ports to it.
   Second pass, schema validity inside Coq (model/DocJson.v, proofs/DocJsonP.v, proofs/DocJsonSchemasP.v):
   the JSON rendering `doc_json` of every document the model serialises is accepted by the SerialHugr
   definition of the REGENERATED published strict schema (gen/Schemas.v `published_hugr_strict`), and a package
   of such documents by its Package definition, under the visible hypothesis that the file's OpType definition
   accepts every operation object (C05/C17's subject); the proof goes through hand-written shapes of the two
   definitions which a vm_compute lemma compares with the file on every run (up to key order, order of `required`,
   "additionalProperties": true and annotations).
   Monitored, not proved: that the JSON text hugr-py emits is `doc_json` of the model's document (evaluated per
   case), validity of every emitted document against the published strict schema (Coq validator of
   model/Schema.v and python-jsonschema, both per generated document: HUGRs, packages, extensions), and the
   typed clauses for every module of a package (a package document is the list of the modules' documents). *)
From Coq Require Import List Bool Arith String ZArith.
Import ListNotations.
From HV Require Import lib.Harness model.SerialHugr spec.SerialHugrS proofs.SerialHugrP.
From HV Require Import model.Schema model.SchemaFast model.SchemaStrip model.DocJson model.NodeParent proofs.SchemaFastP
  proofs.SchemaStripP proofs.DocJsonP
  proofs.NodeParentP proofs.DataEquivP proofs.DocJsonSchemasP gen.Schemas spec.DocJsonS proofs.DocJsonIndexP.
Open Scope nat_scope.

Section C03.
  Variables op sop md : Type.
  Variable enc : op -> sop.
  Variable ndp : op -> dir -> option nat.
  Variable md_nil : md.                 (* only witnesses that md is inhabited ({} exists) *)
  Variable md_is_nil : md -> bool.
  Variables vports sports : op -> dir -> nat.
  Variable has_order : op -> bool.
  Hypothesis ndp_spec : forall o d, ndp o d = if has_order o then Some (vports o d + sports o d) else None.

  (* node 0 is the root (the root is renumbered to 0 and names itself as parent); every other node's
     parent is a different node listed earlier; both endpoints of every edge name a listed node *)
  Theorem C03_serial_index_sane : forall (h : hugr op md) (s : serial sop md),
    guard_b vports sports has_order h = true -> to_serial enc ndp md_is_nil h = Some s ->
    rank h (h_root h) = 0 /\ IndexSane s.
  Proof. exact (serial_index_sane op sop md enc ndp md_nil md_is_nil vports sports has_order ndp_spec). Qed.

  (* every edge is the link with its nodes renumbered and its ports addressed by `addr`: a numbered port
     keeps its position in the signature (value ports first, the static port right after the value
     inputs), an order port is addressed at value + static port count of the operation -- `addr` reads
     neither the recorded port counts nor the set of connected ports *)
  Theorem C03_serial_port_addressing : forall (h : hugr op md) (s : serial sop md),
    guard_b vports sports has_order h = true -> to_serial enc ndp md_is_nil h = Some s ->
    s_edges s = map (expected_edge vports sports h) (h_links h).
  Proof. exact (serial_port_addressing op sop md enc ndp md_nil md_is_nil vports sports has_order ndp_spec). Qed.

  (* the same index sanity read off the JSON TEXT of the document (spec/DocJsonS.v: what a reader of the text
     sees, no serial records): `nodes` non-empty, node 0 has "parent": 0, every later node's "parent" is a smaller
     position, the first component of both endpoints of every edge is a position below the node count *)
  Variable op_fields : sop -> obj.
  Variable md_fields : md -> obj.
  Theorem C03_json_text_index_sane : forall (encoder : option string) (h : hugr op md) (s : serial sop md),
    guard_b vports sports has_order h = true -> to_serial enc ndp md_is_nil h = Some s ->
    json_index_sane (doc_json op_fields md_fields encoder s) = true.
  Proof.
    exact (model_json_index_sane op sop md enc ndp md_nil md_is_nil vports sports has_order ndp_spec op_fields md_fields).
  Qed.

  (* ... and port addressing in the JSON text: `edges` is, link by link, [[rank src, addr src], [rank dst, addr dst]] *)
  Theorem C03_json_text_port_addressing : forall (encoder : option string) (h : hugr op md) (s : serial sop md),
    guard_b vports sports has_order h = true -> to_serial enc ndp md_is_nil h = Some s ->
    jget "edges" (doc_json op_fields md_fields encoder s) =
    Some (JArr (map (fun l => edge_json (expected_edge vports sports h l)) (h_links h))).
  Proof.
    exact (model_json_edges op sop md enc ndp md_nil md_is_nil vports sports has_order ndp_spec op_fields md_fields).
  Qed.

  (* serialization of a guarded HUGR does not fail *)
  Theorem C03_serialization_total : forall h : hugr op md,
    guard_b vports sports has_order h = true -> exists s : serial sop md, to_serial enc ndp md_is_nil h = Some s.
  Proof. exact (to_serial_total op sop md enc ndp md_nil md_is_nil vports sports has_order ndp_spec). Qed.
End C03.

(* index reuse (D3): a child at a lower index than its parent is listed before it; the full statement
   ("including after node deletion and index reuse") is false of the faithful model *)
Theorem C03_index_reuse_refuted :
  hierarchy_ok_b Witness.reuse_child = true /\
  ports_exist_b Witness.vports Witness.sports Witness.has_order Witness.reuse_child = true /\
  exists s, Witness.to_s Witness.reuse_child = Some s /\ Witness.from_s s = None /\ index_sane_b s = false.
Proof. exact reuse_child_before_parent_refuted. Qed.

(* non-vacuity: the guarded example HUGR (hole, metadata, value link, order link) *)
Example C03_example :
  guard_b Witness.vports Witness.sports Witness.has_order Witness.good = true /\
  exists s, Witness.to_s Witness.good = Some s /\ index_sane_b s = true /\
            s_edges s = [((1, Some 0), (2, Some 0)); ((1, Some 1), (2, Some 1))].
Proof. split; [reflexivity|]. eexists. split; [reflexivity|]. split; reflexivity. Qed.

(* ---- schema validity of the model's documents, for ALL HUGRs (second pass) ---- *)
Section C03Schema.
  Variables op sop md : Type.
  Variable enc : op -> sop.
  Variable ndp : op -> dir -> option nat.
  Variable md_is_nil : md -> bool.
  Variable op_fields : sop -> obj.       (* members of the encoded operation object, without `parent` *)
  Variable md_fields : md -> obj.        (* members of a metadata dict *)

  (* every document Hugr._to_serial's model produces, written as JSON (version, nodes = operation object +
     parent, edges = [[n, o|null], [n, o|null]], metadata = array of object|null, encoder), validates against
     {"$ref": "#/$defs/SerialHugr"} of the published strict schema file as it is on disk now -- whatever the HUGR
     (no guard needed: also after deletion and index reuse), provided the file's OpType accepts every operation
     object written with parent 0 (ops_valid0; fuel f for them, f + 3 for the document).  That the verdict on an
     operation object cannot depend on the parent index is proved from a certificate evaluated on the regenerated
     file (proofs/NodeParentP.v parent_indep, strict_OpType_parent_cert). *)
  Theorem C03_model_document_schema_valid : forall (encoder : option string) (f : nat) (h : hugr op md) (s : serial sop md),
    4 <= f -> ops_valid0 published_hugr_strict sop op_fields f ->
    to_serial enc ndp md_is_nil h = Some s ->
    accepts (3 + f) published_hugr_strict "SerialHugr" (doc_json op_fields md_fields encoder s) = true.
  Proof. exact (published_model_doc_accepted sop md op_fields md_fields op enc ndp md_is_nil). Qed.

  (* the same for the text hugr-py emitted, whenever it is the model's rendering as JSON data (objects as maps): the
     premise is what the correspondence evaluates per case (run/C03SchemaRun.v tie_ok); validation cannot tell
     data-equal documents apart (proofs/DataEquivP.v: data_equiv is symmetric and transitive, every keyword respects it) *)
  Theorem C03_emitted_document_schema_valid : forall (encoder : option string) (f : nat) (h : hugr op md) (s : serial sop md)
      (emitted : json),
    4 <= f -> ops_valid0 published_hugr_strict sop op_fields f ->
    to_serial enc ndp md_is_nil h = Some s ->
    data_equiv (doc_json op_fields md_fields encoder s) emitted = true ->
    accepts (3 + f) published_hugr_strict "SerialHugr" emitted = true.
  Proof. exact (published_emitted_doc_accepted sop md op_fields md_fields op enc ndp md_is_nil). Qed.

  (* a package of such modules and of extension documents the file's Extension definition accepts validates
     against {"$ref": "#/$defs/Package"} *)
  Theorem C03_model_package_schema_valid : forall (f : nat) (hs : list (hugr op md)) (mods : list (serial sop md)) (exts : list json),
    4 <= f -> ops_valid0 published_hugr_strict sop op_fields f ->
    mapM (to_serial enc ndp md_is_nil) hs = Some mods ->
    (forall e, In e exts -> accepts (3 + f) published_hugr_strict "Extension" e = true) ->
    accepts (6 + f) published_hugr_strict "Package" (pkg_json op_fields md_fields mods exts) = true.
  Proof. exact (published_model_pkg_accepted sop md op_fields md_fields op enc ndp md_is_nil). Qed.
  (* ... and the emitted Package text, when it is pkg_json of the modules' model documents as data (run: pkg_ok) *)
  Theorem C03_emitted_package_schema_valid : forall (f : nat) (hs : list (hugr op md)) (mods : list (serial sop md))
      (exts : list json) (emitted : json),
    4 <= f -> ops_valid0 published_hugr_strict sop op_fields f ->
    mapM (to_serial enc ndp md_is_nil) hs = Some mods ->
    (forall e, In e exts -> accepts (3 + f) published_hugr_strict "Extension" e = true) ->
    data_equiv (pkg_json op_fields md_fields mods exts) emitted = true ->
    accepts (6 + f) published_hugr_strict "Package" emitted = true.
  Proof. exact (published_emitted_pkg_accepted sop md op_fields md_fields op enc ndp md_is_nil). Qed.
End C03Schema.

(* the same statements relative to ANY schema file whose SerialHugr / Package definitions have the expected shapes
   (what is evaluated on the regenerated constant: C03_published_shapes) *)
Theorem C03_document_schema_valid_any_file : forall (root : json),
  self_equiv root = true -> def_matches root "SerialHugr" shape_SerialHugr = true ->
  forall (sop md : Type) (op_fields : sop -> obj) (md_fields : md -> obj) (encoder : option string) (f : nat)
         (s : serial sop md),
  4 <= f -> ops_valid root sop op_fields f ->
  accepts (3 + f) root "SerialHugr" (doc_json op_fields md_fields encoder s) = true.
Proof. exact doc_accepted. Qed.
Theorem C03_published_shapes :
  self_equiv published_hugr_strict = true /\
  def_matches published_hugr_strict "SerialHugr" shape_SerialHugr = true /\
  def_matches published_hugr_strict "Package" shape_Package = true.
Proof. exact (conj strict_self_equiv (conj strict_SerialHugr_shape strict_Package_shape)). Qed.

(* the published OpType and its 21 alternatives give the same verdict on an object whatever integer `parent` holds *)
Theorem C03_published_OpType_ignores_parent_index : forall f a b kvs,
  accepts f published_hugr_strict "OpType" (pnode a kvs) = accepts f published_hugr_strict "OpType" (pnode b kvs).
Proof. exact (accepts_parent_indep _ _ "OpType" strict_OpType_parent_cert (or_introl eq_refl)). Qed.

(* documents that are equal as JSON data (member order of objects irrelevant) get the same verdict, for every schema *)
Theorem C03_validation_respects_data_equality : forall fuel root s d1 d2,
  data_equiv d1 d2 = true -> validates fuel root s d1 = validates fuel root s d2.
Proof. exact validates_data_equiv. Qed.

(* annotations (title, description, default, discriminator) have no effect on validation: what lets the shapes be
   written without the documentation strings of the published file *)
Theorem C03_annotations_do_not_matter : forall fuel root s d,
  validates fuel (strip root) (strip s) d = validates fuel root s d.
Proof. exact strip_preserves_validation. Qed.

(* the monitor's short-circuit validator is the validator of model/Schema.v *)
Theorem C03_fast_validator_is_the_validator : forall fuel root name d,
  faccepts fuel root name d = accepts fuel root name d.
Proof. exact faccepts_eq. Qed.

(* non-vacuity: operation objects the published OpType accepts with every parent, a document and a package of them
   accepted through the theorems, and three malformed documents rejected *)
Example C03_schema_example :
  ops_valid published_hugr_strict ex_op ex_fields 10 /\
  accepts 13 published_hugr_strict "SerialHugr" (doc_json ex_fields ex_md (Some "hugr-py v0"%string) ex_serial) = true /\
  accepts 16 published_hugr_strict "Package" (pkg_json ex_fields ex_md [ex_serial; ex_serial] []) = true.
Proof. exact (conj ex_ops_valid ex_doc_accepted). Qed.

Print Assumptions C03_serial_index_sane.
Print Assumptions C03_serial_port_addressing.
Print Assumptions C03_serialization_total.
Print Assumptions C03_json_text_index_sane.
Print Assumptions C03_json_text_port_addressing.
Print Assumptions C03_index_reuse_refuted.
Print Assumptions C03_example.
Print Assumptions C03_model_document_schema_valid.
Print Assumptions C03_emitted_document_schema_valid.
Print Assumptions C03_model_package_schema_valid.
Print Assumptions C03_emitted_package_schema_valid.
Print Assumptions C03_validation_respects_data_equality.
Print Assumptions C03_document_schema_valid_any_file.
Print Assumptions C03_published_shapes.
Print Assumptions C03_published_OpType_ignores_parent_index.
Print Assumptions C03_annotations_do_not_matter.
Print Assumptions C03_fast_validator_is_the_validator.
Print Assumptions C03_schema_example.

(* ==================================================================================================================
   False alarms corrected (harmless changes; design.d/C03.md).  The statements above are about the document
   Hugr._to_serial writes TODAY: nodes by increasing index, edges in link-insertion order, "encoder": null in package
   modules.  C03 promises none of these choices.  The statements below hold for every choice a writer can make:
   * any listing order L of the live nodes that is admissible (exactly the live nodes, each once) and puts the root
     first and every parent before its children (model/SerialHugrGen.v to_serial_in; spec/SerialHugrGenS.v) -- no
     index_ordered_b premise: hierarchy order makes documents index-sane also after index reuse;
   * any presentation of the document (order of the edges array, writing of the metadata table: SameDoc);
   * any `encoder` member of the modules of a package (model/DocJsonEnc.v pkg_json_e).
   ================================================================================================================== *)
From HV Require Import model.SerialHugrGen spec.SerialHugrGenS proofs.SerialHugrGenP model.DocJsonEnc proofs.DocJsonEncP.

Section C03Order.
  Variables op sop md : Type.
  Variable enc : op -> sop.
  Variable ndp : op -> dir -> option nat.
  Variable md_nil : md.
  Variable md_is_nil : md -> bool.
  Variables vports sports : op -> dir -> nat.
  Variable has_order : op -> bool.
  Hypothesis ndp_spec : forall o d, ndp o d = if has_order o then Some (vports o d + sports o d) else None.

  Theorem C03_any_listing_order_serialization_total : forall (h : hugr op md) (L : list nat),
    OrderAdmissible h L -> order_ok_b h L = true -> ports_exist_b vports sports has_order h = true ->
    exists s : serial sop md, to_serial_in enc ndp md_is_nil L h = Some s.
  Proof. exact (to_serial_in_total op sop md enc ndp md_nil md_is_nil vports sports has_order ndp_spec). Qed.

  (* the root is node 0 (and names itself as parent), every other node's parent is listed earlier, both endpoints of
     every edge are listed, and every edge is the link with its nodes at their listing positions and its ports
     addressed by the operation's own port counts *)
  Theorem C03_any_listing_order_index_sane_and_port_addressing : forall (h : hugr op md) (L : list nat) (s : serial sop md),
    OrderAdmissible h L -> order_ok_b h L = true -> ports_exist_b vports sports has_order h = true ->
    to_serial_in enc ndp md_is_nil L h = Some s ->
    pos_in L (h_root h) = 0 /\ IndexSane s /\ s_edges s = map (expected_edge_pos vports sports h L) (h_links h).
  Proof.
    intros h L s Ha Ho. exact (serial_in_sane op sop md enc ndp md_nil md_is_nil vports sports has_order ndp_spec h L Ha Ho s).
  Qed.

  (* the document of model/SerialHugr.v is the instance "increasing index", always admissible *)
  Theorem C03_index_order_is_an_instance : forall h : hugr op md,
    to_serial_in enc ndp md_is_nil (live h) h = to_serial enc ndp md_is_nil h /\ OrderAdmissible h (live h).
  Proof. intros h. split; [apply to_serial_in_live|exact (live_admissible op md md_nil md_is_nil h)]. Qed.

  (* what the monitor's test on the order the implementation chose establishes *)
  Theorem C03_order_test_sound : forall (h : hugr op md) (L : list nat),
    order_admissible_b h L = true -> OrderAdmissible h L.
  Proof. exact (order_admissible_b_sound op md md_nil md_is_nil). Qed.

  (* index sanity does not depend on the presentation of the document *)
  Theorem C03_index_sanity_any_presentation : forall a b : serial sop md,
    SameDoc md_nil a b -> IndexSane b -> IndexSane a.
  Proof. exact (index_sane_same sop md md_nil). Qed.
End C03Order.

(* a package whose modules carry any `encoder` members validates against the published Package definition *)
Theorem C03_package_schema_valid_any_encoder :
  forall (sop md : Type) (op_fields : sop -> obj) (md_fields : md -> obj) (f : nat)
         (mods : list (option string * serial sop md)) (exts : list json),
  4 <= f -> ops_valid0 published_hugr_strict sop op_fields f ->
  (forall e, In e exts -> accepts (3 + f) published_hugr_strict "Extension" e = true) ->
  accepts (6 + f) published_hugr_strict "Package" (pkg_json_e op_fields md_fields mods exts) = true.
Proof. exact published_pkg_e_accepted. Qed.
Theorem C03_emitted_package_schema_valid_any_encoder :
  forall (sop md : Type) (op_fields : sop -> obj) (md_fields : md -> obj) (f : nat)
         (mods : list (option string * serial sop md)) (exts : list json) (emitted : json),
  4 <= f -> ops_valid0 published_hugr_strict sop op_fields f ->
  (forall e, In e exts -> accepts (3 + f) published_hugr_strict "Extension" e = true) ->
  data_equiv (pkg_json_e op_fields md_fields mods exts) emitted = true ->
  accepts (6 + f) published_hugr_strict "Package" emitted = true.
Proof. exact published_emitted_pkg_e_accepted. Qed.

(* non-vacuity: the index-reuse witness (C03_index_reuse_refuted: listed by index it is not index-sane) listed in
   hierarchy order [0; 2; 1] satisfies the premises, and its document is index-sane and loads *)
Example C03_listing_order_example :
  order_admissible_b Witness.reuse_child [0; 2; 1] = true /\ order_ok_b Witness.reuse_child [0; 2; 1] = true /\
  ports_exist_b Witness.vports Witness.sports Witness.has_order Witness.reuse_child = true /\
  exists s h', to_serial_in Witness.enc Witness.ndp Witness.md_is_nil [0; 2; 1] Witness.reuse_child = Some s /\
               index_sane_b s = true /\ map (@s_parent nat) (s_nodes s) = [0; 0; 1] /\ Witness.from_s s = Some h'.
Proof. exact GenWitness.reuse_child_hierarchy_order. Qed.

Print Assumptions C03_any_listing_order_serialization_total.
Print Assumptions C03_any_listing_order_index_sane_and_port_addressing.
Print Assumptions C03_index_order_is_an_instance.
Print Assumptions C03_order_test_sound.
Print Assumptions C03_index_sanity_any_presentation.
Print Assumptions C03_package_schema_valid_any_encoder.
Print Assumptions C03_emitted_package_schema_valid_any_encoder.
Print Assumptions C03_listing_order_example.
