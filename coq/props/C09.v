(* C09 — Package envelopes round-trip and carry the documented header. *)
From Coq Require Import NArith String List Bool Arith.
Import ListNotations.
From HV Require Import lib.Harness model.Envelope proofs.EnvelopeP.
From HV Require Import gen.EnvelopeRust gen.EnvelopePy model.EnvelopeRustM proofs.EnvelopeRustP.
Open Scope N_scope.

(* the first ten bytes: magic number, format byte, flags with bit 0 = compressed and bits 7,6 = 0,1 *)
Theorem C09_header_layout : forall h,
  exists flags, header_to_bytes h = MAGIC ++ [fmt_value (hformat h); flags] /\
    N.testbit flags 0 = hzstd h /\ N.testbit flags 7 = false /\ N.testbit flags 6 = true /\
    length (header_to_bytes h) = 10%nat.
Proof. exact header_layout. Qed.

Theorem C09_header_roundtrip : forall h rest, header_from_bytes (header_to_bytes h ++ rest) = Ok h.
Proof. exact header_roundtrip. Qed.

(* for ALL byte strings: what is accepted, and with which decoded fields *)
Theorem C09_header_accepts_iff : forall d h,
  header_from_bytes d = Ok h <->
  exists flags rest, d = MAGIC ++ [fmt_value (hformat h); flags] ++ rest /\ hzstd h = N.odd flags.
Proof. exact header_accepts_iff. Qed.

(* shorter than a header, different magic number, unknown format byte: ValueError *)
Theorem C09_header_rejects : forall d,
  (length d < 10)%nat \/ firstn 8 d <> MAGIC \/ (nth 8 d 0 <> 1 /\ nth 8 d 0 <> 2 /\ nth 8 d 0 <> 63) ->
  header_from_bytes d = Err ValueError.
Proof. exact header_rejects. Qed.
Theorem C09_header_total : forall d, header_from_bytes d = Err ValueError \/ exists h, header_from_bytes d = Ok h.
Proof. exact header_total. Qed.

(* all 2^16 (format, flags) pairs, swept inside Coq *)
Theorem C09_header_sweep : forallb (fun fb => forallb (fun fl => sweep_ok fb fl) all_bytes) all_bytes = true.
Proof. exact header_sweep_all_pairs. Qed.

Section Oracles.
  (* zstd and the JSON text codec are external: their inverse laws are hypotheses of the round trip *)
  Variable package : Type.
  Variable json_payload : package -> bytes.
  Variable json_parse : bytes -> option package.
  Variable compress : N -> bytes -> bytes.
  Variable decompress : bytes -> option bytes.
  Variable utf8_ok : bytes -> bool.
  Hypothesis zstd_inverse : forall lvl p, decompress (compress lvl p) = Some p.
  Hypothesis json_inverse : forall p, json_parse (json_payload p) = Some p.

  Theorem C09_envelope_roundtrip : forall p c e,
    make_envelope package json_payload compress p c = Ok e ->
    read_envelope package json_parse decompress e = Ok p.
  Proof. exact (envelope_roundtrip package json_payload json_parse compress decompress zstd_inverse json_inverse). Qed.

  Theorem C09_envelope_header : forall p c e,
    make_envelope package json_payload compress p c = Ok e ->
    firstn 10 e = header_to_bytes (make_header c) /\
    hzstd (make_header c) = match czstd c with Some _ => true | None => false end.
  Proof. exact (envelope_header_is_documented package json_payload compress). Qed.

  Theorem C09_str_only_ascii_formats : forall p c e,
    make_envelope_str package json_payload compress utf8_ok p c = Ok e -> cformat c = JSON.
  Proof. exact (str_only_ascii_formats package json_payload compress utf8_ok). Qed.

  Theorem C09_str_roundtrip : forall p c e,
    make_envelope_str package json_payload compress utf8_ok p c = Ok e ->
    read_envelope package json_parse decompress e = Ok p.
  Proof. exact (str_roundtrip package json_payload json_parse compress decompress utf8_ok zstd_inverse json_inverse). Qed.

  Theorem C09_read_rejects : forall e, header_from_bytes e = Err ValueError ->
    read_envelope package json_parse decompress e = Err ValueError.
  Proof. exact (read_rejects package json_parse decompress). Qed.

  (* a package object that was encoded before and has changed since is still a package: in every history of
     encodings and changes on one object, each envelope decodes to the contents the object had at that moment,
     and is the envelope a fresh object with those contents would give *)
  Theorem C09_history_roundtrip : forall s p q e,
    In (q, Ok e) (run_steps package json_payload compress utf8_ok p s) ->
    read_envelope package json_parse decompress e = Ok q.
  Proof. exact (history_roundtrip package json_payload json_parse compress decompress utf8_ok zstd_inverse json_inverse). Qed.
  Theorem C09_history_fresh : forall s p q r,
    In (q, r) (run_steps package json_payload compress utf8_ok p s) ->
    exists c, r = make_envelope package json_payload compress q c \/
              r = make_envelope_str package json_payload compress utf8_ok q c.
  Proof. exact (history_fresh package json_payload compress utf8_ok). Qed.

  (* (deepening) every envelope the model makes, for every configuration, starts with a header that the
     DOCUMENTED reader (EnvelopeHeader::read of header.rs over the scanned constants) accepts with the same
     format and the same compression flag *)
  Theorem C09_rust_reads_envelope : forall p c e,
    make_envelope package json_payload compress p c = Ok e ->
    rust_read e = ROk (rust_name (cformat c)) (match czstd c with Some _ => true | None => false end).
  Proof. exact (rust_reads_envelope package json_payload compress). Qed.
  (* text encoding is offered only for the formats header.rs declares ASCII-printable *)
  Theorem C09_str_only_rust_printable : forall p c e,
    make_envelope_str package json_payload compress utf8_ok p c = Ok e ->
    rust_variant_ascii_printable (rust_name (cformat c)) = true.
  Proof. exact (str_only_rust_printable package json_payload compress utf8_ok). Qed.
End Oracles.

(* ---- (deepening) "the documented header": the constants of hugr-core/src/envelope/header.rs, scanned on every
   run into gen/EnvelopeRust.v, and the module-level constants of hugr/envelope.py, read by import into
   gen/EnvelopePy.v.  All of the following are re-proved on every run against the regenerated constants. *)

(* the model's magic bytes are the scanned ones *)
Theorem C09_rust_magic : rust_magic = MAGIC.
Proof. exact rust_magic_is_model. Qed.
(* the set of known formats and each format byte: the variants of `enum EnvelopeFormat` with their
   discriminants are exactly the model's formats with their format bytes *)
Theorem C09_rust_formats : forall name v,
  In (name, v) rust_formats <-> exists f, name = rust_name f /\ v = fmt_value f.
Proof. exact rust_formats_are_model. Qed.
(* the set of ASCII-printable formats *)
Theorem C09_rust_ascii_printable :
  (forall name, In name rust_ascii_printable <-> exists f, name = rust_name f /\ ascii_printable f = true) /\
  (forall f, rust_variant_ascii_printable (rust_name f) = ascii_printable f).
Proof. exact (conj rust_printable_are_model rust_ascii_printable_is_model). Qed.
(* flag layout: the byte `write` builds has bits 7,6 = 0,1 and bit 0 = zstd and is the model's; the mask `read`
   applies selects bit 0 *)
Theorem C09_rust_flag_layout :
  (forall z : bool, let flags := N.lor rust_flags_base (if z then 1 else 0) in
     N.testbit flags 7 = false /\ N.testbit flags 6 = true /\ N.testbit flags 0 = z /\
     flags = N.lor 64 (if z then 1 else 0)) /\
  (forall fl, negb (N.land fl rust_zstd_mask =? 0) = N.testbit fl 0).
Proof. exact rust_flag_layout. Qed.
(* the three fields `read` consumes add up to the ten bytes the model writes (and to the stated length) *)
Theorem C09_rust_header_length : forall h,
  (rust_magic_read_len + rust_format_read_len + rust_flags_read_len)%nat = length (header_to_bytes h) /\
  length rust_magic = rust_magic_read_len /\
  (forall n, rust_header_len_stated = Some n -> n = length (header_to_bytes h)).
Proof. exact rust_header_length. Qed.

(* for ALL byte strings: the documented reader accepts exactly what the model's decoder accepts, with the same
   format and compression flag; answers with nothing but the model's formats; rejects exactly what the model
   rejects with ValueError *)
Theorem C09_rust_reader_accepts_iff : forall d f z,
  rust_read d = ROk (rust_name f) z <-> header_from_bytes d = Ok {| hformat := f; hzstd := z |}.
Proof. exact rust_reader_accepts_iff. Qed.
Theorem C09_rust_reader_only_known : forall d v z, rust_read d = ROk v z -> exists f, v = rust_name f.
Proof. exact rust_reader_only_known. Qed.
Theorem C09_rust_reader_rejects_iff : forall d,
  (exists e, rust_read d = RErr e) <-> header_from_bytes d = Err ValueError.
Proof. exact rust_reader_rejects_iff. Qed.
(* shorter than a header, different magic number, unknown format byte: rejected by the documented reader too *)
Theorem C09_rust_reader_rejects : forall d,
  (length d < 10)%nat \/ firstn 8 d <> MAGIC \/ (nth 8 d 0 <> 1 /\ nth 8 d 0 <> 2 /\ nth 8 d 0 <> 63) ->
  exists e, rust_read d = RErr e.
Proof. exact rust_reader_rejects. Qed.
(* the header the MODEL writes is read back by the documented reader; the header the documented WRITER writes
   is the model's and is read back by the model's decoder *)
Theorem C09_rust_reads_model_header : forall h rest,
  rust_read (header_to_bytes h ++ rest) = ROk (rust_name (hformat h)) (hzstd h).
Proof. exact rust_reads_model_header. Qed.
Theorem C09_rust_write_is_model : forall h,
  rust_write (rust_name (hformat h)) (hzstd h) = Some (header_to_bytes h).
Proof. exact rust_write_is_model. Qed.
Theorem C09_model_reads_rust_header : forall f z w rest,
  rust_write (rust_name f) z = Some w -> header_from_bytes (w ++ rest) = Ok {| hformat := f; hzstd := z |}.
Proof. exact model_reads_rust_header. Qed.

(* Python's module-level constants equal Rust's (names related by the hand-written table py_name / rust_name
   only): editing either side breaks these, with the differing constant as the failing input *)
Theorem C09_python_magic_is_rust : py_magic = rust_magic.
Proof. exact python_magic_is_rust. Qed.
Theorem C09_python_formats_are_rust :
  (forall pn v, In (pn, v) py_formats <-> exists f, pn = py_name f /\ rust_discriminant (rust_name f) = Some v) /\
  (forall rn v, In (rn, v) rust_formats -> exists f, rn = rust_name f).
Proof. exact python_formats_are_rust. Qed.
Theorem C09_python_printable_are_rust : forall pn,
  In pn py_ascii_printable <-> exists f, pn = py_name f /\ rust_variant_ascii_printable (rust_name f) = true.
Proof. exact python_printable_are_rust. Qed.
Theorem C09_python_formats_are_model : forall pn v,
  In (pn, v) py_formats <-> exists f, pn = py_name f /\ v = fmt_value f.
Proof. exact python_formats_are_model. Qed.

Example C09_example : header_from_bytes (MAGIC ++ [63; 65; 1; 2; 3]) = Ok {| hformat := JSON; hzstd := true |}.
Proof. reflexivity. Qed.

Print Assumptions C09_header_accepts_iff.
Print Assumptions C09_header_rejects.
Print Assumptions C09_header_sweep.
Print Assumptions C09_envelope_roundtrip.
Print Assumptions C09_str_roundtrip.
Print Assumptions C09_history_roundtrip.
Print Assumptions C09_rust_magic.
Print Assumptions C09_rust_formats.
Print Assumptions C09_rust_ascii_printable.
Print Assumptions C09_rust_flag_layout.
Print Assumptions C09_rust_header_length.
Print Assumptions C09_rust_reader_accepts_iff.
Print Assumptions C09_rust_reader_only_known.
Print Assumptions C09_rust_reader_rejects_iff.
Print Assumptions C09_rust_reader_rejects.
Print Assumptions C09_rust_reads_model_header.
Print Assumptions C09_rust_write_is_model.
Print Assumptions C09_model_reads_rust_header.
Print Assumptions C09_rust_reads_envelope.
Print Assumptions C09_str_only_rust_printable.
Print Assumptions C09_python_magic_is_rust.
Print Assumptions C09_python_formats_are_rust.
Print Assumptions C09_python_printable_are_rust.
Print Assumptions C09_python_formats_are_model.
