(* C09 — Package envelopes round-trip and carry the documented header. *)
From Coq Require Import NArith List Bool Arith.
Import ListNotations.
From HV Require Import lib.Harness model.Envelope proofs.EnvelopeP.
Open Scope N_scope.

(* the first ten bytes: magic number, format byte, flags with bit 0 = compressed and bits 7,6 = 0,1 *)
Theorem C09_header_layout : forall h,
  exists flags, header_to_bytes h = MAGIC ++ [fmt_value (hformat h); flags] /\
    N.testbit flags 0 = hzstd h /\ N.testbit flags 7 = false /\ N.testbit flags 6 = true /\
    length (header_to_bytes h) = 10%nat.
Proof. exact header_layout. Qed.

Theorem C09_header_roundtrip : forall h rest, header_from_bytes (header_to_bytes h ++ rest) = Ok h.
Proof. exact header_roundtrip. Qed.

(* for ALL byte strings: what is accepted, and with which decoded fields *)
Theorem C09_header_accepts_iff : forall d h,
  header_from_bytes d = Ok h <->
  exists flags rest, d = MAGIC ++ [fmt_value (hformat h); flags] ++ rest /\ hzstd h = N.odd flags.
Proof. exact header_accepts_iff. Qed.

(* shorter than a header, different magic number, unknown format byte: ValueError *)
Theorem C09_header_rejects : forall d,
  (length d < 10)%nat \/ firstn 8 d <> MAGIC \/ (nth 8 d 0 <> 1 /\ nth 8 d 0 <> 2 /\ nth 8 d 0 <> 63) ->
  header_from_bytes d = Err ValueError.
Proof. exact header_rejects. Qed.
Theorem C09_header_total : forall d, header_from_bytes d = Err ValueError \/ exists h, header_from_bytes d = Ok h.
Proof. exact header_total. Qed.

(* all 2^16 (format, flags) pairs, swept inside Coq *)
Theorem C09_header_sweep : forallb (fun fb => forallb (fun fl => sweep_ok fb fl) all_bytes) all_bytes = true.
Proof. exact header_sweep_all_pairs. Qed.

Section Oracles.
  (* zstd and the JSON text codec are external: their inverse laws are hypotheses of the round trip *)
  Variable package : Type.
  Variable json_payload : package -> bytes.
  Variable json_parse : bytes -> option package.
  Variable compress : N -> bytes -> bytes.
  Variable decompress : bytes -> option bytes.
  Variable utf8_ok : bytes -> bool.
  Hypothesis zstd_inverse : forall lvl p, decompress (compress lvl p) = Some p.
  Hypothesis json_inverse : forall p, json_parse (json_payload p) = Some p.

  Theorem C09_envelope_roundtrip : forall p c e,
    make_envelope package json_payload compress p c = Ok e ->
    read_envelope package json_parse decompress e = Ok p.
  Proof. exact (envelope_roundtrip package json_payload json_parse compress decompress zstd_inverse json_inverse). Qed.

  Theorem C09_envelope_header : forall p c e,
    make_envelope package json_payload compress p c = Ok e ->
    firstn 10 e = header_to_bytes (make_header c) /\
    hzstd (make_header c) = match czstd c with Some _ => true | None => false end.
  Proof. exact (envelope_header_is_documented package json_payload compress). Qed.

  Theorem C09_str_only_ascii_formats : forall p c e,
    make_envelope_str package json_payload compress utf8_ok p c = Ok e -> cformat c = JSON.
  Proof. exact (str_only_ascii_formats package json_payload compress utf8_ok). Qed.

  Theorem C09_str_roundtrip : forall p c e,
    make_envelope_str package json_payload compress utf8_ok p c = Ok e ->
    read_envelope package json_parse decompress e = Ok p.
  Proof. exact (str_roundtrip package json_payload json_parse compress decompress utf8_ok zstd_inverse json_inverse). Qed.

  Theorem C09_read_rejects : forall e, header_from_bytes e = Err ValueError ->
    read_envelope package json_parse decompress e = Err ValueError.
  Proof. exact (read_rejects package json_parse decompress). Qed.

  (* a package object that was encoded before and has changed since is still a package: in every history of
     encodings and changes on one object, each envelope decodes to the contents the object had at that moment,
     and is the envelope a fresh object with those contents would give *)
  Theorem C09_history_roundtrip : forall s p q e,
    In (q, Ok e) (run_steps package json_payload compress utf8_ok p s) ->
    read_envelope package json_parse decompress e = Ok q.
  Proof. exact (history_roundtrip package json_payload json_parse compress decompress utf8_ok zstd_inverse json_inverse). Qed.
  Theorem C09_history_fresh : forall s p q r,
    In (q, r) (run_steps package json_payload compress utf8_ok p s) ->
    exists c, r = make_envelope package json_payload compress q c \/
              r = make_envelope_str package json_payload compress utf8_ok q c.
  Proof. exact (history_fresh package json_payload compress utf8_ok). Qed.
End Oracles.

Example C09_example : header_from_bytes (MAGIC ++ [63; 65; 1; 2; 3]) = Ok {| hformat := JSON; hzstd := true |}.
Proof. reflexivity. Qed.

Print Assumptions C09_header_accepts_iff.
Print Assumptions C09_header_rejects.
Print Assumptions C09_header_sweep.
Print Assumptions C09_envelope_roundtrip.
Print Assumptions C09_str_roundtrip.
Print Assumptions C09_history_roundtrip.
