(* C08 — Inserting a HUGR embeds it isomorphically and disturbs nothing else.
   Property-level statements only; each is closed by [exact] of a lemma of proofs/InsertP.v.
   A, B, A' are states of the model of hugr.Hugr (model/Graph.v); [Inv] is the store invariant of C04,
   [WF] well-foundedness of the parent pointers; both hold of every HUGR built through the public API inside
   the guard of C04 (C08_sources_satisfy_the_hypotheses), whatever index reuse happened (no ParentFirst
   hypothesis: D20 is repaired).  "B itself is not modified" is immediate in a pure model (insert_hugr
   returns a new A and does not return B); aliasing of op objects / metadata dicts is outside the model.

   WHICH fresh indices the copies receive is not part of the property (the mapping must be an isomorphism onto
   nodes that were not live in A).  The model takes those choices as an oracle [om] (model/Graph.v: the mapping
   the implementation returned; a choice is followed when it names a free index of A, the most recently freed
   index is taken otherwise); every statement below is quantified over ALL oracles. *)
From Coq Require Import List Bool Arith ZArith Permutation.
Import ListNotations.
From HV Require Import lib.PyDict lib.Harness model.BiMapM model.Graph spec.GraphS spec.InsertS
     proofs.GraphP proofs.GraphInvP proofs.InsertP.

Section C08.
  Context {Op Meta : Type}.
  Notation hugr := (hugr Op Meta).

  (* insert_iso + insert_frame: insert_hugr returns normally; the returned mapping is a bijection from the live
     nodes of B onto nodes that were not live in A; operation, metadata, output port count, parent (the image
     of B's root hangs under the requested parent) and ORDERED children are preserved; the links of A' are those
     of A plus every link of B through the mapping, with offsets and multiplicity (order links are links at
     offset -1); every node of A is unchanged except that the parent gains the image of B's root as its last
     child; nothing else is live; the invariant holds of A'. *)
  Theorem C08_insert_iso_and_frame : forall (om : mapping) (A B : hugr) (parent : option nid),
    let p := match parent with Some x => x | None => root A end in
    Inv A -> Inv B -> WF B -> get_node A p <> None ->
    exists A' m, insert_hugr om A B parent = (A', m, Ok) /\ Inv A' /\ IsoFrame A B p m A'.
  Proof. exact insert_ok. Qed.

  (* every link with its port offsets and multiplicity, as listed by linked_ports from either end *)
  Theorem C08_insert_linked_ports_out_iso : forall (A B A' : hugr) p m, Inv A -> Inv B -> Inv A' ->
    IsoFrame A B p m A' -> forall q, get_node B (fst q) <> None ->
    Permutation (linked_out A' (mapp m q)) (map (mapp m) (linked_out B q)).
  Proof. exact insert_linked_out_iso. Qed.
  Theorem C08_insert_linked_ports_in_iso : forall (A B A' : hugr) p m, Inv A -> Inv B -> Inv A' ->
    IsoFrame A B p m A' -> forall q, get_node B (fst q) <> None ->
    Permutation (linked_in A' (mapp m q)) (map (mapp m) (linked_in B q)).
  Proof. exact insert_linked_in_iso. Qed.
  (* frame for the listings of A's own ports *)
  Theorem C08_insert_linked_ports_out_frame : forall (A B A' : hugr) p m, Inv A -> Inv B -> Inv A' ->
    IsoFrame A B p m A' -> forall q, get_node A (fst q) <> None -> Permutation (linked_out A' q) (linked_out A q).
  Proof. exact insert_linked_out_frame. Qed.
  Theorem C08_insert_linked_ports_in_frame : forall (A B A' : hugr) p m, Inv A -> Inv B -> Inv A' ->
    IsoFrame A B p m A' -> forall q, get_node A (fst q) <> None -> Permutation (linked_in A' q) (linked_in A q).
  Proof. exact insert_linked_in_frame. Qed.

  (* the very predicate the monitor evaluates on the implementation's observations (spec/InsertS.v,
     insert_spec_b = mapping bijective and fresh && every node of B has its image && links && frame) holds of
     the model's result, read through the abstraction [abs] *)
  Theorem C08_model_satisfies_the_monitored_spec :
    forall (op_eqb : Op -> Op -> bool) (meta_eqb : Meta -> Meta -> bool),
    (forall o, op_eqb o o = true) -> (forall x, meta_eqb x x = true) ->
    forall (A B A' : hugr) p m, Inv A -> Inv B -> get_node A p <> None -> IsoFrame A B p m A' ->
    insert_spec_b op_eqb meta_eqb (abs A) (abs B) (abs A') m p false [] = true.
  Proof. exact insert_satisfies_monitored_spec. Qed.

  (* and it is the insertion of the sequential specification of C04 (disjoint union along the mapping) *)
  Theorem C08_insert_refines_the_sequential_spec : forall (om : mapping) (A B : hugr) gA gB (parent : option nid),
    let p := match parent with Some x => x | None => root A end in
    Inv A -> Inv B -> WF B -> Rep A gA -> Rep B gB -> get_node A p <> None ->
    exists A' m, insert_hugr om A B parent = (A', m, Ok) /\ Inv A' /\
                 mapping_ok gA gB m = true /\ Rep A' (s_insert gA gB m p).
  Proof. exact insert_rep. Qed.

  (* the result can be inserted again / inserted into: well-foundedness is kept *)
  Theorem C08_insert_keeps_wf : forall (A B : hugr) p m A', Inv A -> Inv B -> get_node A p <> None -> WF A -> WF B ->
    IsoFrame A B p m A' -> WF A'.
  Proof. exact insert_WF. Qed.

  (* the hypotheses hold of every HUGR built by a history of public calls inside the guard, insert_hugr included
     (this is also C04's store_inv_reachable for all histories) *)
  Theorem C08_sources_satisfy_the_hypotheses : forall (o : Op) (m : Meta) (cs : list (cmd Op Meta * ret)),
    guarded (init o m) cs -> Inv (run (init o m) cs) /\ WF (run (init o m) cs).
  Proof. exact store_inv_reachable. Qed.
  Theorem C08_step_inside_guard_returns : forall pick (h : hugr) c, Inv h -> WF h -> guarded1 pick h c ->
    snd (step pick h c) = Ok /\ Inv (fst (fst (step pick h c))) /\ WF (fst (fst (step pick h c))).
  Proof. exact step_inv. Qed.
End C08.

(* insert_nested / insert_cfg / insert_conditional / insert_tail_loop (model insert_wrapped: insert_hugr under the
   builder's parent node, then per wire _wire_up_port = _ancestral_sibling, add_state_order for a wire from an enclosing
   region, add_link; then _update_port_count with the counts of the operation's signature).  Inside the guard
   wires_guard of spec/InsertS.v (every wire's source is a child of p or of a proper ancestor of p that has an
   ancestor-or-self of p among its children, offsets >= -1): the call returns normally with the mapping of the plain
   insertion and adds exactly wires_extra (spec/InsertS.v, computed on A as it was before the call): one link per
   wire into the image of the root at offsets 0, 1, ..., and for the wires from enclosing regions the state order
   link from the wire's source to the ancestor of the inserted root that is the source's sibling -- once however many
   wires ask for it, and not at all when A already had it.  In particular no wire ends anywhere but in the image of
   the root and no link of A' (hence of A, or of the copy of B) is touched.  Operation, parent, ordered children and
   metadata of every node stay as the plain insertion made them (only port counts may be re-declared). *)
Theorem C08_insert_wrappers_attach_wires : forall {Op Meta : Type} (om : mapping) (A B : hugr Op Meta) (p : nid) (ws : list port) ki ko,
  Inv A -> Inv B -> WF B -> get_node A p <> None -> wires_guard (abs A) p ws = true ->
  exists A' A'' m r',
    insert_hugr om A B (Some p) = (A', m, Ok) /\ IsoFrame A B p m A' /\ dget Nat.eqb m (root B) = Some r' /\
    insert_wrapped om A B p ws ki ko = (A'', m, Ok) /\ root A'' = root A /\
    Permutation (q_links A'') (q_links A' ++ wires_extra (abs A) p r' ws) /\
    forall x, option_map shape4 (get_node A'' x) = option_map shape4 (get_node A' x).
Proof. intros Op Meta. exact insert_wrappers_attach_wires. Qed.

(* the special case of wires that are outputs of siblings of the inserted root: one link per wire and nothing else *)
Theorem C08_insert_wrappers_attach_sibling_wires :
  forall {Op Meta : Type} (om : mapping) (A B : hugr Op Meta) (p : nid) (ws : list port) ki ko,
  Inv A -> Inv B -> WF B -> get_node A p <> None ->
  (forall w, In w ws -> (exists d, get_node A (fst w) = Some d /\ nd_parent d = Some p) /\ (-1 <= snd w)%Z) ->
  exists A' A'' m r',
    insert_hugr om A B (Some p) = (A', m, Ok) /\ IsoFrame A B p m A' /\ dget Nat.eqb m (root B) = Some r' /\
    insert_wrapped om A B p ws ki ko = (A'', m, Ok) /\ root A'' = root A /\
    Permutation (q_links A'') (q_links A' ++ wire_links r' 0 ws) /\
    forall x, option_map shape4 (get_node A'' x) = option_map shape4 (get_node A' x).
Proof. intros Op Meta. exact insert_wrappers_attach_sibling_wires. Qed.

(* non-vacuity of the guard for wires from enclosing regions: A = root 0 with children 1 (a source) and 2 (a container),
   and 3 inside 2; B a single node.  The wrapper is called on the builder of region 3 with the wire 1.out(0) given
   twice: the image of B's root is node 4 under 3, the wires end in it at offsets 0 and 1, and ONE order link 1 -> 2
   is added; when A already has that link none is added. *)
Definition exA : hugr nat nat :=
  run (init 0 0) (map (fun c => (@Basic nat nat c, RUnit)) [AddNode 1 None None 0; AddNode 2 None None 0; AddNode 3 (Some 2) None 0]).
Example C08_wrapper_guard_satisfiable_by_nonlocal_wires :
  wires_guard (abs exA) 3 [(1, 0%Z); (1, 0%Z)] = true /\
  wires_extra (abs exA) 3 4 [(1, 0%Z); (1, 0%Z)] =
    [((1, 0%Z), (4, 0%Z)); ((1, 0%Z), (4, 1%Z)); ((1, (-1)%Z), (2, (-1)%Z))] /\
  (let '(A'', m, r) := insert_wrapped [] exA (init 5 0) 3 [(1, 0%Z); (1, 0%Z)] None None in
   r = Ok /\ m = [(0, 4)] /\
   q_links A'' = [((1, (-1)%Z), (2, (-1)%Z)); ((1, 0%Z), (4, 0%Z)); ((1, 0%Z), (4, 1%Z))]) /\
  (let A1 := fst (add_order_link exA 1 2) in
   wires_extra (abs A1) 3 4 [(1, 0%Z)] = [((1, 0%Z), (4, 0%Z))] /\
   q_links (fst (fst (insert_wrapped [] A1 (init 5 0) 3 [(1, 0%Z)] None None))) =
     [((1, (-1)%Z), (2, (-1)%Z)); ((1, 0%Z), (4, 0%Z))]) /\
  (* a source inside a sibling region (node 3 for a call under 1) is outside the guard: NoSiblingAncestor *)
  wires_guard (abs exA) 1 [(3, 0%Z)] = false /\ snd (insert_wrapped [] exA (init 5 0) 1 [(3, 0%Z)] None None) = EOther.
Proof. vm_compute. repeat split; reflexivity. Qed.

(* non-vacuity: a source whose child sits below its parent in index order after index reuse (the D20 trigger),
   with a multi-linked port and an order link, is inside the hypotheses, and insert_hugr maps it *)
Definition exB : list (cmd nat nat * ret) :=
  map (fun c => (@Basic nat nat c, RUnit))
  [AddNode 1 None None 0; AddNode 1 None None 0; DelNode 1; AddNode 2 (Some 2) (Some 1%Z) 0;
   AddLink (1, 0%Z) (2, 0%Z); AddLink (1, 0%Z) (2, 0%Z); AddOrder 2 1].
(* a target with two freed indices (1 and 2, freed in that order): without choices the copies take the most recently
   freed index first (2, then 1, then the fresh 4); with the choices of a smallest-first policy they take 1, 2, 4.
   Both are isomorphic embeddings (C08_insert_iso_and_frame holds for every oracle). *)
Definition exA2 : hugr nat nat :=
  run (init 7 0) (map (fun c => (@Basic nat nat c, RUnit))
    [AddNode 1 None None 0; AddNode 1 None None 0; AddNode 1 None None 0; DelNode 1; DelNode 2]).
Example C08_premises_satisfiable :
  guarded (init 0 0) exB /\
  (exists d, get_node (run (init 0 0) exB) 1 = Some d /\ nd_parent d = Some 2) /\
  snd (insert_hugr [] (init 7 0) (run (init 0 0) exB) None) = Ok /\
  snd (fst (insert_hugr [] (init 7 0) (run (init 0 0) exB) None)) = [(0, 1); (2, 2); (1, 3)] /\
  snd (fst (insert_hugr [] exA2 (run (init 0 0) exB) None)) = [(0, 2); (2, 1); (1, 4)] /\
  snd (fst (insert_hugr [(0, 1); (1, 4); (2, 2)] exA2 (run (init 0 0) exB) None)) = [(0, 1); (2, 2); (1, 4)].
Proof.
  split; [|split; [|split; [|split; [|split]]]].
  - cbn [exB map guarded]. repeat (split; [eexists; vm_compute; reflexivity|]). exact I.
  - eexists. split; vm_compute; reflexivity.
  - vm_compute. reflexivity.
  - vm_compute. reflexivity.
  - vm_compute. reflexivity.
  - vm_compute. reflexivity.
Qed.

(* size relations (seeded change C08-h): the bound of the ancestor walk is the size of the SOURCE, whatever the host.
   A source whose walk is as long as its size admits (root(0) > 2 > 3 > 4 > 1: every non-root node is on the walk that
   starts at node 1, index 1 freed and reused for the innermost node) is inside the hypotheses and is mapped into the
   smallest host there is (one node), into a two-node host with two freed indices, and into a host larger than itself. *)
Definition exD : list (cmd nat nat * ret) :=
  map (fun c => (@Basic nat nat c, RUnit))
  [AddNode 1 (Some 0) None 0; AddNode 1 (Some 0) None 0; AddNode 2 (Some 2) None 0; AddNode 3 (Some 3) (Some 1%Z) 0;
   DelNode 1; AddNode 4 (Some 4) (Some 1%Z) 0; AddLink (1, 0%Z) (4, 0%Z); AddOrder 4 1].
Definition exA6 : hugr nat nat :=
  run (init 7 0) (map (fun c => (@Basic nat nat c, RUnit))
    [AddNode 1 None None 0; AddNode 1 None None 0; AddNode 1 None None 0; AddNode 1 None None 0; AddNode 1 None None 0]).
Example C08_host_size_is_irrelevant :
  guarded (init 0 0) exD /\
  num_nodes (run (init 0 0) exD) = 5 /\
  ancestors_todo 5 (run (init 0 0) exD) [(0, 9)] (Some 1) [] = inl [2; 3; 4; 1] /\
  num_nodes (init 7 0 : hugr nat nat) = 1 /\
  snd (insert_hugr [] (init 7 0) (run (init 0 0) exD) None) = Ok /\
  snd (fst (insert_hugr [] (init 7 0) (run (init 0 0) exD) None)) = [(0, 1); (2, 2); (3, 3); (4, 4); (1, 5)] /\
  num_nodes exA2 = 2 /\
  snd (insert_hugr [] exA2 (run (init 0 0) exD) None) = Ok /\
  snd (fst (insert_hugr [] exA2 (run (init 0 0) exD) None)) = [(0, 2); (2, 1); (3, 4); (4, 5); (1, 6)] /\
  num_nodes exA6 = 6 /\
  snd (fst (insert_hugr [] exA6 (run (init 0 0) exD) (Some 3))) = [(0, 6); (2, 7); (3, 8); (4, 9); (1, 10)].
Proof.
  split.
  - cbn [exD map guarded]. repeat (split; [eexists; vm_compute; reflexivity|]). exact I.
  - vm_compute. repeat split; reflexivity.
Qed.

Print Assumptions C08_insert_iso_and_frame.
Print Assumptions C08_insert_linked_ports_out_iso.
Print Assumptions C08_insert_linked_ports_in_iso.
Print Assumptions C08_insert_linked_ports_out_frame.
Print Assumptions C08_insert_linked_ports_in_frame.
Print Assumptions C08_model_satisfies_the_monitored_spec.
Print Assumptions C08_insert_refines_the_sequential_spec.
Print Assumptions C08_insert_wrappers_attach_wires.
Print Assumptions C08_insert_wrappers_attach_sibling_wires.
Print Assumptions C08_insert_keeps_wf.
Print Assumptions C08_sources_satisfy_the_hypotheses.
Print Assumptions C08_step_inside_guard_returns.
Print Assumptions C08_host_size_is_irrelevant.
