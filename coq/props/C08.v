(* placeholder, replaced by the property-level theorems *)
From HV Require Import model.Graph spec.InsertS.
Theorem C08_placeholder : True. Proof. exact I. Qed.
Print Assumptions C08_placeholder.
