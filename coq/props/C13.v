(* C13 — Builders refuse inconsistent constructions instead of recording them.
   Each theorem: the inconsistency (a predicate of spec/BuilderErrS.v on the state the call reads)
   implies the documented error of the model of the call (model/BuilderErr.v, model/Tracked.v).
   Hierarchies are parent-first tables (what the builders produce); types are any set with a
   decidable equality (Section variables T, teqb with the visible reflection hypothesis). *)
From Coq Require Import ZArith NArith List Bool Arith.
Import ListNotations.
From HV Require Import lib.Harness model.Tracked model.BuilderErr spec.BuilderErrS proofs.BuilderErrP.
From HV Require Import model.BuilderParts spec.BuilderPartsS proofs.BuilderPartsP.

(* wires *)
Theorem C13_wire_no_relation_raises : forall pt src tgt k, ParentFirst pt -> ~ SiblingAncestor pt src tgt ->
  wire_up_dfg pt src tgt k = Err NoSiblingAncestor.
Proof. exact wire_no_relation_raises. Qed.
Theorem C13_wire_outside_cfg_raises : forall pt root cfg src tgt k,
  ParentFirst pt -> parent_of pt root = None -> ~ SiblingAncestor pt src tgt -> ~ InsideCfg pt cfg src ->
  wire_up_block pt root cfg src tgt k = Err NotInSameCfg.
Proof. exact wire_outside_cfg_raises. Qed.
Theorem C13_non_dataflow_wire_raises : forall pt src tgt k, ParentFirst pt -> SiblingAncestor pt src tgt ->
  NotDataflowPort k -> wire_up_dfg pt src tgt k = Err ValueError.
Proof. exact non_dataflow_wire_raises. Qed.
Theorem C13_non_dataflow_wire_in_block_raises : forall pt root cfg src tgt k,
  ParentFirst pt -> parent_of pt root = None -> SiblingAncestor pt src tgt \/ InsideCfg pt cfg src ->
  NotDataflowPort k -> wire_up_block pt root cfg src tgt k = Err ValueError.
Proof. exact non_dataflow_wire_in_block_raises. Qed.
(* the root node (no parent) as a wire's source is always refused *)
Theorem C13_parentless_source_raises : forall pt src tgt k, ParentFirst pt -> parent_of pt src = None ->
  wire_up_dfg pt src tgt k = Err NoSiblingAncestor.
Proof. exact parentless_source_raises. Qed.
Theorem C13_parentless_source_in_block_raises : forall pt root cfg src tgt k,
  ParentFirst pt -> parent_of pt root = None -> parent_of pt src = None ->
  wire_up_block pt root cfg src tgt k = Err NotInSameCfg.
Proof. exact parentless_source_in_block_raises. Qed.
(* no spurious refusals *)
Theorem C13_wire_with_relation_accepted : forall pt src tgt, ParentFirst pt -> SiblingAncestor pt src tgt ->
  exists o, wire_up_dfg pt src tgt KValue = Ok o.
Proof. exact wire_with_relation_accepted. Qed.
Theorem C13_wire_inside_cfg_accepted : forall pt root cfg src tgt,
  ParentFirst pt -> parent_of pt root = None -> SiblingAncestor pt src tgt \/ InsideCfg pt cfg src ->
  exists o, wire_up_block pt root cfg src tgt KValue = Ok o.
Proof. exact wire_inside_cfg_accepted. Qed.

(* conditionals *)
Theorem C13_case_out_of_range_raises : forall T (c : cond T) i, CaseOutOfRange c i -> add_case T c i = Err ConditionalError.
Proof. exact case_out_of_range_raises. Qed.
Theorem C13_case_twice_raises : forall T (c : cond T) i, CaseBuiltTwice c i -> add_case T c i = Err ConditionalError.
Proof. exact case_twice_raises. Qed.
Theorem C13_case_mismatch_raises : forall T teqb, (forall a b : T, reflect (a = b) (teqb a b)) ->
  forall (c : cond T) r, CasesDisagree c r -> update_outputs T teqb c r = Err ConditionalError.
Proof. exact case_mismatch_raises. Qed.
Theorem C13_exit_with_unbuilt_raises : forall T (c : cond T), UnbuiltCases c -> cond_exit T c = Err ConditionalError.
Proof. exact exit_with_unbuilt_raises. Qed.
Theorem C13_else_twice_raises : forall T (c : cond T), CaseBuiltTwice c 0%Z -> add_else T (Some c) = Err ConditionalError.
Proof. exact else_twice_raises. Qed.
Theorem C13_case_in_range_once_accepted : forall T (c : cond T) i, ~ CaseOutOfRange c i -> ~ CaseBuiltTwice c i ->
  exists c', add_case T c i = Ok c' /\ c_outs c' = c_outs c /\
             nth_error (c_built c') (Z.to_nat i) = Some true /\
             (forall m, m <> Z.to_nat i -> nth_error (c_built c') m = nth_error (c_built c) m).
Proof. exact case_in_range_once_accepted. Qed.

(* exit type, declared outputs *)
Theorem C13_exit_mismatch_raises : forall T teqb, (forall a b : T, reflect (a = b) (teqb a b)) ->
  forall (exit : option (row T)) out, ExitDisagrees exit out -> branch_exit T teqb exit out = Err MismatchedExit.
Proof. exact exit_mismatch_raises. Qed.
Theorem C13_declared_outputs_mismatch_raises : forall T teqb, (forall a b : T, reflect (a = b) (teqb a b)) ->
  forall (d : option (row T)) given, OutputsDiffer d given -> fn_set_outputs T teqb d given = Err ValueError.
Proof. exact declared_outputs_mismatch_raises. Qed.

(* calls and loads *)
Theorem C13_poly_call_without_instantiation_raises : forall np nt, np <> 0 -> call_or_load np false nt = Err NoConcreteFunc.
Proof. exact poly_call_without_instantiation_raises. Qed.
Theorem C13_poly_call_arg_count_raises : forall np inst nt, np <> 0 -> nt <> np -> call_or_load np inst nt = Err NoConcreteFunc.
Proof. exact poly_call_arg_count_raises. Qed.
Theorem C13_non_function_port_raises : forall k, NotFunctionPort k ->
  exists e, fn_sig k = Err e /\ (k <> KInvalid -> e = ValueError).
Proof. exact non_function_port_raises. Qed.

(* integers as wires *)
Theorem C13_int_wire_in_plain_dfg_raises : forall h op m args, HasIntegerWire args -> dfg_add h op m args = (h, Some EValue).
Proof. exact int_wire_in_plain_dfg_raises. Qed.
Theorem C13_untracked_index_raises : forall h tr op m args i,
  In (AI i) args -> NamesUntrackedWire tr i -> t_add h tr op m args = (h, tr, Some EIndex).
Proof. exact untracked_index_raises. Qed.
Theorem C13_untracked_index_raises_untrack : forall h tr i,
  NamesUntrackedWire tr i -> step h tr (Untrack i) = (h, tr, Some EIndex).
Proof. exact untracked_index_raises_untrack. Qed.
Theorem C13_untracked_index_raises_outputs : forall h tr args i,
  In (AI i) args -> NamesUntrackedWire tr i -> step h tr (SetIndexedOutputs args) = (h, tr, Some EIndex).
Proof. exact untracked_index_raises_outputs. Qed.

(* serialising an incomplete operation *)
Theorem C13_incomplete_op_serialise_raises : forall T (nodes : list (opfields T)),
  Incomplete nodes <-> serialise T nodes = Err IncompleteOp.
Proof. exact incomplete_op_serialise_raises. Qed.

(* all classes at once: an inconsistent call is refused with a documented error class, a consistent one
   is accepted (so the check cannot demand spurious errors); a refused conditional call leaves the
   builder state as it was *)
Theorem C13_error_is_not_silent : forall T teqb, (forall a b : T, reflect (a = b) (teqb a b)) ->
  forall c : call T, WellFormed T c ->
  (Inconsistent T c -> exists e, decide T teqb c = Some e /\ documented T c e) /\
  (~ Inconsistent T c -> decide T teqb c = None).
Proof. exact error_is_not_silent. Qed.
Theorem C13_refused_cond_call_changes_nothing : forall T teqb (c : cond T) o os e,
  cond_step T teqb c o = Err e ->
  cond_run T teqb c (o :: os) = (Some e :: fst (cond_run T teqb c os), snd (cond_run T teqb c os)).
Proof. exact refused_cond_call_changes_nothing. Qed.

(* builders as context managers: an error raised inside `with` blocks (of the Conditional and of builders
   whose __exit__ checks nothing, in any nesting) reaches the caller of the outermost block - as itself or as the
   ConditionalError of a Conditional context left with unbuilt cases; such a context always raises; a consistent
   block is accepted; Python's `with` suppresses an exception exactly when __exit__ returns a true value, and
   the builders whose __exit__ returns None hand everything on *)
Theorem C13_error_in_context_reaches_caller : forall T teqb (c : cond T) body c1 e ctxs, RaisesInside teqb c body c1 e ->
  exists e', with_nest T teqb c ctxs body = (c1, Some e') /\
             (e' = e \/ (e' = ConditionalError /\ In CxCond ctxs /\ UnbuiltCases c1)).
Proof. exact error_in_context_reaches_caller. Qed.
Theorem C13_context_left_with_unbuilt_raises : forall T teqb (c : cond T) body c1 ctxs,
  Accepted teqb c body c1 \/ (exists e, RaisesInside teqb c body c1 e) ->
  In CxCond ctxs -> UnbuiltCases c1 -> with_nest T teqb c ctxs body = (c1, Some ConditionalError).
Proof. exact context_left_with_unbuilt_raises. Qed.
Theorem C13_consistent_block_accepted : forall T teqb (c : cond T) body c1 ctxs, Accepted teqb c body c1 ->
  (In CxCond ctxs -> ~ UnbuiltCases c1) -> with_nest T teqb c ctxs body = (c1, None).
Proof. exact consistent_block_accepted. Qed.
Theorem C13_exception_suppressed_iff_exit_true : forall e x, with_stmt (Some e) x = None <-> x = Ok true.
Proof. exact with_stmt_suppresses_iff. Qed.
Theorem C13_plain_contexts_transparent : forall n fl, with_plain n fl = fl.
Proof. exact with_plain_transparent. Qed.
Theorem C13_plain_statements_are_caught_calls : forall T teqb (c : cond T) os,
  stmt_run T teqb c (map plain_stmt os) = cond_run T teqb c os.
Proof. exact stmt_run_plain. Qed.

(* leaving a container unfinished (the call that builds its outputs was never made: function - whatever outputs
   were DECLARED -, Dfg, case, block, CFG without exit branch, conditional without a built case, loop, a partial
   operation never wired) and serialising: IncompleteOp, wherever the part sits; a program that finishes
   everything serialises *)
Theorem C13_unfinished_part_serialise_raises : forall T ps,
  LeftUnfinished ps <-> serialise_parts T ps = Err IncompleteOp.
Proof. exact unfinished_part_serialise_raises. Qed.
Theorem C13_unfinished_anywhere_raises : forall T pre p post, Unfinished p ->
  serialise_parts T (pre ++ p :: post) = Err IncompleteOp.
Proof. exact unfinished_anywhere_raises. Qed.
Theorem C13_declared_outputs_do_not_finish : forall T pre declared post,
  serialise_parts T (pre ++ PFunc declared false :: post) = Err IncompleteOp.
Proof. exact declared_outputs_do_not_finish. Qed.
Theorem C13_finished_parts_serialise : forall T ps, ~ LeftUnfinished ps -> serialise_parts T ps = Ok tt.
Proof. exact finished_parts_serialise. Qed.

Print Assumptions C13_wire_no_relation_raises.
Print Assumptions C13_wire_outside_cfg_raises.
Print Assumptions C13_non_dataflow_wire_raises.
Print Assumptions C13_non_dataflow_wire_in_block_raises.
Print Assumptions C13_parentless_source_raises.
Print Assumptions C13_parentless_source_in_block_raises.
Print Assumptions C13_wire_with_relation_accepted.
Print Assumptions C13_wire_inside_cfg_accepted.
Print Assumptions C13_case_out_of_range_raises.
Print Assumptions C13_case_twice_raises.
Print Assumptions C13_case_mismatch_raises.
Print Assumptions C13_exit_with_unbuilt_raises.
Print Assumptions C13_else_twice_raises.
Print Assumptions C13_case_in_range_once_accepted.
Print Assumptions C13_exit_mismatch_raises.
Print Assumptions C13_declared_outputs_mismatch_raises.
Print Assumptions C13_poly_call_without_instantiation_raises.
Print Assumptions C13_poly_call_arg_count_raises.
Print Assumptions C13_non_function_port_raises.
Print Assumptions C13_int_wire_in_plain_dfg_raises.
Print Assumptions C13_untracked_index_raises.
Print Assumptions C13_untracked_index_raises_untrack.
Print Assumptions C13_untracked_index_raises_outputs.
Print Assumptions C13_incomplete_op_serialise_raises.
Print Assumptions C13_error_is_not_silent.
Print Assumptions C13_refused_cond_call_changes_nothing.
Print Assumptions C13_error_in_context_reaches_caller.
Print Assumptions C13_context_left_with_unbuilt_raises.
Print Assumptions C13_consistent_block_accepted.
Print Assumptions C13_exception_suppressed_iff_exit_true.
Print Assumptions C13_plain_contexts_transparent.
Print Assumptions C13_plain_statements_are_caught_calls.
Print Assumptions C13_unfinished_part_serialise_raises.
Print Assumptions C13_unfinished_anywhere_raises.
Print Assumptions C13_declared_outputs_do_not_finish.
Print Assumptions C13_finished_parts_serialise.
