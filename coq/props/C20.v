(* C20 — rendering draws every node, port and link of the HUGR exactly once.
   Property-level theorems only; each is closed by an exact reference to a lemma of proofs/RenderP.v.
   The model (model/Render.v) mirrors DotRenderer.render/_viz_node/_viz_link on an abstract DOT tree;
   h : hview is what the renderer reads from the HUGR through its public queries.  All statements hold
   for every hierarchy tree (any depth, any width), every link list and every configuration. *)
From Coq Require Import ZArith NArith List Bool Arith Permutation.
Import ListNotations.
From HV Require Import lib.Harness model.Render spec.RenderS proofs.RenderP.

(* one node statement per HUGR node and no others; guard: the hierarchy reached from the root covers
   exactly the HUGR's nodes (the tree invariant of the graph store, property C04) *)
Theorem C20_one_statement_per_node : forall c h,
  Permutation (map ni_idx (tree_infos (hv_tree h))) (hv_nodes h) ->
  NodesOnce h (render c (hv_tree h) (hv_links h)).
Proof. exact render_nodes_once. Qed.
Print Assumptions C20_one_statement_per_node.

(* each statement carries its operation's display name, the metadata lines and exactly one cell per
   input port and per output port, in order; guard: node indices are distinct *)
Theorem C20_statements_carry_name_ports_metadata : forall c h,
  NoDup (map ni_idx (tree_infos (hv_tree h))) ->
  stmts_carry_b c h (render c (hv_tree h) (hv_links h)) = true.
Proof. exact render_stmts_carry. Qed.
Print Assumptions C20_statements_carry_name_ports_metadata.

(* a cluster exactly for the nodes that have children, nested as the hierarchy is *)
Theorem C20_clusters_mirror_hierarchy : forall c t, Mirrors t (viz_node c t).
Proof. exact render_mirrors. Qed.
Print Assumptions C20_clusters_mirror_hierarchy.

(* the same at the strength of the property text, which fixes the nesting but not the order of the statements
   inside a cluster: the body of each cluster is a permutation of the drawings of the children (the model, like the
   code, keeps the order of Hugr.children - the statement above) *)
Theorem C20_clusters_mirror_hierarchy_up_to_sibling_order : forall c t, MirrorsP t (viz_node c t).
Proof. exact render_mirrors_perm. Qed.
Print Assumptions C20_clusters_mirror_hierarchy_up_to_sibling_order.

(* one edge statement per link, naming the link's node indices and port offsets, labelled by the type
   for value edges and unlabelled otherwise *)
Theorem C20_one_edge_per_link : forall c h, EdgesOnce h (render c (hv_tree h) (hv_links h)).
Proof. exact render_edges_once. Qed.
Print Assumptions C20_one_edge_per_link.
Theorem C20_value_edges_labelled_by_type : forall c l,
  e_label (viz_link c l) = match l_kind l with KValue ty => ty | _ => [] end.
Proof. exact render_value_labels. Qed.
Print Assumptions C20_value_edges_labelled_by_type.

(* two configurations differ only in colours, and in operation names when name qualification differs *)
Theorem C20_render_config_independent : forall names c1 c2 t ls,
  (names = true \/ c_qualify c1 = c_qualify c2) ->
  erase names (render c1 t ls) = erase names (render c2 t ls).
Proof. exact render_config_independent. Qed.
Print Assumptions C20_render_config_independent.

(* the executable specification used as monitor on the implementation's DOT output is met by the model,
   and its boolean clauses are sound for the Prop-level statements above *)
Theorem C20_model_meets_executable_spec : forall c h,
  NoDup (map ni_idx (tree_infos (hv_tree h))) ->
  perm_eqb Z.eqb (map ni_idx (tree_infos (hv_tree h))) (hv_nodes h) = true ->
  spec_b c h (render c (hv_tree h) (hv_links h)) = true.
Proof. exact render_meets_spec. Qed.
Print Assumptions C20_model_meets_executable_spec.
Theorem C20_monitor_clauses_sound :
  (forall h d, nodes_once_b h d = true -> NodesOnce h d) /\ (forall t d, mirrors_b t d = true -> Mirrors t d) /\
  (forall t d, mirrors_perm_b t d = true -> MirrorsP t d) /\ (forall t d, Mirrors t d -> MirrorsP t d).
Proof. exact (conj nodes_once_b_sound (conj mirrors_b_sound (conj mirrors_perm_b_sound mirrors_weaken))). Qed.
Print Assumptions C20_monitor_clauses_sound.

(* ---- at the strength of the property text (false alarms corrected, harmless changes) ----
   The property promises the display name and the port cells of a node statement, not the metadata lines; a type label
   on value edges, nothing about the labels of the other edge kinds.  The monitor evaluates spec_p_b; the model meets
   it, its edge clause is sound for the Prop statement, and the strict clauses above imply the promised ones. *)
Theorem C20_one_edge_per_link_value_labels_only : forall c h, EdgesOnceP h (render c (hv_tree h) (hv_links h)).
Proof. exact render_edges_once_p. Qed.
Print Assumptions C20_one_edge_per_link_value_labels_only.
Theorem C20_model_meets_promised_spec : forall c h,
  NoDup (map ni_idx (tree_infos (hv_tree h))) ->
  perm_eqb Z.eqb (map ni_idx (tree_infos (hv_tree h))) (hv_nodes h) = true ->
  spec_p_b c h (render c (hv_tree h) (hv_links h)) = true.
Proof. exact render_meets_promised_spec. Qed.
Print Assumptions C20_model_meets_promised_spec.
Theorem C20_promised_clauses_sound :
  (forall h d, edges_promised_b h d = true -> EdgesOnceP h d) /\ (forall h d, EdgesOnce h d -> EdgesOnceP h d) /\
  (forall c h d, stmts_carry_b c h d = true -> stmts_promised_b c h d = true).
Proof. exact (conj edges_promised_b_sound (conj edges_weaken stmts_weaken)). Qed.
Print Assumptions C20_promised_clauses_sound.

(* ---- seeded round 5: a drawing is determined by the HUGR and the options of that rendering ----
   "independent of palette and name-qualification options except for colours and the extension prefix": whatever
   renderings of one HUGR are made, in whatever order and under whatever options, any two made under equal options are
   the same drawing - the model's render has no input besides the options and what it reads from the HUGR.  The
   implementation has more (renderer objects, configuration objects, module state); the monitor evaluates
   `determined_b` on sequences of renderings made around histories of creating / customising / using other renderers. *)
Theorem C20_drawing_determined_by_hugr_and_options : forall t ls cs,
  Determined (map (fun c => (c, render c t ls)) cs).
Proof. exact render_determined. Qed.
Print Assumptions C20_drawing_determined_by_hugr_and_options.
Theorem C20_determined_clause_sound :
  (forall a b, config_eqb a b = true <-> a = b) /\ (forall rs, determined_b rs = true <-> Determined rs).
Proof. exact (conj config_eqb_eq (fun rs => conj (determined_b_sound rs) (determined_b_complete rs))). Qed.
Print Assumptions C20_determined_clause_sound.

(* renderer and configuration OBJECTS (model: `self.config = config or RenderConfig()`, configuration objects in a
   heap, customisation through a renderer's public `config` writes into the cell it points to): for every history of
   creating renderers (with or without a configuration), customising any of them and drawing, every drawing is the
   drawing under the drawing renderer's OWN options - created-with, changed only by steps naming that renderer.
   The variant with one module-level default configuration object (seeded change C20-i) is refuted in the model. *)
Theorem C20_renderers_do_not_interfere : forall dflt t ls h,
  hrun (fresh_default dflt) t ls {| hs_heap := []; hs_rend := [] |} h = own_draws dflt t ls [] h.
Proof. exact renderers_do_not_interfere. Qed.
Print Assumptions C20_renderers_do_not_interfere.
Theorem C20_shared_default_config_refuted :
  exists h, hrun module_default ex_tree (hv_links ex_view) {| hs_heap := [ex_cfg]; hs_rend := [] |} h
            <> own_draws ex_cfg ex_tree (hv_links ex_view) [] h.
Proof. exact shared_default_interferes. Qed.
Print Assumptions C20_shared_default_config_refuted.
