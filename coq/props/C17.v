(* C17 — The published JSON schema and the Python codec accept the same documents. *)
From Coq Require Import List Bool String Arith.
Import ListNotations.
From HV Require Import lib.Harness model.Schema spec.SchemaS proofs.SchemaP proofs.SchemasP gen.Schemas.
From HV Require Import model.SchemaSeq model.SchemaFiles spec.SchemaSeqS proofs.SchemaSeqP gen.SchemaOrders.
Open Scope string_scope.

(* ---- proved once, for ALL schemas, documents and recursion budgets ---- *)

(* erasing `"additionalProperties": true` (schema positions only) never changes a verdict *)
Theorem C17_norm_preserves_validation : forall fuel root s d,
  validates fuel (norm root) (norm s) d = validates fuel root s d.
Proof. exact norm_preserves_validation. Qed.

(* schema documents that differ only in the order of object members (and in the order/repetition inside
   `required` / `enum`) give the same verdict on every document *)
Theorem C17_schema_equiv_preserves_validation : forall fuel r1 r2,
  schema_equiv r1 r2 = true ->
  forall s1 s2 d, schema_equiv s1 s2 = true -> validates fuel r1 s1 d = validates fuel r2 s2 d.
Proof. exact schema_equiv_preserves_validation. Qed.

Theorem C17_same_documents_accepted : forall p g,
  schema_equiv (norm p) (norm g) = true -> SameDocuments p g.
Proof. exact same_documents_accepted. Qed.

(* ---- re-proved on every run against the regenerated constants ---- *)

(* each published file IS the schema the pydantic models define now (lax and strict, HUGR and testing;
   each file also holds the Extension and Package definitions) *)
Theorem published_hugr_eq_generated_hugr :
  schema_equiv (norm published_hugr) (norm generated_hugr) = true.
Proof. exact hugr_eq. Qed.
Theorem published_hugr_strict_eq_generated_hugr_strict :
  schema_equiv (norm published_hugr_strict) (norm generated_hugr_strict) = true.
Proof. exact hugr_strict_eq. Qed.
Theorem published_testing_eq_generated_testing :
  schema_equiv (norm published_testing) (norm generated_testing) = true.
Proof. exact testing_eq. Qed.
Theorem published_testing_strict_eq_generated_testing_strict :
  schema_equiv (norm published_testing_strict) (norm generated_testing_strict) = true.
Proof. exact testing_strict_eq. Qed.

(* hence: for every document, every definition name and every budget the verdicts coincide *)
Theorem C17_hugr_same_documents : SameDocuments published_hugr generated_hugr.
Proof. exact hugr_same. Qed.
Theorem C17_hugr_strict_same_documents : SameDocuments published_hugr_strict generated_hugr_strict.
Proof. exact hugr_strict_same. Qed.
Theorem C17_testing_same_documents : SameDocuments published_testing generated_testing.
Proof. exact testing_same. Qed.
Theorem C17_testing_strict_same_documents : SameDocuments published_testing_strict generated_testing_strict.
Proof. exact testing_strict_same. Qed.

(* all eight schemas use only the formalised keywords; discriminator annotations agree with the oneOf/const
   encoding they decorate *)
Theorem C17_schemas_in_formalised_subset : forallb (fun s => supported s s) all_schemas = true.
Proof. exact all_supported. Qed.
Theorem C17_discriminators_consistent : forallb discriminators_ok all_schemas = true.
Proof. exact all_discriminators. Qed.

(* serialization_version(), get_version() of SerialHugr/TestingHugr/Extension/Package, and the
   <prefix>_<version>.json names of the published and of the freshly generated files *)
Theorem version_strings_agree :
  versions_agree_b serialization_version model_versions published_files generated_files = true.
Proof. exact versions. Qed.

(* ---- several schema-defining rebuilds in one process (scripts/generate_schema.py runs ONE order of them) ---- *)

(* proved once, for every start state and every history: after Root._pydantic_rebuild(c) the operation/type classes
   and the root carry c whatever was rebuilt before (another root with an equal configuration included), and
   nothing else changes (model/SchemaSeq.v mirrors tys.model_rebuild over ops_classes + the root) *)
Theorem C17_rebuild_history_independent : forall st0, HistoryIndependent (run_steps st0).
Proof. exact model_history_independent. Qed.
Theorem C17_rebuild_others_untouched : forall st0, OthersUntouched (run_steps st0).
Proof. exact model_others_untouched. Qed.
(* a process that only ever rebuilds one root defines that root's published file, for every history *)
Theorem C17_single_family_history_defines_published : forall pub f h c,
  forallb (fun s => family_eqb (fst s) f) h = true ->
  expected pub (run_steps init (h ++ [(f, c)])%list) f c = pub f c.
Proof. exact expected_single_family. Qed.
(* re-proved on every run: the HUGR files are expected unchanged in every state ... *)
Theorem C17_hugr_file_history_independent : forall st c, expected published st FHugr c = published FHugr c.
Proof. exact hugr_file_history_independent. Qed.
(* ... and the schema written after EVERY step of every history of gen/SchemaOrders.v (each pair alone in a fresh
   process; all 16 ordered pairs as consecutive steps) is the expected file up to norm + schema_equiv, hence
   accepts the same documents *)
Theorem C17_rebuild_orders_define_expected_schemas : forallb (run_ok published init) order_runs = true.
Proof. exact orders_ok. Qed.
Theorem C17_rebuild_orders_same_documents : Forall (RunSame published init) order_runs.
Proof. exact orders_same. Qed.
Theorem C17_rebuild_orders_cover_all_transitions :
  singles_covered (map (map fst) order_runs) && transitions_covered (map (map fst) order_runs) = true.
Proof. exact orders_cover. Qed.

Print Assumptions C17_norm_preserves_validation.
Print Assumptions C17_schema_equiv_preserves_validation.
Print Assumptions C17_same_documents_accepted.
Print Assumptions C17_hugr_same_documents.
Print Assumptions C17_hugr_strict_same_documents.
Print Assumptions C17_testing_same_documents.
Print Assumptions C17_testing_strict_same_documents.
Print Assumptions version_strings_agree.
Print Assumptions C17_rebuild_history_independent.
Print Assumptions C17_single_family_history_defines_published.
Print Assumptions C17_hugr_file_history_independent.
Print Assumptions C17_rebuild_orders_same_documents.
