(* placeholder, replaced by the property-level theorems *)
From HV Require Import model.Graph.
Theorem C04_placeholder : True. Proof. exact I. Qed.
Print Assumptions C04_placeholder.
