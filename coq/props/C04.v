(* C04 — The HUGR graph store agrees with a sequential port-multigraph model.
   Property-level statements only; each is closed by [exact] of a lemma of proofs/GraphP.v / GraphInvP.v.
   h ranges over states of the model of hugr.Hugr (model/Graph.v), g over states of the plain sequential
   specification (spec/GraphS.v); [Inv] is the store invariant (links are a bijection of sub-ports whose
   sub-offsets are an initial segment on every port; free stack = holes, duplicate-free; every link
   endpoint is a live node within its declared port count; children lists partition the live non-root
   nodes) and [Rep h g] says that h and g hold the same node map, the same multiset of links, the same root.

   WHICH index a new node receives is not part of the property (only: live nodes keep their index, a deleted
   node is unreachable).  The model therefore takes that choice as an oracle ([prefer], [bstep_at], [step] of
   model/Graph.v: the oracle is the value the implementation returned, and it is followed when it names an index
   that is not live -- a freed one, the next fresh one, or one further beyond the end of the node table, the
   slots in between becoming free slots); every statement below that involves an allocation is quantified over
   ALL oracles [pick], so it holds for LIFO reuse (hugr-py as written, = no oracle), smallest-first, FIFO, no reuse
   at all, an insertion that numbers its copies in pre-order instead of index order, or any other admissible policy. *)
From Coq Require Import List Bool Arith ZArith Permutation.
Import ListNotations.
From HV Require Import lib.PyDict lib.Harness model.BiMapM model.Graph spec.GraphS proofs.GraphP proofs.GraphInvP
     proofs.InsertP.

Section C04.
  Context {Op Meta : Type}.
  Notation hugr := (hugr Op Meta).
  Notation agraph := (agraph Op Meta).

  (* a fresh Hugr satisfies the invariant and represents the one-node specification state *)
  Theorem C04_init : forall (o : Op) (m : Meta), Inv (init o m) /\ Rep (init o m) (s_init 0 o m).
  Proof. exact init_inv. Qed.

  (* one mutator call inside the property's guard (live node arguments, non-root leaf deletion, offsets >= -1):
     the model returns normally, the value it returns is acceptable to the specification, the invariant is
     kept and the new state represents the specification's new state *)
  Theorem C04_step_refines : forall pick (h : hugr) (g : agraph) c h' rt r, Inv h -> Rep h g ->
    bstep_at pick h c = (h', rt, r) ->
    match s_bstep g c rt with
    | OutOfScope => True
    | Bad => False
    | Next g' => r = Ok /\ Inv h' /\ Rep h' g'
    end.
  Proof. exact bstep_at_refines. Qed.
  (* the instance without a choice: hugr-py as written (the most recently freed index) *)
  Theorem C04_step_refines_lifo : forall (h : hugr) (g : agraph) c h' rt r, Inv h -> Rep h g -> bstep h c = (h', rt, r) ->
    match s_bstep g c rt with
    | OutOfScope => True
    | Bad => False
    | Next g' => r = Ok /\ Inv h' /\ Rep h' g'
    end.
  Proof. exact bstep_refines. Qed.
  (* the oracle only reorders the free indices or grows the table by free slots: invariant, representation and
     every query are insensitive to it, and an admissible choice (a freed index, or one at or beyond the end of the
     table; under the invariant: ANY index that is not live) is the index the next add_node returns *)
  Theorem C04_choice_keeps_invariant_and_state : forall pick (h : hugr) g, Inv h -> Rep h g ->
    Inv (prefer pick h) /\ Rep (prefer pick h) g /\ forall n, get_node (prefer pick h) n = get_node h n.
  Proof. intros pick h g HI HR. split; [exact (Inv_prefer pick h HI)|]. split; [exact (Rep_prefer pick h g HR)|]. exact (prefer_get pick h). Qed.
  Theorem C04_admissible_choice_is_taken : forall (h : hugr) f o p k m, In f (free h) \/ length (nodes h) <= f ->
    snd (fst (add_node_raw (prefer (Some f) h) o p k m)) = f.
  Proof. exact add_node_takes_the_choice. Qed.
  Theorem C04_any_dead_index_is_admissible : forall (h : hugr) f o p k m, Inv h -> get_node h f = None ->
    snd (fst (add_node_raw (prefer (Some f) h) o p k m)) = f.
  Proof. intros h f o p k m (_ & HF & _). exact (add_node_takes_any_dead_index h f o p k m HF). Qed.

  (* store_inv_reachable, in full: after every finite history of add_node / add_const / add_link / add_order_link /
     delete_link / delete_node / insert_hugr calls inside the guard ([guarded]: live node arguments, offsets >= -1,
     non-root leaf deletion, insertion of a HUGR itself built inside the guard under a live parent) every call
     returned normally and the invariant holds (with well-foundedness of the hierarchy) *)
  Theorem C04_store_inv_reachable : forall (o : Op) (m : Meta) (cs : list (cmd Op Meta * ret)),
    guarded (init o m) cs -> Inv (run (init o m) cs) /\ WF (run (init o m) cs).
  Proof. exact store_inv_reachable. Qed.
  Theorem C04_step_inside_guard_returns : forall pick (h : hugr) c, Inv h -> WF h -> guarded1 pick h c ->
    snd (step pick h c) = Ok /\ Inv (fst (fst (step pick h c))) /\ WF (fst (fst (step pick h c))).
  Proof. exact step_inv. Qed.

  (* store_refines_spec, in full: for all finite histories of add_node / add_const / add_link / add_order_link /
     delete_link / delete_node / insert_hugr calls.  [ctrace] pairs every command with the value the model returned,
     [s_run] runs the sequential specification on it; [annot_ok]: an insert_hugr command carries the source's own
     history with the values returned while building it (what the harness records); every command of [cs] comes with
     the oracle for its free-index choices.  Whenever the specification
     accepts the history (every call inside the guard), every call returned normally, the invariant holds and the
     final state represents the specification's final state -- so every query below agrees. *)
  Theorem C04_store_refines_spec : forall (o : Op) (m : Meta) (cs : list (cmd Op Meta * ret)) g',
    Forall annot_ok (map fst cs) ->
    s_run (s_init 0 o m) (ctrace (init o m) cs) = Next g' ->
    Inv (run (init o m) cs) /\ WF (run (init o m) cs) /\ Rep (run (init o m) cs) g'.
  Proof. exact store_refines_spec. Qed.
  (* the specification never rejects a value the model returns (fresh node indices, bijective fresh mappings) *)
  Theorem C04_spec_never_rejects : forall (o : Op) (m : Meta) (cs : list (cmd Op Meta * ret)),
    Forall annot_ok (map fst cs) ->
    s_run (s_init 0 o m) (ctrace (init o m) cs) <> Bad.
  Proof. exact spec_never_rejects. Qed.
  Theorem C04_step_refines_with_insert : forall pick (h : hugr) g c h' rt r, Inv h -> WF h -> Rep h g -> annot_ok c ->
    step pick h c = (h', rt, r) ->
    match s_step g c rt with
    | OutOfScope => True
    | Bad => False
    | Next g' => r = Ok /\ Inv h' /\ WF h' /\ Rep h' g'
    end.
  Proof. exact step_refines. Qed.

  (* every query returns what the specification returns on the represented state *)
  Theorem C04_iter_refines : forall (h : hugr) g, Rep h g -> Permutation (iter_nodes h) (sq_nodes g).
  Proof. exact iter_refines. Qed.
  Theorem C04_len_refines : forall (h : hugr) g, Inv h -> Rep h g -> num_nodes h = length (a_nodes g).
  Proof. exact len_refines. Qed.
  (* lookup / KeyError, operation, parent, ordered children, metadata, port counts *)
  Theorem C04_lookup_refines : forall (h : hugr) g n, Rep h g ->
    option_map anode_of (get_node h n) = dget Nat.eqb (a_nodes g) n.
  Proof. exact get_refines. Qed.
  Theorem C04_links_refine : forall (h : hugr) g, Rep h g -> Permutation (q_links h) (a_links g).
  Proof. exact links_refine. Qed.
  Theorem C04_linked_ports_out_refine : forall (h : hugr) g p, Inv h -> Rep h g ->
    Permutation (linked_out h p) (sq_linked_out g p).
  Proof. exact linked_out_refine. Qed.
  Theorem C04_linked_ports_in_refine : forall (h : hugr) g p, Inv h -> Rep h g ->
    Permutation (linked_in h p) (sq_linked_in g p).
  Proof. exact linked_in_refine. Qed.
  Theorem C04_has_link_refine : forall (h : hugr) g s t, Inv h -> Rep h g -> has_link h s t = s_has_link g s t.
  Proof. exact has_link_refine. Qed.
  Theorem C04_outgoing_order_links_refine : forall (h : hugr) g n, Inv h -> Rep h g ->
    Permutation (outgoing_order_links h n) (map fst (sq_linked_out g (n, (-1)%Z))).
  Proof. exact order_out_refine. Qed.
  Theorem C04_incoming_order_links_refine : forall (h : hugr) g n, Inv h -> Rep h g ->
    Permutation (incoming_order_links h n) (map fst (sq_linked_in g (n, (-1)%Z))).
  Proof. exact order_in_refine. Qed.
  (* outgoing_links / incoming_links: KeyError iff dead; one entry per declared port (unless the HUGR has no
     link at all: the quirk the property does not speak about), each entry the specification's multiset *)
  Theorem C04_outgoing_links_refine : forall (h : hugr) g n, Inv h -> Rep h g ->
    match outgoing_links h n, sq_outgoing g n with
    | Some L, Some L' =>
        (fwd (links h) <> [] -> map fst L = map fst L') /\
        forall p l, In (p, l) L -> exists l', In (p, l') L' /\ Permutation l l'
    | None, None => True
    | _, _ => False
    end.
  Proof. exact outgoing_refine. Qed.
  Theorem C04_incoming_links_refine : forall (h : hugr) g n, Inv h -> Rep h g ->
    match incoming_links h n, sq_incoming g n with
    | Some L, Some L' =>
        (bck (links h) <> [] -> map fst L = map fst L') /\
        forall p l, In (p, l) L -> exists l', In (p, l') L' /\ Permutation l l'
    | None, None => True
    | _, _ => False
    end.
  Proof. exact incoming_refine. Qed.

  (* the corollaries named in the property text *)
  Theorem C04_live_nodes_keep_index : forall pick (h : hugr) g c h' rt r g' n d, Inv h -> Rep h g ->
    bstep_at pick h c = (h', rt, r) -> s_bstep g c rt = Next g' -> get_node h n = Some d -> c <> DelNode n ->
    exists d', get_node h' n = Some d' /\ nd_op d' = nd_op d /\ nd_parent d' = nd_parent d /\ nd_meta d' = nd_meta d /\
               (nd_inps d <= nd_inps d')%Z /\ (nd_outs d <= nd_outs d')%Z.
  Proof. exact live_nodes_keep_index_at. Qed.
  Theorem C04_deleted_node_unreachable_and_unmentioned : forall (h : hugr) g n a, Inv h -> Rep h g ->
    dget Nat.eqb (a_nodes g) n = Some a -> a_children a = [] -> n <> a_root g ->
    exists h', delete_node h n = (h', Ok) /\ get_node h' n = None /\ ~ In n (iter_nodes h') /\
               forall l, In l (q_links h') -> touches n l = false.
  Proof. exact deleted_node_unreachable_and_unmentioned. Qed.
  Theorem C04_added_link_reported_once_from_both_ends : forall (h : hugr) g s t, Inv h -> Rep h g ->
    port_ok g s = true -> port_ok g t = true ->
    exists h', add_link h s t = (h', Ok) /\
      Permutation (q_links h') ((s, t) :: q_links h) /\
      (forall p, Permutation (linked_out h' p) ((if port_eqb s p then [t] else []) ++ linked_out h p)) /\
      (forall p, Permutation (linked_in h' p) ((if port_eqb t p then [s] else []) ++ linked_in h p)).
  Proof. exact added_link_reported_once_from_both_ends. Qed.
  Theorem C04_delete_link_removes_exactly_one : forall (h : hugr) s t, Inv h ->
    exists h', delete_link h s t = (h', Ok) /\
      ((In (s, t) (q_links h) /\ Permutation (q_links h) ((s, t) :: q_links h')) \/
       (~ In (s, t) (q_links h) /\ q_links h' = q_links h)).
  Proof. exact delete_link_removes_exactly_one. Qed.
  Theorem C04_port_count_lower_bounds : forall (h : hugr) s t, Inv h -> In (s, t) (q_links h) ->
    (exists k, num_out_ports h (fst s) = Some k /\ (snd s + 1 <= k)%Z) /\
    (exists k, num_in_ports h (fst t) = Some k /\ (snd t + 1 <= k)%Z).
  Proof. exact port_count_lower_bounds. Qed.
  Theorem C04_port_count_at_creation : forall pick (h : hugr) g o parent k m, Inv h -> Rep h g ->
    a_live g (dflt g parent) = true ->
    exists h' n, add_node (prefer pick h) o parent k m = (h', n, Ok) /\ num_out_ports h' n = Some (zdflt k) /\
                 q_parent h' n = Some (Some (dflt g parent)) /\ get_node h n = None.
  Proof. exact port_count_at_creation_at. Qed.
End C04.

(* the link loops never run out of fuel (the outcome EFuel of the model is unreachable under the invariant) *)
Theorem C04_delete_sub_link_total : forall (b : lmap) s t, LInv b -> dget sub_eqb (fwd b) s = Some t ->
  exists b', delete_sub_link b s = (b', Ok) /\ LInv b' /\ Permutation (lm_links b) ((fst s, fst t) :: lm_links b').
Proof. exact delete_sub_link_ok. Qed.
Theorem C04_add_link_total : forall (b : lmap) src dst, LInv b ->
  exists b', lm_add b src dst = Some b' /\ LInv b' /\ lm_links b' = lm_links b ++ [(src, dst)].
Proof. exact lm_add_ok. Qed.

(* non-vacuity: the guard of the history theorem holds of a history with a three-way fan-out, a deletion in its
   middle (D4), a node deletion inside it (D5), order links (D6) and index reuse -- once without choices (the most
   recently freed index 3 is reused) and once with the OTHER free index chosen
   (4 instead of 3), which the later commands then refer to *)
Definition ex_prefix : list (bcmd nat nat) :=
  [AddNode 1 None None 0; AddNode 1 None (Some 2%Z) 0; AddNode 1 None None 0; AddNode 1 (Some 1) None 0;
   AddLink (1, 0%Z) (2, 0%Z); AddLink (1, 0%Z) (3, 0%Z); AddLink (1, 0%Z) (4, 1%Z); AddOrder 2 3;
   DelLink (1, 0%Z) (3, 0%Z); AddLink (1, 0%Z) (3, 0%Z); DelNode 4; DelNode 3].
Definition ex_history : list (bcmd nat nat) := ex_prefix ++ [AddNode 2 (Some 2) None 0; AddLink (3, 0%Z) (2, 0%Z)].
Definition no_choice {X} (l : list X) : list (X * @ret) := map (fun c => (c, RUnit)) l.
Definition ex_source : list (bcmd nat nat) :=
  [AddNode 1 None None 0; AddNode 1 None None 0; DelNode 1; AddNode 2 (Some 2) (Some 1%Z) 0;
   AddLink (1, 0%Z) (2, 0%Z); AddLink (1, 0%Z) (2, 0%Z); AddOrder 2 1].
Definition ex_full : list (cmd nat nat * ret) :=
  no_choice (map (@Basic nat nat) ex_history ++
  [Insert 5 0 0 (trace_at (init 5 0) (no_choice ex_source)) (Some 2); Basic (AddLink (1, 0%Z) (6, 1%Z)); Basic (DelNode 3)]).
(* the same calls when the implementation hands out index 4 (not the most recently freed 3) and copies the inserted
   HUGR onto 3, 6, 5 *)
Definition ex_full_choice : list (cmd nat nat * ret) :=
  no_choice (map (@Basic nat nat) ex_prefix) ++
  [(Basic (AddNode 2 (Some 2) None 0), RNode 4); (Basic (AddLink (4, 0%Z) (2, 0%Z)), RUnit);
   (Insert 5 0 0 (trace_at (init 5 0) (no_choice ex_source)) (Some 2), RMap [(0, 3); (1, 6); (2, 5)]);
   (Basic (AddLink (1, 0%Z) (6, 1%Z)), RUnit); (Basic (DelNode 4), RUnit)].
Example C04_premises_satisfiable :
  Forall annot_ok (map fst ex_full) /\
  exists g', s_run (s_init 0 0 0) (ctrace (init 0 0) ex_full) = Next g' /\ length (a_links g') = 5 /\ length (a_nodes g') = 6.
Proof.
  split.
  - unfold ex_full, no_choice. rewrite map_map. cbn [fst]. rewrite map_id. apply Forall_app. split; [apply Forall_forall; intros c Hc; apply in_map_iff in Hc; destruct Hc as (b & <- & _); exact I|].
    repeat constructor.
  - eexists. split; [vm_compute; reflexivity|]. split; vm_compute; reflexivity.
Qed.
Example C04_premises_satisfiable_with_other_choices :
  Forall annot_ok (map fst ex_full_choice) /\
  (* the choices are followed: the new node is 4, the copies are 3, 5, 6 *)
  map snd (ctrace (init 0 0) ex_full_choice) =
    [RNode 1; RNode 2; RNode 3; RNode 4; RUnit; RUnit; RUnit; RUnit; RUnit; RUnit; RUnit; RUnit; RNode 4; RUnit;
     RMap [(0, 3); (2, 5); (1, 6)]; RUnit; RUnit] /\
  exists g', s_run (s_init 0 0 0) (ctrace (init 0 0) ex_full_choice) = Next g' /\ length (a_links g') = 5 /\ length (a_nodes g') = 6.
Proof.
  split; [|split].
  - unfold ex_full_choice, no_choice. rewrite map_app, map_map. cbn [fst]. rewrite map_id. apply Forall_app. split; [apply Forall_forall; intros c Hc; apply in_map_iff in Hc; destruct Hc as (b & <- & _); exact I|].
    repeat constructor.
  - vm_compute. reflexivity.
  - eexists. split; [vm_compute; reflexivity|]. split; vm_compute; reflexivity.
Qed.
(* the same when the inserted HUGR root{a{c}, b} (built as a, b, c) is copied in PRE-ORDER (a, c, b take the fresh indices
   in that order: the mapping is {0:4, 1:5, 3:6, 2:7} where index order gives {0:4, 1:5, 2:6, 3:7}) into a target that
   did not reuse its freed index 1 either: the model follows both choices, the specification accepts *)
Definition ex_preorder : list (cmd nat nat * ret) :=
  [(Basic (AddNode 1 None None 0), RNode 1); (Basic (AddNode 1 None None 0), RNode 2); (Basic (DelNode 1), RUnit);
   (Basic (AddNode 1 None None 0), RNode 3);
   (Insert 5 0 0 (trace_at (init 5 0) (no_choice [AddNode 1 None None 0; AddNode 2 None None 0; AddNode 3 (Some 1) None 0]))
           (Some 2), RMap [(0, 4); (1, 5); (3, 6); (2, 7)]);
   (Basic (AddLink (6, 0%Z) (7, 0%Z)), RUnit); (Basic (AddNode 1 (Some 7) None 0), RNode 1)].
Example C04_premises_satisfiable_with_fresh_indices_in_another_order :
  Forall annot_ok (map fst ex_preorder) /\
  map snd (ctrace (init 0 0) ex_preorder) =
    [RNode 1; RNode 2; RUnit; RNode 3; RMap [(0, 4); (1, 5); (2, 7); (3, 6)]; RUnit; RNode 1] /\
  exists g', s_run (s_init 0 0 0) (ctrace (init 0 0) ex_preorder) = Next g' /\ length (a_links g') = 1 /\ length (a_nodes g') = 8 /\
    option_map (@a_children nat nat) (dget Nat.eqb (a_nodes g') 4) = Some [5; 7] /\
    option_map (@a_children nat nat) (dget Nat.eqb (a_nodes g') 5) = Some [6].
Proof.
  split; [|split].
  - repeat constructor.
  - vm_compute. reflexivity.
  - eexists. split; [vm_compute; reflexivity|]. repeat split; vm_compute; reflexivity.
Qed.

Print Assumptions C04_init.
Print Assumptions C04_store_inv_reachable.
Print Assumptions C04_step_inside_guard_returns.
Print Assumptions C04_step_refines.
Print Assumptions C04_step_refines_lifo.
Print Assumptions C04_choice_keeps_invariant_and_state.
Print Assumptions C04_admissible_choice_is_taken.
Print Assumptions C04_any_dead_index_is_admissible.
Print Assumptions C04_store_refines_spec.
Print Assumptions C04_spec_never_rejects.
Print Assumptions C04_step_refines_with_insert.
Print Assumptions C04_iter_refines.
Print Assumptions C04_len_refines.
Print Assumptions C04_lookup_refines.
Print Assumptions C04_links_refine.
Print Assumptions C04_linked_ports_out_refine.
Print Assumptions C04_linked_ports_in_refine.
Print Assumptions C04_has_link_refine.
Print Assumptions C04_outgoing_links_refine.
Print Assumptions C04_incoming_links_refine.
Print Assumptions C04_live_nodes_keep_index.
Print Assumptions C04_deleted_node_unreachable_and_unmentioned.
Print Assumptions C04_added_link_reported_once_from_both_ends.
Print Assumptions C04_delete_link_removes_exactly_one.
Print Assumptions C04_port_count_lower_bounds.
Print Assumptions C04_port_count_at_creation.
Print Assumptions C04_delete_sub_link_total.
Print Assumptions C04_premises_satisfiable_with_fresh_indices_in_another_order.
