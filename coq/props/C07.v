(* C07 — a type is reported copyable only if all of its constituents are. *)
From Coq Require Import NArith List Bool Arith.
Import ListNotations.
From HV Require Import lib.Harness model.Types spec.TypesS gen.StdBounds proofs.TypesP.
From HV Require Import model.TypesSame spec.TypesSameS proofs.TypesSameP.

(* The bound computed by type_bound() (for every class, including the std subclasses' overrides when they
   are used with the definitions they belong to: classes_ok) is Copyable exactly when every value of the
   type can be copied (spec.TypesS.Copy: sums by all elements of all rows, functions copyable, qubit not,
   variables/aliases/opaque by declared bound, extension types by explicit bound or by the type arguments
   at the definition's indices).  Guard: type_bound() returns (it raises only on ill-formed index lists). *)
Theorem C07_bound_copyable_iff : forall t, classes_ok t = true -> tbound t <> None ->
  (tbound t = Some Copyable <-> Copy t).
Proof. exact bound_copyable_iff. Qed.

(* ... and it does return on every type whose index lists are in range (hereditarily) *)
Theorem C07_wellformed_types_have_a_bound : forall t, wf_b t = true -> tbound t <> None.
Proof. exact wf_total. Qed.

(* the boolean specification the monitor evaluates is the inductive one *)
Theorem C07_copy_b_reflects : forall t, copy_b t = true <-> Copy t.
Proof. exact copy_b_spec. Qed.

(* TypeBound.join is the least upper bound in Copyable <= Any *)
Theorem C07_join_is_lub : forall bs, is_lub bs (join bs).
Proof. exact join_is_lub. Qed.

Theorem C07_join_copyable_iff_all : forall bs, join bs = Copyable <-> Forall (eq Copyable) bs.
Proof. exact join_copyable_iff. Qed.

(* sums (and the Tuple/Option/Either sugar, which are sums) take the join of their element bounds *)
Theorem C07_sum_bound_is_join_of_elements : forall rs bs, rows_bounds rs = Some bs ->
  tbound (TSum rs) = Some (join bs) /\ is_lub bs (join bs) /\
  Forall2 (fun t b => tbound t = Some b) (concat rs) bs.
Proof. exact sum_bound_is_join_of_elements. Qed.

Theorem C07_empty_sum_copyable :
  tbound (TSum []) = Some Copyable /\ (forall n, tbound (TUnitSum n) = Some Copyable) /\
  (forall rs, Forall (eq []) rs -> tbound (TSum rs) = Some Copyable).
Proof. exact empty_sum_copyable. Qed.

(* the bound written by _to_opaque / into every serial Opaque record is the computed one *)
Theorem C07_serialized_bound_is_computed :
  (forall t e id a b, to_opaque t = Some (TOpaque e id a b) -> tbound t = Some b /\ tbound (TOpaque e id a b) = Some b) /\
  (forall t bs, ser_bounds t = Some bs -> Forall2 (fun u b => tbound u = Some b) (ser_exts t) bs) /\
  (forall d a c b, ser_bounds (TExt d a c) = Some b -> hd_error b = tbound (TExt d a c)).
Proof. exact serialized_bound_is_computed. Qed.

(* Array / List / StaticArray: the overrides equal the generic computation for the bound specifications
   regenerated from the JSON definition files (both locations) on this run *)
Theorem C07_std_overrides_agree :
  (forall d n elem, In (td_bound d) [std_array_bound_py; std_array_bound_spec] ->
     tbound (TExt d [n; AType elem] (ElemAt 1)) = tbound (TExt d [n; AType elem] Generic)) /\
  (forall d elem, In (td_bound d) [std_list_bound_py; std_list_bound_spec] ->
     tbound (TExt d [AType elem] (ElemAt 0)) = tbound (TExt d [AType elem] Generic)) /\
  (forall d elem, In (td_bound d) [std_static_array_bound_py; std_static_array_bound_spec] ->
     static_array_accepts elem = Some true ->
     tbound (TExt d [AType elem] (ElemAt 0)) = tbound (TExt d [AType elem] Generic)) /\
  (Forall (fun ps => exists b, nth_error ps 1 = Some (PType b)) [std_array_params_py; std_array_params_spec] /\
   Forall (fun ps => exists b, nth_error ps 0 = Some (PType b)) [std_list_params_py; std_list_params_spec] /\
   Forall (fun ps => nth_error ps 0 = Some (PType Copyable)) [std_static_array_params_py; std_static_array_params_spec]).
Proof. exact std_overrides_agree. Qed.

(* the container that requires copyable elements rejects exactly the linear ones *)
Theorem C07_static_array_rejects_iff_linear : forall elem,
  (forall b, tbound elem = Some b -> (static_array_accepts elem = Some false <-> b = Any)) /\
  (classes_ok elem = true -> tbound elem <> None -> (static_array_accepts elem = Some true <-> Copy elem)) /\
  (static_array_accepts elem = None <-> tbound elem = None).
Proof. exact static_array_rejects_iff_linear. Qed.

(* ---- the reported bound survives every operation that hands the same type back (model/TypesSame.v:
   Type.resolve / TypeArg.resolve, copy.copy / copy.deepcopy / dataclasses.replace, _to_serial().deserialize();
   spec/TypesSameS.v: same_b) ---- *)

(* resolving against a registry that knows none of the type's opaque types (extension absent, or present
   without the type) hands back the very same type: every declared bound -- so the reported bound and every
   serialised bound -- is what it was *)
Theorem C07_unresolved_type_is_the_same : forall reg t, unknown_b reg t = true ->
  resolve_ty reg t = t /\ tbound (resolve_ty reg t) = tbound t /\ ser_bounds (resolve_ty reg t) = ser_bounds t.
Proof. exact resolve_unknown_same. Qed.

(* against any registry built through the public API, the only change is opaque type -> extension type of the
   same extension and name; variables, aliases and whatever stays opaque keep their declared bounds, at any depth *)
Theorem C07_resolve_keeps_declared_bounds : forall reg t, reg_wf_b reg = true ->
  same_b Resolved t (resolve_ty reg t) = true.
Proof. exact resolve_keeps_declared. Qed.

(* a type written and read back reports the bound the original reports; the document written from it carries,
   record by record, the bounds of the original's; the only structural change is extension type -> opaque type
   of its definition's extension and name.  The round trip succeeds on every well-formed type. *)
Theorem C07_roundtrip_keeps_bounds : forall t t', rt_ty t = Some t' ->
  tbound t' = tbound t /\ ser_bounds t' = ser_bounds t /\ same_b Serial t t' = true.
Proof. exact roundtrip_keeps_bounds. Qed.
Theorem C07_roundtrip_total : forall t, wf_b t = true -> rt_ty t <> None.
Proof. exact roundtrip_total. Qed.

(* the relation the monitor demands of copies (and of unresolved types) is equality of types *)
Theorem C07_same_exact_is_equality : forall t t', same_b Exact t t' = true <-> t = t'.
Proof. exact same_exact_iff. Qed.

Print Assumptions C07_bound_copyable_iff.
Print Assumptions C07_wellformed_types_have_a_bound.
Print Assumptions C07_copy_b_reflects.
Print Assumptions C07_join_is_lub.
Print Assumptions C07_join_copyable_iff_all.
Print Assumptions C07_sum_bound_is_join_of_elements.
Print Assumptions C07_empty_sum_copyable.
Print Assumptions C07_serialized_bound_is_computed.
Print Assumptions C07_std_overrides_agree.
Print Assumptions C07_static_array_rejects_iff_linear.
Print Assumptions C07_unresolved_type_is_the_same.
Print Assumptions C07_resolve_keeps_declared_bounds.
Print Assumptions C07_roundtrip_keeps_bounds.
Print Assumptions C07_roundtrip_total.
Print Assumptions C07_same_exact_is_equality.
