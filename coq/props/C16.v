(* C16 — Node handles enumerate exactly their operation's value outputs.
   Property-level statements; every one is for all n >= 0 and all integers (unbounded Z). *)
From Coq Require Import ZArith List Bool.
Import ListNotations.
From HV Require Import model.NodeIndex spec.NodeIndexS proofs.NodeIndexP.
Open Scope Z_scope.

(* iterating a handle with n known outputs yields offsets 0 .. n-1 in order *)
Theorem C16_iter_yields_all_in_order : forall n, 0 <= n ->
  iter_node (Some n) = Ok (map Z.of_nat (seq 0 (Z.to_nat n))).
Proof. exact iter_in_order. Qed.

(* integer indexing = Python's: accepts -n .. n-1, IndexError outside *)
Theorem C16_int_index_python : forall n i, 0 <= n -> index_int (Some n) i = py_index n i.
Proof. exact int_index_python. Qed.

(* slicing with a positive step = range(n)[start:stop:step], clamping positive overflow,
   IndexError for a bound below -n *)
Theorem C16_slice_python : forall n start stop step, 0 <= n ->
  match step with None => True | Some s => 0 < s end ->
  index_slice (Some n) start stop step = slice_spec n start stop step.
Proof. exact slice_python. Qed.

(* the same, read pointwise: membership in range(n)[start:stop:step] *)
Theorem C16_slice_members : forall n start stop step j, 0 <= n ->
  match step with None => True | Some s => 0 < s end ->
  below n start = false -> below n stop = false ->
  exists l, index_slice (Some n) start stop step = Ok l /\ (In j l <-> in_py_slice n start stop step j).
Proof. exact slice_members. Qed.

Theorem C16_tuple_index_python : forall n xs, 0 <= n -> index_tuple (Some n) xs = mapM (py_index n) xs.
Proof. exact tuple_index_python. Qed.

(* unknown count: non-negative integers work, iteration raises ValueError *)
Theorem C16_unknown_count_index : forall i, index_int None i = if i <? 0 then Err IndexError else Ok i.
Proof. exact int_index_unknown. Qed.
Theorem C16_unknown_count_iter : iter_node None = Err ValueError.
Proof. exact iter_unknown. Qed.

(* ports compare by node index, offset and direction only; a node as a wire is its output 0 *)
Theorem C16_port_eq : forall a b, reflect (a = b) (port_eqb a b).
Proof. exact port_eqb_spec. Qed.
Theorem C16_node_as_wire_is_out0 : forall idx, out_port_of_node idx = (idx, 0, false).
Proof. reflexivity. Qed.

(* handles returned by builders know their count: for every operation shape whose outputs are determined
   (guard shape_wf: counts are lengths and the instantiation handed to `call` is the substitution instance of
   the polymorphic body), the count the builder writes on the handle is the number of value outputs of the
   operation's signature; hence iteration and integer indexing on that handle are Python's on range(n) *)
Theorem C16_builder_handles_know_count : forall s, shape_wf s = true ->
  exists n, 0 <= n /\ value_outputs s = Some n /\ builder_count s = Some n.
Proof. exact builder_count_spec. Qed.
Theorem C16_builder_handle_iter : forall s, shape_wf s = true ->
  exists n, value_outputs s = Some n /\ iter_node (builder_count s) = Ok (map Z.of_nat (seq 0 (Z.to_nat n))).
Proof. exact builder_handle_iter. Qed.
Theorem C16_builder_handle_index : forall s i, shape_wf s = true ->
  exists n, value_outputs s = Some n /\ index_int (builder_count s) i = py_index n i.
Proof. exact builder_handle_index. Qed.
(* the instantiated output row: without row variables the arity of the body is kept; a row variable counts as
   many outputs as its sequence argument holds (more or fewer than the body's row) *)
Theorem C16_inst_len_no_rows : forall args row,
  (forall it, In it row -> item_len args it = Some 1) -> inst_len args row = Some (Z.of_nat (length row)).
Proof. exact inst_len_no_rows. Qed.
Theorem C16_inst_len_app : forall args r1 r2,
  inst_len args (r1 ++ r2) =
  match inst_len args r1, inst_len args r2 with Some a, Some b => Some (a + b) | _, _ => None end.
Proof. exact inst_len_app. Qed.
Theorem C16_inst_len_row : forall args i len,
  nth_error args i = Some (ASeq len) -> inst_len args [RRow i] = Some (Z.of_nat len).
Proof. exact inst_len_row. Qed.
(* non-vacuity: forall [R]. Bool,R -> R,Bool called with R := 3 types has 4 value outputs, with R := [] one *)
Example C16_example_call :
  shape_wf (SCall [RRow 0; RTy] [ASeq 3] 4) = true /\ value_outputs (SCall [RRow 0; RTy] [ASeq 3] 4) = Some 4 /\
  shape_wf (SCall [RRow 0; RTy] [ASeq 0] 1) = true /\ value_outputs (SCall [RRow 0; RTy] [ASeq 0] 1) = Some 1 /\
  shape_wf (SCall [RRow 0; RTy] [ASeq 3] 2) = false.
Proof. repeat split; reflexivity. Qed.

(* ONE operation object used for several nodes (a module-level `UNPACK = ops.UnpackTuple()`, the same op in two
   commands of one `extend`, an op constructed with types that the wiring overrides): model reuse_count threads
   the mutable object through the uses as dfg.py does (_set_in_types by _wire_up, then op.num_out).  For every
   initial state of the object and every list of uses that fit its kind (guard use_wf), the handle of use j
   carries the number of value outputs of the operation as wired in use j (spec use_outputs, which does not see
   the object's history): the count AFTER the wiring; hence iteration / integer indexing on it are Python's *)
Theorem C16_reused_op_handle_knows_count : forall o uses j ws,
  Forall (fun ws => use_wf (kind_of o) ws = true) uses -> nth_error uses j = Some ws ->
  exists n, 0 <= n /\ use_outputs (kind_of o) ws = Some n /\ reuse_count o uses j = Some n.
Proof. exact reused_op_handle_count. Qed.
Theorem C16_reused_op_handle_iter : forall o uses j ws,
  Forall (fun ws => use_wf (kind_of o) ws = true) uses -> nth_error uses j = Some ws ->
  exists n, use_outputs (kind_of o) ws = Some n /\
            iter_node (reuse_count o uses j) = Ok (map Z.of_nat (seq 0 (Z.to_nat n))).
Proof. exact reused_op_handle_iter. Qed.
Theorem C16_reused_op_handle_index : forall o uses j ws i,
  Forall (fun ws => use_wf (kind_of o) ws = true) uses -> nth_error uses j = Some ws ->
  exists n, use_outputs (kind_of o) ws = Some n /\ index_int (reuse_count o uses j) i = py_index n i.
Proof. exact reused_op_handle_index. Qed.
(* ... and does not depend on how the object was constructed or what it was used for before *)
Theorem C16_reused_op_count_history_free : forall o1 o2 pre1 pre2 ws,
  kind_of o1 = kind_of o2 ->
  Forall (fun ws => use_wf (kind_of o1) ws = true) (pre1 ++ [ws]) ->
  Forall (fun ws => use_wf (kind_of o2) ws = true) (pre2 ++ [ws]) ->
  reuse_count o1 (pre1 ++ [ws]) (length pre1) = reuse_count o2 (pre2 ++ [ws]) (length pre2).
Proof. exact reused_op_count_history_free. Qed.
(* non-vacuity: UNPACK used for a pair then a triple; a CallIndirect constructed for 2 results wired to a function
   value with none.  Reading the count BEFORE the wiring (obj_num_out of the incoming object) would give 2, 2 *)
Example C16_example_reuse :
  reuse_counts (OUnpack None) [[WTup 2]; [WTup 3]] = Ok [2; 3] /\
  obj_num_out (OUnpack (Some 2)) = Ok 2 /\ use_outputs KUnpack [WTup 3] = Some 3 /\
  reuse_count (OCallInd (Some 2)) [[WFn 0 0]] 0 = Some 0 /\ use_outputs KCallInd [WFn 0 0] = Some 0 /\
  use_wf KUnpack [WTup 3] = true /\ use_wf KUnpack [WVal] = false /\ use_wf KCallInd [WFn 1 2] = false.
Proof. repeat split; reflexivity. Qed.

(* non-vacuity / sanity: a concrete slice with overflow and a negative bound *)
Example C16_example : index_slice (Some 5) (Some (-2)) (Some 99) (Some 2) = Ok [3] /\
                      index_slice (Some 5) (Some (-6)) None None = Err IndexError.
Proof. split; reflexivity. Qed.

Print Assumptions C16_iter_yields_all_in_order.
Print Assumptions C16_int_index_python.
Print Assumptions C16_slice_python.
Print Assumptions C16_slice_members.
Print Assumptions C16_tuple_index_python.
Print Assumptions C16_builder_handles_know_count.
Print Assumptions C16_builder_handle_iter.
Print Assumptions C16_builder_handle_index.
Print Assumptions C16_inst_len_no_rows.
Print Assumptions C16_inst_len_app.
Print Assumptions C16_inst_len_row.
Print Assumptions C16_reused_op_handle_knows_count.
Print Assumptions C16_reused_op_handle_iter.
Print Assumptions C16_reused_op_handle_index.
Print Assumptions C16_reused_op_count_history_free.
