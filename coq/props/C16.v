(* C16 — Node handles enumerate exactly their operation's value outputs.
   Property-level statements; every one is for all n >= 0 and all integers (unbounded Z). *)
From Coq Require Import ZArith List Bool.
Import ListNotations.
From HV Require Import model.NodeIndex spec.NodeIndexS proofs.NodeIndexP.
Open Scope Z_scope.

(* iterating a handle with n known outputs yields offsets 0 .. n-1 in order *)
Theorem C16_iter_yields_all_in_order : forall n, 0 <= n ->
  iter_node (Some n) = Ok (map Z.of_nat (seq 0 (Z.to_nat n))).
Proof. exact iter_in_order. Qed.

(* integer indexing = Python's: accepts -n .. n-1, IndexError outside *)
Theorem C16_int_index_python : forall n i, 0 <= n -> index_int (Some n) i = py_index n i.
Proof. exact int_index_python. Qed.

(* slicing with a positive step = range(n)[start:stop:step], clamping positive overflow,
   IndexError for a bound below -n *)
Theorem C16_slice_python : forall n start stop step, 0 <= n ->
  match step with None => True | Some s => 0 < s end ->
  index_slice (Some n) start stop step = slice_spec n start stop step.
Proof. exact slice_python. Qed.

(* the same, read pointwise: membership in range(n)[start:stop:step] *)
Theorem C16_slice_members : forall n start stop step j, 0 <= n ->
  match step with None => True | Some s => 0 < s end ->
  below n start = false -> below n stop = false ->
  exists l, index_slice (Some n) start stop step = Ok l /\ (In j l <-> in_py_slice n start stop step j).
Proof. exact slice_members. Qed.

Theorem C16_tuple_index_python : forall n xs, 0 <= n -> index_tuple (Some n) xs = mapM (py_index n) xs.
Proof. exact tuple_index_python. Qed.

(* unknown count: non-negative integers work, iteration raises ValueError *)
Theorem C16_unknown_count_index : forall i, index_int None i = if i <? 0 then Err IndexError else Ok i.
Proof. exact int_index_unknown. Qed.
Theorem C16_unknown_count_iter : iter_node None = Err ValueError.
Proof. exact iter_unknown. Qed.

(* ports compare by node index, offset and direction only; a node as a wire is its output 0 *)
Theorem C16_port_eq : forall a b, reflect (a = b) (port_eqb a b).
Proof. exact port_eqb_spec. Qed.
Theorem C16_node_as_wire_is_out0 : forall idx, out_port_of_node idx = (idx, 0, false).
Proof. reflexivity. Qed.

(* non-vacuity / sanity: a concrete slice with overflow and a negative bound *)
Example C16_example : index_slice (Some 5) (Some (-2)) (Some 99) (Some 2) = Ok [3] /\
                      index_slice (Some 5) (Some (-6)) None None = Err IndexError.
Proof. split; reflexivity. Qed.

Print Assumptions C16_iter_yields_all_in_order.
Print Assumptions C16_int_index_python.
Print Assumptions C16_slice_python.
Print Assumptions C16_slice_members.
Print Assumptions C16_tuple_index_python.
