(* C18 — The bidirectional map stays a bijection under every operation sequence.
   Property-level statements only; each is closed by [exact] of a lemma of proofs/BiMapP.v. *)
From Coq Require Import List Bool Arith ZArith.
Import ListNotations.
From HV Require Import lib.PyDict lib.Harness model.BiMapM spec.BiMapS proofs.BiMapP
  model.BiMapHeap spec.BiMapWorldS proofs.BiMapHeapP.

Section C18.
  Context {L R : Type} (leqb : L -> L -> bool) (reqb : R -> R -> bool).
  Hypothesis leqb_spec : forall a b, reflect (a = b) (leqb a b).
  Hypothesis reqb_spec : forall a b, reflect (a = b) (reqb a b).

  (* forward and backward views are exact inverses after every history from any accepted constructor argument *)
  Theorem C18_bijection_reachable : forall (m : list (L * R)) b ops,
    NoDup (map fst m) -> init reqb m = Some b -> Bij leqb reqb (run leqb reqb b ops).
  Proof. exact (bij_reachable leqb reqb leqb_spec reqb_spec). Qed.

  (* the history behaves like the plain list of live pairs, state and outcome (KeyError iff absent) *)
  Theorem C18_refines_live_pairs : forall (m : list (L * R)) b ops,
    NoDup (map fst m) -> init reqb m = Some b ->
    Rep leqb reqb (run leqb reqb b ops) (a_run leqb reqb m ops).
  Proof.
    intros m b ops Hk Hi. apply (run_refines leqb reqb leqb_spec reqb_spec).
    exact (init_rep leqb reqb leqb_spec reqb_spec m b Hk Hi).
  Qed.
  Theorem C18_step_refines : forall b p o, Rep leqb reqb b p ->
    Rep leqb reqb (fst (step leqb reqb b o)) (fst (a_step leqb reqb p o)) /\
    snd (step leqb reqb b o) = snd (a_step leqb reqb p o).
  Proof. exact (rep_step leqb reqb leqb_spec reqb_spec). Qed.

  Theorem C18_insert_displaces_exactly : forall b k v k' v', Bij leqb reqb b ->
    (get_right leqb (insert_left leqb reqb b k v) k' = Some v' <->
     (k' = k /\ v' = v) \/ (k' <> k /\ v' <> v /\ get_right leqb b k' = Some v')).
  Proof. intros b k v k' v' HB. exact (ins_fwd_get leqb reqb leqb_spec b k v HB k' v'). Qed.

  Theorem C18_lookups_agree : forall b k v, Bij leqb reqb b ->
    (get_right leqb b k = Some v <-> get_left reqb b v = Some k).
  Proof. exact (lookups_agree leqb reqb). Qed.

  (* inserting a pair that is already live displaces nothing: every lookup from either side is as before *)
  Theorem C18_reinsert_live_pair_is_identity : forall b k v, Bij leqb reqb b -> get_right leqb b k = Some v ->
    forall k' v',
      (get_right leqb (insert_left leqb reqb b k v) k' = Some v' <-> get_right leqb b k' = Some v') /\
      (get_left reqb (insert_left leqb reqb b k v) v' = Some k' <-> get_left reqb b v' = Some k').
  Proof. exact (reinsert_live_pair leqb reqb leqb_spec reqb_spec). Qed.

  Theorem C18_len_iter_items : forall b, Bij leqb reqb b ->
    len b = length (items b) /\ iter b = map fst (items b) /\ NoDup (iter b) /\ NoDup (map snd (items b)).
  Proof. exact (len_iter_items leqb reqb leqb_spec). Qed.

  Theorem C18_items_are_live_pairs : forall b p, Rep leqb reqb b p -> forall kv, In kv (items b) <-> In kv p.
  Proof. exact (rep_items leqb reqb leqb_spec). Qed.

  Theorem C18_init_rejects_iff_not_injective : forall m : list (L * R),
    init reqb m = None <-> ~ NoDup (map snd m).
  Proof. exact (init_rejects_iff reqb reqb_spec). Qed.
  (* ---- several maps and the caller's seed mappings in one heap of dict objects (model/BiMapHeap.v):
          every map owns its state ("construction from a mapping" copies) ---- *)

  (* any history of constructions (from nothing, from a seed mapping, from another map), mutators on any map
     and writes of the caller to the seed mappings behaves like the value-level world in which each step
     changes only the component it addresses; in particular every map variable represents its own live pairs *)
  Theorem C18_world_refines : forall (seeds : list (list (L * R))) nm ops,
    Forall (fun m => NoDup (map fst m)) seeds ->
    WRep leqb reqb (wrun leqb reqb (world0 seeds nm) ops) (a_wrun leqb reqb (aworld0 seeds nm) ops).
  Proof. exact (world_reachable leqb reqb leqb_spec reqb_spec). Qed.
  Theorem C18_world_step_refines : forall w aw o, WRep leqb reqb w aw ->
    WRep leqb reqb (fst (wstep leqb reqb w o)) (fst (a_wstep leqb reqb aw o)) /\
    snd (wstep leqb reqb w o) = snd (a_wstep leqb reqb aw o).
  Proof. exact (wstep_refines leqb reqb leqb_spec reqb_spec). Qed.

  (* every map variable of every reachable world is a bijection, whatever was done to the seeds and to the other maps *)
  Theorem C18_world_bijection : forall (seeds : list (list (L * R))) nm ops i b,
    Forall (fun m => NoDup (map fst m)) seeds ->
    slot_value (wrun leqb reqb (world0 seeds nm) ops) i = Some b -> Bij leqb reqb b.
  Proof. exact (world_bij leqb reqb leqb_spec reqb_spec). Qed.

  (* frame: a step leaves every map variable and every seed mapping it does not address exactly as it was *)
  Theorem C18_frame : forall (seeds : list (list (L * R))) nm ops o,
    let w := wrun leqb reqb (world0 seeds nm) ops in
    (forall j, ~ addr_slot o j -> slot_value (fst (wstep leqb reqb w o)) j = slot_value w j) /\
    (forall s, s < w_ns w -> ~ addr_seed o s -> seed_content (fst (wstep leqb reqb w o)) s = seed_content w s).
  Proof. exact (world_frame leqb reqb). Qed.

  (* the constructed map holds exactly what the one-map constructor makes of the source's content at that moment;
     a rejected construction changes nothing *)
  Theorem C18_constructor_takes_a_snapshot : forall (w : @world L R) j s m,
    Sep w -> src_content w s = Some m -> j < length (w_slots w) ->
    match init reqb m with
    | Some b => slot_value (fst (wstep leqb reqb w (WNew j s))) j = Some b /\ snd (wstep leqb reqb w (WNew j s)) = Done
    | None => wstep leqb reqb w (WNew j s) = (w, NotBijection)
    end.
  Proof. exact (wnew_effect leqb reqb). Qed.
End C18.

(* non-vacuity: a concrete accepted constructor argument with falsy keys (0) *)
Example C18_premises_satisfiable :
  NoDup (map fst [(0, 5); (1, 0)]%Z) /\ init Z.eqb [(0, 5); (1, 0)]%Z <> None.
Proof. split; [repeat constructor; cbn; intuition discriminate | discriminate]. Qed.

(* non-vacuity of C18_reinsert_live_pair_is_identity: (0, 5) is live, linking it again leaves the map as it was *)
Example C18_reinsert_example :
  let b := {| fwd := [(0, 5); (1, 0)]%Z; bck := [(5, 0); (0, 1)]%Z |} in
  get_right Z.eqb b 0%Z = Some 5%Z /\
  map (get_right Z.eqb (insert_left Z.eqb Z.eqb b 0 5)%Z) [0; 1; 2]%Z = map (get_right Z.eqb b) [0; 1; 2]%Z /\
  map (get_left Z.eqb (insert_left Z.eqb Z.eqb b 0 5)%Z) [0; 5; 2]%Z = map (get_left Z.eqb b) [0; 5; 2]%Z /\
  len (insert_left Z.eqb Z.eqb b 0 5)%Z = len b.
Proof. vm_compute. repeat split. Qed.

(* non-vacuity of the world theorems: two maps built from one seed with falsy keys, the first one and the seed
   are then modified; the second map still holds the seed's original pairs *)
Example C18_world_example :
  let ops := [WNew 0 (SrcSeed 0); WNew 1 (SrcSeed 0); WOp 0 (InsL 2 0); WOp 0 (DelR 5); WSeedSet 0 7 7]%Z in
  let w := wrun Z.eqb Z.eqb (world0 [[(0, 5); (1, 0)]%Z] 2) ops in
  option_map (@fwd Z Z) (slot_value w 1) = Some [(0, 5); (1, 0)]%Z /\
  option_map (@fwd Z Z) (slot_value w 0) = Some [(2, 0)]%Z /\
  seed_content w 0 = [(0, 5); (1, 0); (7, 7)]%Z.
Proof. vm_compute. repeat split. Qed.

Print Assumptions C18_bijection_reachable.
Print Assumptions C18_refines_live_pairs.
Print Assumptions C18_step_refines.
Print Assumptions C18_insert_displaces_exactly.
Print Assumptions C18_lookups_agree.
Print Assumptions C18_reinsert_live_pair_is_identity.
Print Assumptions C18_len_iter_items.
Print Assumptions C18_items_are_live_pairs.
Print Assumptions C18_init_rejects_iff_not_injective.
Print Assumptions C18_world_refines.
Print Assumptions C18_world_step_refines.
Print Assumptions C18_world_bijection.
Print Assumptions C18_frame.
Print Assumptions C18_constructor_takes_a_snapshot.
