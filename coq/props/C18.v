(* C18 — The bidirectional map stays a bijection under every operation sequence.
   Property-level statements only; each is closed by [exact] of a lemma of proofs/BiMapP.v. *)
From Coq Require Import List Bool Arith ZArith.
Import ListNotations.
From HV Require Import lib.PyDict lib.Harness model.BiMapM spec.BiMapS proofs.BiMapP.

Section C18.
  Context {L R : Type} (leqb : L -> L -> bool) (reqb : R -> R -> bool).
  Hypothesis leqb_spec : forall a b, reflect (a = b) (leqb a b).
  Hypothesis reqb_spec : forall a b, reflect (a = b) (reqb a b).

  (* forward and backward views are exact inverses after every history from any accepted constructor argument *)
  Theorem C18_bijection_reachable : forall (m : list (L * R)) b ops,
    NoDup (map fst m) -> init reqb m = Some b -> Bij leqb reqb (run leqb reqb b ops).
  Proof. exact (bij_reachable leqb reqb leqb_spec reqb_spec). Qed.

  (* the history behaves like the plain list of live pairs, state and outcome (KeyError iff absent) *)
  Theorem C18_refines_live_pairs : forall (m : list (L * R)) b ops,
    NoDup (map fst m) -> init reqb m = Some b ->
    Rep leqb reqb (run leqb reqb b ops) (a_run leqb reqb m ops).
  Proof.
    intros m b ops Hk Hi. apply (run_refines leqb reqb leqb_spec reqb_spec).
    exact (init_rep leqb reqb leqb_spec reqb_spec m b Hk Hi).
  Qed.
  Theorem C18_step_refines : forall b p o, Rep leqb reqb b p ->
    Rep leqb reqb (fst (step leqb reqb b o)) (fst (a_step leqb reqb p o)) /\
    snd (step leqb reqb b o) = snd (a_step leqb reqb p o).
  Proof. exact (rep_step leqb reqb leqb_spec reqb_spec). Qed.

  Theorem C18_insert_displaces_exactly : forall b k v k' v', Bij leqb reqb b ->
    (get_right leqb (insert_left leqb reqb b k v) k' = Some v' <->
     (k' = k /\ v' = v) \/ (k' <> k /\ v' <> v /\ get_right leqb b k' = Some v')).
  Proof. intros b k v k' v' HB. exact (ins_fwd_get leqb reqb leqb_spec b k v HB k' v'). Qed.

  Theorem C18_lookups_agree : forall b k v, Bij leqb reqb b ->
    (get_right leqb b k = Some v <-> get_left reqb b v = Some k).
  Proof. exact (lookups_agree leqb reqb). Qed.

  Theorem C18_len_iter_items : forall b, Bij leqb reqb b ->
    len b = length (items b) /\ iter b = map fst (items b) /\ NoDup (iter b) /\ NoDup (map snd (items b)).
  Proof. exact (len_iter_items leqb reqb leqb_spec). Qed.

  Theorem C18_items_are_live_pairs : forall b p, Rep leqb reqb b p -> forall kv, In kv (items b) <-> In kv p.
  Proof. exact (rep_items leqb reqb leqb_spec). Qed.

  Theorem C18_init_rejects_iff_not_injective : forall m : list (L * R),
    init reqb m = None <-> ~ NoDup (map snd m).
  Proof. exact (init_rejects_iff reqb reqb_spec). Qed.
End C18.

(* non-vacuity: a concrete accepted constructor argument with falsy keys (0) *)
Example C18_premises_satisfiable :
  NoDup (map fst [(0, 5); (1, 0)]%Z) /\ init Z.eqb [(0, 5); (1, 0)]%Z <> None.
Proof. split; [repeat constructor; cbn; intuition discriminate | discriminate]. Qed.

Print Assumptions C18_bijection_reachable.
Print Assumptions C18_refines_live_pairs.
Print Assumptions C18_step_refines.
Print Assumptions C18_insert_displaces_exactly.
Print Assumptions C18_lookups_agree.
Print Assumptions C18_len_iter_items.
Print Assumptions C18_items_are_live_pairs.
Print Assumptions C18_init_rejects_iff_not_injective.
