(* C05 — types, values and operations survive encoding and decoding unchanged: property-level theorems.
   Models: model/Codec.v (+ SerialTypes.v) over the shared model/Types.v; spec: spec/CodecS.v. *)
From Coq Require Import NArith List Bool Arith.
Import ListNotations.
From HV Require Import lib.Harness model.Types model.SerialTypes model.Codec spec.CodecS proofs.CodecP.

(* Every type whose encoding succeeds ([ty_ok]: every definition-backed extension type inside can compute
   its bound) decodes to its normal form [ty_nf t], which (1) is t attribute by attribute with extension
   types in opaque form, (2) encodes to the same serial document, (3) has the same bound. *)
Theorem C05_ty_roundtrip : forall t, ty_ok t = true ->
  ty_deserialize (ty_to_serial t) = ty_nf t /\
  same_encoding ty_to_serial (ty_nf t) t /\ same_facts tbound (ty_nf t) t /\ OpaqueForm t (ty_nf t).
Proof. exact ty_roundtrip_all. Qed.

Theorem C05_arg_roundtrip : forall a, targ_ok a = true ->
  arg_deserialize (arg_to_serial a) = arg_nf a /\ same_encoding arg_to_serial (arg_nf a) a /\ OpaqueFormA a (arg_nf a).
Proof. exact arg_roundtrip_all. Qed.

Theorem C05_param_roundtrip : forall p, param_deserialize (param_to_serial p) = p.
Proof. exact param_roundtrip. Qed.

(* core types (no definition-backed extension type inside) come back identical *)
Theorem C05_core_ty_identical : forall t, Core t -> ty_nf t = t.
Proof. exact core_nf_id. Qed.

Theorem C05_functype_roundtrip : forall f, func_ok f = true ->
  func_deserialize (func_to_serial f) = func_nf f /\ same_encoding func_to_serial (func_nf f) f.
Proof. exact func_roundtrip. Qed.
Theorem C05_polytype_roundtrip : forall p, func_ok (pt_body p) = true ->
  poly_deserialize (poly_to_serial p) = poly_nf p /\ same_encoding poly_to_serial (poly_nf p) p.
Proof. exact poly_roundtrip. Qed.

(* Tuple / Option / Either / UnitSum against the general Sum with the rows their constructor fills in:
   same variant rows, equal under Python's ==, same bound; Tuple/Option/Either are the same type with the
   same encoding (UnitSum keeps its own compact encoding) *)
Theorem C05_sugar_types_eq : forall s,
  variant_rows (sugar_ty s) = Some (sugar_rows s) /\
  ty_canon (sugar_ty s) = ty_canon (TSum (sugar_rows s)) /\
  tbound (sugar_ty s) = tbound (TSum (sugar_rows s)) /\
  match s with SgUnitSum _ => True | _ => sugar_ty s = TSum (sugar_rows s) end.
Proof. exact sugar_eq_all. Qed.

(* converse, for serial terms this library did not produce: decoding and re-encoding is the identity *)
Theorem C05_ty_reserial : forall s, ty_to_serial (ty_deserialize s) = s /\ ty_ok (ty_deserialize s) = true.
Proof. exact ty_reserial_all. Qed.
Theorem C05_arg_reserial : forall a, arg_to_serial (arg_deserialize a) = a /\ targ_ok (arg_deserialize a) = true.
Proof. exact arg_reserial_all. Qed.
Theorem C05_param_reserial : forall s, param_to_serial (param_deserialize s) = s.
Proof. exact param_reserial. Qed.

Print Assumptions C05_ty_roundtrip.
Print Assumptions C05_arg_roundtrip.
Print Assumptions C05_param_roundtrip.
Print Assumptions C05_core_ty_identical.
Print Assumptions C05_functype_roundtrip.
Print Assumptions C05_polytype_roundtrip.
Print Assumptions C05_sugar_types_eq.
Print Assumptions C05_ty_reserial.
Print Assumptions C05_arg_reserial.
Print Assumptions C05_param_reserial.
