(* C05 — types, values and operations survive encoding and decoding unchanged: property-level theorems.
   Models: model/Codec.v (+ SerialTypes.v) over the shared model/Types.v; spec: spec/CodecS.v. *)
From Coq Require Import NArith List Bool Arith Permutation.
Import ListNotations.
From HV Require Import lib.Harness model.Types model.SerialTypes model.Codec model.CodecVals model.CodecOps model.CodecDoc
  spec.CodecS proofs.CodecP proofs.CodecValsP proofs.CodecOpsP proofs.CodecDocP.

(* Every type whose encoding succeeds ([ty_ok]: every definition-backed extension type inside can compute
   its bound) decodes to its normal form [ty_nf t], which (1) is t attribute by attribute with extension
   types in opaque form, (2) encodes to the same serial document, (3) has the same bound. *)
Theorem C05_ty_roundtrip : forall t, ty_ok t = true ->
  ty_deserialize (ty_to_serial t) = ty_nf t /\
  same_encoding ty_to_serial (ty_nf t) t /\ same_facts tbound (ty_nf t) t /\ OpaqueForm t (ty_nf t).
Proof. exact ty_roundtrip_all. Qed.

Theorem C05_arg_roundtrip : forall a, targ_ok a = true ->
  arg_deserialize (arg_to_serial a) = arg_nf a /\ same_encoding arg_to_serial (arg_nf a) a /\ OpaqueFormA a (arg_nf a).
Proof. exact arg_roundtrip_all. Qed.

Theorem C05_param_roundtrip : forall p, param_deserialize (param_to_serial p) = p.
Proof. exact param_roundtrip. Qed.

(* core types (no definition-backed extension type inside) come back identical *)
Theorem C05_core_ty_identical : forall t, Core t -> ty_nf t = t.
Proof. exact core_nf_id. Qed.

Theorem C05_functype_roundtrip : forall f, func_ok f = true ->
  func_deserialize (func_to_serial f) = func_nf f /\ same_encoding func_to_serial (func_nf f) f.
Proof. exact func_roundtrip. Qed.
Theorem C05_polytype_roundtrip : forall p, func_ok (pt_body p) = true ->
  poly_deserialize (poly_to_serial p) = poly_nf p /\ same_encoding poly_to_serial (poly_nf p) p.
Proof. exact poly_roundtrip. Qed.

(* Tuple / Option / Either / UnitSum against the general Sum with the rows their constructor fills in:
   same variant rows, equal under Python's ==, same bound; Tuple/Option/Either are the same type with the
   same encoding (UnitSum keeps its own compact encoding) *)
Theorem C05_sugar_types_eq : forall s,
  variant_rows (sugar_ty s) = Some (sugar_rows s) /\
  ty_canon (sugar_ty s) = ty_canon (TSum (sugar_rows s)) /\
  tbound (sugar_ty s) = tbound (TSum (sugar_rows s)) /\
  match s with SgUnitSum _ => True | _ => sugar_ty s = TSum (sugar_rows s) end.
Proof. exact sugar_eq_all. Qed.

(* converse, for serial terms this library did not produce: decoding and re-encoding is the identity *)
Theorem C05_ty_reserial : forall s, ty_to_serial (ty_deserialize s) = s /\ ty_ok (ty_deserialize s) = true.
Proof. exact ty_reserial_all. Qed.
Theorem C05_arg_reserial : forall a, arg_to_serial (arg_deserialize a) = a /\ targ_ok (arg_deserialize a) = true.
Proof. exact arg_reserial_all. Qed.
Theorem C05_param_reserial : forall s, param_to_serial (param_deserialize s) = s.
Proof. exact param_reserial. Qed.


(* ---- values and operations.  A function-valued constant embeds a whole HUGR: the statements are parametric
   in that payload (API form H, serial form SH, its encoder / decoder / normal form / function type) and assume
   the payload round-trips; [C05_doc_reserial_any_depth] discharges the corresponding hypothesis of the converse
   direction by induction on the nesting depth, the depth-0 corollaries below have no hypothesis at all. ---- *)
Theorem C05_value_roundtrip : forall H SH (h_enc : H -> SH) h_dec h_nf h_type h_ok,
  (forall h, h_ok h = true -> h_dec (h_enc h) = h_nf h /\ h_enc (h_nf h) = h_enc h /\
                              func_to_serial (h_type (h_nf h)) = func_to_serial (h_type h)) ->
  forall v, value_ok H h_ok v = true ->
    value_deserialize H SH h_dec (value_to_serial H SH h_enc v) = value_nf H h_nf v /\
    same_encoding (value_to_serial H SH h_enc) (value_nf H h_nf v) v /\
    same_encoding ty_to_serial (type_of H h_type (value_nf H h_nf v)) (type_of H h_type v) /\
    same_facts tbound (type_of H h_type (value_nf H h_nf v)) (type_of H h_type v).
Proof. exact value_roundtrip_all. Qed.

Theorem C05_op_roundtrip : forall H SH (h_enc : H -> SH) h_dec h_nf h_type h_ok,
  (forall h, h_ok h = true -> h_dec (h_enc h) = h_nf h /\ h_enc (h_nf h) = h_enc h /\
                              func_to_serial (h_type (h_nf h)) = func_to_serial (h_type h)) ->
  forall o parent, OpOK H h_ok o ->
    op_deserialize H SH h_dec (op_to_serial H SH h_enc o parent) = op_nf H h_nf o /\
    op_to_serial H SH h_enc (op_nf H h_nf o) parent = op_to_serial H SH h_enc o parent /\
    same_facts (op_facts H h_type) (op_nf H h_nf o) o.
Proof. exact op_roundtrip_all. Qed.

(* every operation and value without function constants: no hypothesis left *)
Theorem C05_op_roundtrip_depth0 : forall (o : op E0) parent, OpOK E0 e0_ok o ->
  op_deserialize E0 E0 e0 (op_to_serial E0 E0 e0 o parent) = op_nf E0 e0 o /\
  op_to_serial E0 E0 e0 (op_nf E0 e0 o) parent = op_to_serial E0 E0 e0 o parent /\
  same_facts (op_facts E0 e0_type) (op_nf E0 e0 o) o.
Proof. exact (op_roundtrip_all E0 E0 e0 e0 e0 e0_type e0_ok e0_rt). Qed.

Theorem C05_sugar_values_eq : forall H (h_type : H -> functype) s,
  value_canon H h_type (sugar_val H h_type s) = value_canon H h_type (general_val H h_type s) /\
  ty_canon (type_of H h_type (sugar_val H h_type s)) = ty_canon (type_of H h_type (general_val H h_type s)) /\
  tbound (type_of H h_type (sugar_val H h_type s)) = tbound (type_of H h_type (general_val H h_type s)) /\
  match s with VgUnitSum _ _ | VgTuple _ => True | _ => sugar_val H h_type s = general_val H h_type s end.
Proof. exact sugar_values_eq_all. Qed.

(* Some / Left / Right / Continue / Break are Tag operations with the tag and rows their constructor fixes:
   signature and encoding are those of the general Tag *)
Theorem C05_sugar_tag_ops : forall H s, exists tag rows, sugar_tag H s = OTag tag (TSum rows) /\
  match s with
  | TgSome l => tag = 1%N /\ rows = [[]; l]
  | TgRight l r | TgBreak l r => tag = 1%N /\ rows = [l; r]
  | TgLeft l r | TgContinue l r => tag = 0%N /\ rows = [l; r]
  end.
Proof. exact sugar_tag_is_tag. Qed.

Theorem C05_extop_comes_back_opaque : forall H SH (h_enc : H -> SH) h_dec h_type d sig args f parent,
  extop_sig d sig = Some f ->
  op_deserialize H SH h_dec (op_to_serial H SH h_enc (OExtOp d sig args) parent) =
    OCustom (od_name d) (func_nf f) (od_descr d) (od_ext d) (map arg_nf args) /\
  f_outer (op_facts H h_type (OCustom (od_name d) (func_nf f) (od_descr d) (od_ext d) (map arg_nf args))) =
    f_outer (op_facts H h_type (OExtOp d sig args)).
Proof. exact extop_opaque. Qed.

(* ---- converse: documents this library did not produce ---- *)
Theorem C05_op_reserial : forall H SH (h_enc : H -> SH) h_dec sh_norm sh_wf,
  (forall sh, sh_wf sh = true -> h_enc (h_dec sh) = sh_norm sh) ->
  forall s, sop_wf SH sh_wf s = true ->
    op_to_serial H SH h_enc (op_deserialize H SH h_dec s) (sop_parent SH s) = sop_norm_h SH sh_norm s.
Proof. exact op_reserial_all. Qed.

Theorem C05_reserial_preserves : forall H SH (h_enc : H -> SH) h_dec h_type sh_norm sh_wf,
  (forall sh, sh_wf sh = true -> h_enc (h_dec sh) = sh_norm sh) ->
  forall s, forallb (sop_wf SH sh_wf) (sd_nodes SH s) = true ->
    to_serial H SH h_enc h_type (from_serial H SH h_dec h_type s) = sdoc_norm H SH h_dec h_type (sop_norm_h SH sh_norm) s.
Proof. exact doc_reserial_all. Qed.

Theorem C05_reserial_edges_kept : forall H SH (h_dec : SH -> H) h_type sh_norm s,
  edges_wf H SH h_dec h_type s = true ->
  Forall2 edge_kept (sd_edges SH s) (sd_edges SH (sdoc_norm H SH h_dec h_type (sop_norm_h SH sh_norm) s)).
Proof. exact doc_edges_kept. Qed.

(* The property promises every edge, not its place in the `edges` array (nor does the format give that place a
   meaning).  The two theorems above are about the emission order of the code as it stands (insertion order of the
   links); the statements below are the ones the run module is held to, and they hold for EVERY order in which an
   implementation lists the links ([ord]: any function returning a permutation of its argument): the document
   written is [sdoc_norm s] up to the order of its edge list ([sdoc_same]: nodes and metadata by index, edges as a
   multiset), and every edge of the input has its own edge in the output ([edges_kept_ms]: a matching, so no
   edge is lost, duplicated or invented), between the same nodes, given offsets unchanged, null offsets filled in. *)
Theorem C05_reserial_preserves_any_order : forall H SH (h_enc : H -> SH) h_dec h_type sh_norm sh_wf,
  (forall sh, sh_wf sh = true -> h_enc (h_dec sh) = sh_norm sh) ->
  forall ord, (forall l, Permutation (ord l) l) ->
  forall s, forallb (sop_wf SH sh_wf) (sd_nodes SH s) = true ->
    sdoc_same SH (to_serial_ord H SH h_enc h_type ord (from_serial H SH h_dec h_type s))
                 (sdoc_norm H SH h_dec h_type (sop_norm_h SH sh_norm) s).
Proof. exact doc_reserial_any_order. Qed.

Theorem C05_reserial_edges_kept_perm : forall H SH (h_dec : SH -> H) h_type sh_norm s out,
  edges_wf H SH h_dec h_type s = true ->
  Permutation out (sd_edges SH (sdoc_norm H SH h_dec h_type (sop_norm_h SH sh_norm) s)) ->
  edges_kept_ms (sd_edges SH s) out.
Proof. exact doc_edges_kept_perm. Qed.

Theorem C05_reserial_edges_kept_any_order : forall H SH (h_enc : H -> SH) h_dec h_type sh_norm sh_wf,
  (forall sh, sh_wf sh = true -> h_enc (h_dec sh) = sh_norm sh) ->
  forall ord, (forall l, Permutation (ord l) l) ->
  forall s, forallb (sop_wf SH sh_wf) (sd_nodes SH s) = true -> edges_wf H SH h_dec h_type s = true ->
    edges_kept_ms (sd_edges SH s) (sd_edges SH (to_serial_ord H SH h_enc h_type ord (from_serial H SH h_dec h_type s))).
Proof. exact doc_edges_kept_any_order. Qed.

(* what the monitor's document clause (run/C05Run.v [dmon]: [sdoc_sameb reser (sdoc_norm s)]) establishes about the
   observed re-saved document [reser], whatever order its edges are in *)
Theorem C05_doc_monitor_sound : forall H SH (h_dec : SH -> H) h_type sh_norm sh_eqb s (reser : sdoc SH),
  edges_wf H SH h_dec h_type s = true ->
  sdoc_sameb SH sh_eqb reser (sdoc_norm H SH h_dec h_type (sop_norm_h SH sh_norm) s) = true ->
  edges_kept_ms (sd_edges SH s) (sd_edges SH reser).
Proof. exact doc_monitor_sound. Qed.
(* the multiset comparison accepts whatever the positional one accepted *)
Theorem C05_doc_positional_implies_multiset : forall SH sh_eqb (a b : sdoc SH),
  sdoc_eqb SH sh_eqb a b = true -> sdoc_sameb SH sh_eqb a b = true.
Proof. exact sdoc_eqb_sameb. Qed.

Theorem C05_reserial_metadata_kept : forall H SH (h_dec : SH -> H) h_type sh_norm s idx,
  idx < length (sd_nodes SH s) ->
  get_meta (sd_meta SH (sdoc_norm H SH h_dec h_type (sop_norm_h SH sh_norm) s)) idx = get_meta (sd_meta SH s) idx.
Proof. exact doc_meta_kept. Qed.

(* induction on the nesting depth of function-valued constants: no hypothesis on the payload is left *)
Theorem C05_reserial_any_depth : forall n (s : SDocT n), wfT n s = true -> encT n (decT n s) = normT n s.
Proof. exact doc_reserial_depth. Qed.

Print Assumptions C05_ty_roundtrip.
Print Assumptions C05_arg_roundtrip.
Print Assumptions C05_param_roundtrip.
Print Assumptions C05_core_ty_identical.
Print Assumptions C05_functype_roundtrip.
Print Assumptions C05_polytype_roundtrip.
Print Assumptions C05_sugar_types_eq.
Print Assumptions C05_ty_reserial.
Print Assumptions C05_arg_reserial.
Print Assumptions C05_param_reserial.
Print Assumptions C05_value_roundtrip.
Print Assumptions C05_op_roundtrip.
Print Assumptions C05_op_roundtrip_depth0.
Print Assumptions C05_sugar_values_eq.
Print Assumptions C05_sugar_tag_ops.
Print Assumptions C05_extop_comes_back_opaque.
Print Assumptions C05_op_reserial.
Print Assumptions C05_reserial_preserves.
Print Assumptions C05_reserial_edges_kept.
Print Assumptions C05_reserial_preserves_any_order.
Print Assumptions C05_reserial_edges_kept_perm.
Print Assumptions C05_reserial_edges_kept_any_order.
Print Assumptions C05_doc_monitor_sound.
Print Assumptions C05_doc_positional_implies_multiset.
Print Assumptions C05_reserial_metadata_kept.
Print Assumptions C05_reserial_any_depth.
