(* C06 — Operation signatures and port kinds follow the specification's typing rules.
   M = model/Ops.v (hugr.ops as coded, after the repairs listed in known_findings.txt), S = spec/OpsS.v
   (typing rules transcribed from specification/hugr.md and hugr-core/src/ops).  All statements hold for
   every value model V (constants), every type row (no bound on length or nesting) and every offset. *)
From Coq Require Import ZArith List Bool Arith.
Import ListNotations.
From HV Require Import lib.Harness model.Types model.Ops spec.OpsS proofs.OpsP.
From HV Require Import model.OpsStore spec.OpsStoreS proofs.OpsStoreP.
Local Open Scope Z_scope.

(* the signature the specification assigns to a node is the one the operation reports
   (outer_signature(), for Call the instantiation) ... *)
Theorem C06_signature_is_specified : forall V (o : op V) s,
  has_sig o s -> exists f, df_sig o = Ret f /\ (f_in f, f_out f) = s.
Proof. exact sig_sound. Qed.
(* ... and nothing else is reported, except where the specification is silent (negative tag: Python indexing
   wraps; polymorphic extension op without a cached signature) *)
Theorem C06_signature_only_specified : forall V (o : op V) f,
  df_sig o = Ret f -> wf_op V o = true -> has_sig o (f_in f, f_out f).
Proof. exact sig_complete. Qed.
Theorem C06_signature_unique : forall V (o : op V) s1 s2, has_sig o s1 -> has_sig o s2 -> s1 = s2.
Proof. exact sig_unique. Qed.

(* inner signatures: DFG, Case, FuncDefn bodies; TailLoop body returns Sum(just-inputs, just-outputs) + rest;
   a block's body returns its sum + other outputs *)
Theorem C06_inner_signature_is_specified : forall V (o : op V) s,
  has_inner_sig o s -> exists f, inner_sig o = Ret f /\ (f_in f, f_out f) = s.
Proof. exact inner_sound. Qed.
Theorem C06_inner_signature_only_specified : forall V (o : op V) f,
  inner_sig o = Ret f -> has_inner_sig o (f_in f, f_out f).
Proof. exact inner_complete. Qed.

(* one equation per structured kind *)
Theorem C06_dfg_outer_is_inner : forall V i o d, outer_sig (V:=V) (ODFG i o d) = inner_sig (V:=V) (ODFG i o d).
Proof. exact dfg_outer_is_inner. Qed.
Theorem C06_conditional : forall V s oth outs,
  outer_sig (V:=V) (OConditional s oth (Some outs)) = Ret (mkF (s :: oth) outs []).
Proof. exact conditional_sig. Qed.
Theorem C06_case_inputs : forall V (o : op V) i r, case_inputs o i r -> nth_inputs o (Z.of_nat i) = Ret r.
Proof. exact case_inputs_correct. Qed.
Theorem C06_tailloop : forall V ji x jo d,
  outer_sig (V:=V) (OTailLoop ji x (Some jo) d) = Ret (mkF (ji ++ x) (jo ++ x) []) /\
  inner_sig (V:=V) (OTailLoop ji x (Some jo) d) = Ret (mkF (ji ++ x) (TSum [ji; jo] :: x) []).
Proof. exact tailloop_sigs. Qed.
Theorem C06_block_successor_inputs : forall V (o : op V) i r,
  successor_inputs o i r -> nth_outputs o (Z.of_nat i) = Ret r.
Proof. exact successor_inputs_correct. Qed.
Theorem C06_tag : forall V i s rs r, sum_rows s rs -> nth_error rs i = Some r ->
  outer_sig (V:=V) (OTag (Z.of_nat i) s) = Ret (mkF r [s] []).
Proof. exact tag_sig. Qed.
Theorem C06_make_unpack_inverse : forall V ts, exists m u,
  outer_sig (V:=V) (OMakeTuple (Some ts)) = Ret m /\ outer_sig (V:=V) (OUnpackTuple (Some ts)) = Ret u /\
  f_in u = f_out m /\ f_out u = f_in m /\ f_in m = ts /\ f_out m = [TSum [ts]].
Proof. exact make_unpack_inverse. Qed.
Theorem C06_callindirect : forall V f,
  outer_sig (V:=V) (OCallIndirect (Some f)) = Ret (mkF (fty f :: f_in f) (f_out f) []).
Proof. exact callindirect_sig. Qed.

(* Call exposes the instantiated signature with the function port right after the value inputs, whatever the
   arity of the polymorphic body; LoadFunction likewise *)
Theorem C06_call_ports_use_instantiation : forall V vtype sig inst ta,
  let o : op V := OCall sig inst ta in
  function_port_offset o = Ret (zlen (f_in inst)) /\
  num_out o = Ret (zlen (f_out inst)) /\
  port_kind vtype o In (zlen (f_in inst)) = Ret (FunctionKind sig) /\
  (forall i t, nth_error (f_in inst) i = Some t -> port_kind vtype o In (Z.of_nat i) = Ret (ValueKind t)) /\
  (forall i t, nth_error (f_out inst) i = Some t -> port_kind vtype o Out (Z.of_nat i) = Ret (ValueKind t)) /\
  port_kind vtype o In (-1) = Ret OrderKind /\ port_kind vtype o Out (-1) = Ret OrderKind.
Proof. exact call_ports_use_instantiation. Qed.
Theorem C06_loadfunc_ports : forall V vtype sig inst ta,
  let o : op V := OLoadFunc sig inst ta in
  outer_sig o = Ret (mkF [] [fty inst] []) /\ num_out o = Ret 1 /\
  port_kind vtype o In 0 = Ret (FunctionKind sig) /\ port_kind vtype o Out 0 = Ret (ValueKind (fty inst)) /\
  port_kind vtype o In (-1) = Ret OrderKind /\ port_kind vtype o Out (-1) = Ret OrderKind.
Proof. exact loadfunc_ports. Qed.

(* LoadConstant and Const agree on the constant's type *)
Theorem C06_loadconst_const_agree : forall V (vtype : V -> result ty) (v : V) t lc, vtype v = Ret t -> loadconst_of vtype v = Ret lc ->
  port_kind vtype (OConst v) Out 0 = Ret (ConstKind t) /\
  port_kind vtype lc In 0 = Ret (ConstKind t) /\
  port_kind vtype lc Out 0 = Ret (ValueKind t) /\
  outer_sig lc = Ret (mkF [] [t] []).
Proof. exact loadconst_const_agree. Qed.

(* every port the specification gives a node has the specified kind, for every offset including the order
   port -1; and no typed port is reported where the specification has none *)
Theorem C06_port_kind_correct : forall V vtype (o : op V) d z k,
  spec_port_kind (ctype_of V vtype) o d z = Port k -> port_kind vtype o d z = Ret k.
Proof. exact port_kind_correct. Qed.
Theorem C06_no_invented_port : forall V vtype (o : op V) d z,
  spec_port_kind (ctype_of V vtype) o d z = NoPort -> is_typed (port_kind vtype o d z) = false.
Proof. exact port_kind_no_invented_port. Qed.
Theorem C06_num_out_correct : forall V (o : op V) n, spec_num_out o = Some n -> num_out o = Ret (Z.of_nat n).
Proof. exact num_out_correct. Qed.

(* the type reported (Hugr.port_type) for a value output port is the payload of that port's kind, and a type
   is reported for value output ports only *)
Theorem C06_value_out_type_is_kind_payload : forall V vtype (o : op V) z t,
  port_kind vtype o Out z = Ret (ValueKind t) <-> hugr_port_type vtype o Out z = Ret (Some t).
Proof. exact value_out_type_is_kind_payload. Qed.

(* a reported type is the one the specification assigns, in BOTH directions, for EVERY answer function whose
   reported types are payloads of the port's kind -- which ports are answered with a type at all is left open
   (the code answers on every value port of the DataflowOp classes and on the value outputs of a Call; a variant
   that also answers on the value inputs of a Call is equally admissible): at a value port the specified type,
   at a static / control-flow / order port and where the node has no port never a type *)
Theorem C06_reported_type_is_specified : forall V vtype (pt : op V -> dir -> Z -> result (option ty)),
  kind_payload_reports V vtype pt ->
  forall o d z t, pt o d z = Ret (Some t) ->
    match spec_port_kind (ctype_of V vtype) o d z with
    | Port (ValueKind t0) => t = t0
    | Port _ | NoPort => False
    | Unspecified => True
    end.
Proof. exact reported_type_is_specified. Qed.
Theorem C06_port_type_admissible : forall V vtype, kind_payload_reports V vtype (hugr_port_type vtype).
Proof. exact hugr_port_type_kind_payload. Qed.
Theorem C06_port_type_call_inputs_admissible : forall V vtype,
  kind_payload_reports V vtype (hugr_port_type_call_inputs V vtype).
Proof. exact hugr_port_type_call_inputs_kind_payload. Qed.
(* today's answer on a value INPUT port: the specified type or (value inputs of a Call) no type *)
Theorem C06_in_port_type_none_or_specified : forall V vtype (o : op V) z t0,
  spec_port_kind (ctype_of V vtype) o In z = Port (ValueKind t0) ->
  hugr_port_type vtype o In z = Ret (Some t0) \/ hugr_port_type vtype o In z = Ret None.
Proof. exact in_port_type_none_or_specified. Qed.
(* non-vacuity: the two admissible answer functions differ on value input 1 of the example Call (None / qubit) *)
Example C06_port_type_choice_example :
  hugr_port_type vt0 ex_call In 1 = Ret None /\
  hugr_port_type_call_inputs ty vt0 ex_call In 1 = Ret (Some TQubit) /\
  hugr_port_type_call_inputs ty vt0 ex_call In 2 = Ret None /\
  hugr_port_type vt0 ex_call Out 1 = Ret (Some TQubit).
Proof. repeat split; reflexivity. Qed.

(* non-vacuity: a row-polymorphic function instantiated at a two-element row *)
Example C06_example :
  function_port_offset ex_call = Ret 2 /\ num_out ex_call = Ret 2 /\
  port_kind vt0 ex_call In 1 = Ret (ValueKind TQubit) /\ port_kind vt0 ex_call In 2 = Ret (FunctionKind ex_poly) /\
  spec_port_kind (ctype_of ty vt0) ex_call In 2 = Port (FunctionKind ex_poly) /\
  has_sig ex_call ([TUSize; TQubit], [TUSize; TQubit]).
Proof. exact ex_call_ports. Qed.

(* the behaviours found on the unchanged tree and repaired (known_findings.txt): with the port counts taken
   from the polymorphic body, and with the order port of LoadConst / LoadFunc / Call raising, the statements
   above are false *)
Theorem C06_call_counts_orig_refuted : exists o : op ty, exists n,
  spec_num_out o = Some n /\ call_num_out_orig o <> Ret (Z.of_nat n) /\
  exists k, spec_port_kind (ctype_of ty vt0) o In 1 = Port k /\ port_kind_orig vt0 o In 1 <> Ret k.
Proof. exact call_counts_orig_refuted. Qed.
Theorem C06_order_port_orig_refuted : exists o1 o2 o3 : op ty,
  (forall o, List.In o [o1; o2; o3] ->
     spec_port_kind (ctype_of ty vt0) o Out (-1) = Port OrderKind /\ port_kind_orig vt0 o Out (-1) <> Ret OrderKind).
Proof. exact order_port_orig_refuted. Qed.

(* ---- histories (seeded round 2): the same clauses for a node of a Hugr after ANY sequence of add_node /
   delete_node (the freed index is reused) / assignment of hugr[n].op / in-place completion of the operation,
   whatever was queried in between: the node store holds at every index the operation put there by the last
   step touching the index, and every answer is the one the specification assigns to THAT operation ---- *)
Theorem C06_store_holds_last_op : forall V (l : list (sstep V)) n o,
  lookup (run [] l) n = Some o <-> current l n o.
Proof. exact store_holds_last_op. Qed.
Theorem C06_store_vacant : forall V (l : list (sstep V)) n, lookup (run [] l) n = None <-> vacant l n.
Proof. exact store_vacant. Qed.
Theorem C06_hist_port_kind_correct : forall V vtype (l : list (sstep V)) n o d z k,
  current l n o -> spec_port_kind (ctype_of V vtype) o d z = Port k ->
  store_port_kind vtype (run [] l) n d z = Some (Ret k).
Proof. exact hist_port_kind_correct. Qed.
Theorem C06_hist_no_invented_port : forall V vtype (l : list (sstep V)) n o d z,
  current l n o -> spec_port_kind (ctype_of V vtype) o d z = NoPort ->
  exists r, store_port_kind vtype (run [] l) n d z = Some r /\ is_typed r = false.
Proof. exact hist_no_invented_port. Qed.
Theorem C06_hist_value_out_type_is_kind_payload : forall V vtype (l : list (sstep V)) n z t,
  store_port_kind vtype (run [] l) n Out z = Some (Ret (ValueKind t)) <->
  store_port_type vtype (run [] l) n Out z = Some (Ret (Some t)).
Proof. exact hist_value_out_type_is_kind_payload. Qed.
Theorem C06_hist_signature_is_specified : forall V (l : list (sstep V)) n o s,
  current l n o -> has_sig o s ->
  exists f, at_node (run [] l) n (@df_sig V) = Some (Ret f) /\ (f_in f, f_out f) = s.
Proof. exact hist_signature_is_specified. Qed.
Theorem C06_hist_num_out_correct : forall V (l : list (sstep V)) n o k,
  current l n o -> spec_num_out o = Some k -> store_num_out (run [] l) n = Some (Ret (Z.of_nat k)).
Proof. exact hist_num_out_correct. Qed.
Theorem C06_hist_vacant_no_answer : forall V vtype (l : list (sstep V)) n d z,
  vacant l n -> store_port_kind vtype (run [] l) n d z = None /\ store_port_type vtype (run [] l) n d z = None.
Proof. exact hist_vacant_no_answer. Qed.
(* nothing is remembered between queries: two histories leaving the same operation at an index answer alike *)
Theorem C06_hist_answers_ignore_the_past : forall V vtype (l1 l2 : list (sstep V)) n,
  (forall o, current l1 n o <-> current l2 n o) ->
  forall d z, store_port_kind vtype (run [] l1) n d z = store_port_kind vtype (run [] l2) n d z /\
              store_port_type vtype (run [] l1) n d z = store_port_type vtype (run [] l2) n d z /\
              store_op_port_type (run [] l1) n d z = store_op_port_type (run [] l2) n d z /\
              store_outer_sig (run [] l1) n = store_outer_sig (run [] l2) n /\
              store_inner_sig (run [] l1) n = store_inner_sig (run [] l2) n /\
              store_num_out (run [] l1) n = store_num_out (run [] l2) n.
Proof. exact hist_answers_ignore_the_past. Qed.
(* non-vacuity: Noop(usize) at index 3 deleted, the index reused by MakeTuple([qubit, usize]) *)
Example C06_hist_example :
  current ex_hist 3 (OMakeTuple (Some [TQubit; TUSize])) /\ vacant ex_hist 4 /\
  store_port_type vt0 (run [] ex_hist) 3 Out 0 = Some (Ret (Some (TSum [[TQubit; TUSize]]))) /\
  store_port_kind vt0 (run [] ex_hist) 3 Out 0 = Some (Ret (ValueKind (TSum [[TQubit; TUSize]]))) /\
  store_port_type vt0 (run [] [SPut 3 (ONoop (Some TUSize))]) 3 Out 0 = Some (Ret (Some TUSize)).
Proof. exact ex_hist_reuse. Qed.

Print Assumptions C06_signature_is_specified.
Print Assumptions C06_signature_only_specified.
Print Assumptions C06_signature_unique.
Print Assumptions C06_inner_signature_is_specified.
Print Assumptions C06_inner_signature_only_specified.
Print Assumptions C06_dfg_outer_is_inner.
Print Assumptions C06_conditional.
Print Assumptions C06_case_inputs.
Print Assumptions C06_tailloop.
Print Assumptions C06_block_successor_inputs.
Print Assumptions C06_tag.
Print Assumptions C06_make_unpack_inverse.
Print Assumptions C06_callindirect.
Print Assumptions C06_call_ports_use_instantiation.
Print Assumptions C06_loadfunc_ports.
Print Assumptions C06_loadconst_const_agree.
Print Assumptions C06_port_kind_correct.
Print Assumptions C06_no_invented_port.
Print Assumptions C06_num_out_correct.
Print Assumptions C06_value_out_type_is_kind_payload.
Print Assumptions C06_reported_type_is_specified.
Print Assumptions C06_port_type_admissible.
Print Assumptions C06_port_type_call_inputs_admissible.
Print Assumptions C06_in_port_type_none_or_specified.
Print Assumptions C06_call_counts_orig_refuted.
Print Assumptions C06_order_port_orig_refuted.
Print Assumptions C06_store_holds_last_op.
Print Assumptions C06_store_vacant.
Print Assumptions C06_hist_port_kind_correct.
Print Assumptions C06_hist_no_invented_port.
Print Assumptions C06_hist_value_out_type_is_kind_payload.
Print Assumptions C06_hist_signature_is_specified.
Print Assumptions C06_hist_num_out_correct.
Print Assumptions C06_hist_vacant_no_answer.
Print Assumptions C06_hist_answers_ignore_the_past.
