(* C06 — Operation signatures and port kinds follow the specification's typing rules.
   M = model/Ops.v (hugr.ops as coded, after the repairs listed in known_findings.txt), S = spec/OpsS.v
   (typing rules transcribed from specification/hugr.md and hugr-core/src/ops).  All statements hold for
   every value model V (constants), every type row (no bound on length or nesting) and every offset. *)
From Coq Require Import ZArith List Bool Arith.
Import ListNotations.
From HV Require Import lib.Harness model.Types model.Ops spec.OpsS proofs.OpsP.
From HV Require Import model.OpsStore spec.OpsStoreS proofs.OpsStoreP.
Local Open Scope Z_scope.

(* the signature the specification assigns to a node is the one the operation reports
   (outer_signature(), for Call the instantiation) ... *)
Theorem C06_signature_is_specified : forall V (o : op V) s,
  has_sig o s -> exists f, df_sig o = Ret f /\ (f_in f, f_out f) = s.
Proof. exact sig_sound. Qed.
(* ... and nothing else is reported, except where the specification is silent (negative tag: Python indexing
   wraps; polymorphic extension op without a cached signature) *)
Theorem C06_signature_only_specified : forall V (o : op V) f,
  df_sig o = Ret f -> wf_op V o = true -> has_sig o (f_in f, f_out f).
Proof. exact sig_complete. Qed.
Theorem C06_signature_unique : forall V (o : op V) s1 s2, has_sig o s1 -> has_sig o s2 -> s1 = s2.
Proof. exact sig_unique. Qed.

(* inner signatures: DFG, Case, FuncDefn bodies; TailLoop body returns Sum(just-inputs, just-outputs) + rest;
   a block's body returns its sum + other outputs *)
Theorem C06_inner_signature_is_specified : forall V (o : op V) s,
  has_inner_sig o s -> exists f, inner_sig o = Ret f /\ (f_in f, f_out f) = s.
Proof. exact inner_sound. Qed.
Theorem C06_inner_signature_only_specified : forall V (o : op V) f,
  inner_sig o = Ret f -> has_inner_sig o (f_in f, f_out f).
Proof. exact inner_complete. Qed.

(* one equation per structured kind *)
Theorem C06_dfg_outer_is_inner : forall V i o d, outer_sig (V:=V) (ODFG i o d) = inner_sig (V:=V) (ODFG i o d).
Proof. exact dfg_outer_is_inner. Qed.
Theorem C06_conditional : forall V s oth outs,
  outer_sig (V:=V) (OConditional s oth (Some outs)) = Ret (mkF (s :: oth) outs []).
Proof. exact conditional_sig. Qed.
Theorem C06_case_inputs : forall V (o : op V) i r, case_inputs o i r -> nth_inputs o (Z.of_nat i) = Ret r.
Proof. exact case_inputs_correct. Qed.
Theorem C06_tailloop : forall V ji x jo d,
  outer_sig (V:=V) (OTailLoop ji x (Some jo) d) = Ret (mkF (ji ++ x) (jo ++ x) []) /\
  inner_sig (V:=V) (OTailLoop ji x (Some jo) d) = Ret (mkF (ji ++ x) (TSum [ji; jo] :: x) []).
Proof. exact tailloop_sigs. Qed.
Theorem C06_block_successor_inputs : forall V (o : op V) i r,
  successor_inputs o i r -> nth_outputs o (Z.of_nat i) = Ret r.
Proof. exact successor_inputs_correct. Qed.
Theorem C06_tag : forall V i s rs r, sum_rows s rs -> nth_error rs i = Some r ->
  outer_sig (V:=V) (OTag (Z.of_nat i) s) = Ret (mkF r [s] []).
Proof. exact tag_sig. Qed.
Theorem C06_make_unpack_inverse : forall V ts, exists m u,
  outer_sig (V:=V) (OMakeTuple (Some ts)) = Ret m /\ outer_sig (V:=V) (OUnpackTuple (Some ts)) = Ret u /\
  f_in u = f_out m /\ f_out u = f_in m /\ f_in m = ts /\ f_out m = [TSum [ts]].
Proof. exact make_unpack_inverse. Qed.
Theorem C06_callindirect : forall V f,
  outer_sig (V:=V) (OCallIndirect (Some f)) = Ret (mkF (fty f :: f_in f) (f_out f) []).
Proof. exact callindirect_sig. Qed.

(* Call exposes the instantiated signature with the function port right after the value inputs, whatever the
   arity of the polymorphic body; LoadFunction likewise *)
Theorem C06_call_ports_use_instantiation : forall V vtype sig inst ta,
  let o : op V := OCall sig inst ta in
  function_port_offset o = Ret (zlen (f_in inst)) /\
  num_out o = Ret (zlen (f_out inst)) /\
  port_kind vtype o In (zlen (f_in inst)) = Ret (FunctionKind sig) /\
  (forall i t, nth_error (f_in inst) i = Some t -> port_kind vtype o In (Z.of_nat i) = Ret (ValueKind t)) /\
  (forall i t, nth_error (f_out inst) i = Some t -> port_kind vtype o Out (Z.of_nat i) = Ret (ValueKind t)) /\
  port_kind vtype o In (-1) = Ret OrderKind /\ port_kind vtype o Out (-1) = Ret OrderKind.
Proof. exact call_ports_use_instantiation. Qed.
Theorem C06_loadfunc_ports : forall V vtype sig inst ta,
  let o : op V := OLoadFunc sig inst ta in
  outer_sig o = Ret (mkF [] [fty inst] []) /\ num_out o = Ret 1 /\
  port_kind vtype o In 0 = Ret (FunctionKind sig) /\ port_kind vtype o Out 0 = Ret (ValueKind (fty inst)) /\
  port_kind vtype o In (-1) = Ret OrderKind /\ port_kind vtype o Out (-1) = Ret OrderKind.
Proof. exact loadfunc_ports. Qed.

(* LoadConstant and Const agree on the constant's type *)
Theorem C06_loadconst_const_agree : forall V (vtype : V -> result ty) (v : V) t lc, vtype v = Ret t -> loadconst_of vtype v = Ret lc ->
  port_kind vtype (OConst v) Out 0 = Ret (ConstKind t) /\
  port_kind vtype lc In 0 = Ret (ConstKind t) /\
  port_kind vtype lc Out 0 = Ret (ValueKind t) /\
  outer_sig lc = Ret (mkF [] [t] []).
Proof. exact loadconst_const_agree. Qed.

(* every port the specification gives a node has the specified kind, for every offset including the order
   port -1; and no typed port is reported where the specification has none *)
Theorem C06_port_kind_correct : forall V vtype (o : op V) d z k,
  spec_port_kind (ctype_of V vtype) o d z = Port k -> port_kind vtype o d z = Ret k.
Proof. exact port_kind_correct. Qed.
Theorem C06_no_invented_port : forall V vtype (o : op V) d z,
  spec_port_kind (ctype_of V vtype) o d z = NoPort -> is_typed (port_kind vtype o d z) = false.
Proof. exact port_kind_no_invented_port. Qed.
Theorem C06_num_out_correct : forall V (o : op V) n, spec_num_out o = Some n -> num_out o = Ret (Z.of_nat n).
Proof. exact num_out_correct. Qed.

(* the type reported (Hugr.port_type) for a value output port is the payload of that port's kind, and a type
   is reported for value output ports only *)
Theorem C06_value_out_type_is_kind_payload : forall V vtype (o : op V) z t,
  port_kind vtype o Out z = Ret (ValueKind t) <-> hugr_port_type vtype o Out z = Ret (Some t).
Proof. exact value_out_type_is_kind_payload. Qed.

(* a reported type is the one the specification assigns, in BOTH directions, for EVERY answer function whose
   reported types are payloads of the port's kind -- which ports are answered with a type at all is left open
   (the code answers on every value port of the DataflowOp classes and on the value outputs of a Call; a variant
   that also answers on the value inputs of a Call is equally admissible): at a value port the specified type,
   at a static / control-flow / order port and where the node has no port never a type *)
Theorem C06_reported_type_is_specified : forall V vtype (pt : op V -> dir -> Z -> result (option ty)),
  kind_payload_reports V vtype pt ->
  forall o d z t, pt o d z = Ret (Some t) ->
    match spec_port_kind (ctype_of V vtype) o d z with
    | Port (ValueKind t0) => t = t0
    | Port _ | NoPort => False
    | Unspecified => True
    end.
Proof. exact reported_type_is_specified. Qed.
Theorem C06_port_type_admissible : forall V vtype, kind_payload_reports V vtype (hugr_port_type vtype).
Proof. exact hugr_port_type_kind_payload. Qed.
Theorem C06_port_type_call_inputs_admissible : forall V vtype,
  kind_payload_reports V vtype (hugr_port_type_call_inputs V vtype).
Proof. exact hugr_port_type_call_inputs_kind_payload. Qed.
(* today's answer on a value INPUT port: the specified type or (value inputs of a Call) no type *)
Theorem C06_in_port_type_none_or_specified : forall V vtype (o : op V) z t0,
  spec_port_kind (ctype_of V vtype) o In z = Port (ValueKind t0) ->
  hugr_port_type vtype o In z = Ret (Some t0) \/ hugr_port_type vtype o In z = Ret None.
Proof. exact in_port_type_none_or_specified. Qed.
(* non-vacuity: the two admissible answer functions differ on value input 1 of the example Call (None / qubit) *)
Example C06_port_type_choice_example :
  hugr_port_type vt0 ex_call In 1 = Ret None /\
  hugr_port_type_call_inputs ty vt0 ex_call In 1 = Ret (Some TQubit) /\
  hugr_port_type_call_inputs ty vt0 ex_call In 2 = Ret None /\
  hugr_port_type vt0 ex_call Out 1 = Ret (Some TQubit).
Proof. repeat split; reflexivity. Qed.

(* non-vacuity: a row-polymorphic function instantiated at a two-element row *)
Example C06_example :
  function_port_offset ex_call = Ret 2 /\ num_out ex_call = Ret 2 /\
  port_kind vt0 ex_call In 1 = Ret (ValueKind TQubit) /\ port_kind vt0 ex_call In 2 = Ret (FunctionKind ex_poly) /\
  spec_port_kind (ctype_of ty vt0) ex_call In 2 = Port (FunctionKind ex_poly) /\
  has_sig ex_call ([TUSize; TQubit], [TUSize; TQubit]).
Proof. exact ex_call_ports. Qed.

(* the behaviours found on the unchanged tree and repaired (known_findings.txt): with the port counts taken
   from the polymorphic body, and with the order port of LoadConst / LoadFunc / Call raising, the statements
   above are false *)
Theorem C06_call_counts_orig_refuted : exists o : op ty, exists n,
  spec_num_out o = Some n /\ call_num_out_orig o <> Ret (Z.of_nat n) /\
  exists k, spec_port_kind (ctype_of ty vt0) o In 1 = Port k /\ port_kind_orig vt0 o In 1 <> Ret k.
Proof. exact call_counts_orig_refuted. Qed.
Theorem C06_order_port_orig_refuted : exists o1 o2 o3 : op ty,
  (forall o, List.In o [o1; o2; o3] ->
     spec_port_kind (ctype_of ty vt0) o Out (-1) = Port OrderKind /\ port_kind_orig vt0 o Out (-1) <> Ret OrderKind).
Proof. exact order_port_orig_refuted. Qed.

(* ---- histories (seeded round 2): the same clauses for a node of a Hugr after ANY sequence of add_node /
   delete_node (the freed index is reused) / assignment of hugr[n].op / in-place completion of the operation,
   whatever was queried in between: the node store holds at every index the operation put there by the last
   step touching the index, and every answer is the one the specification assigns to THAT operation ---- *)
Theorem C06_store_holds_last_op : forall V (l : list (sstep V)) n o,
  lookup (run [] l) n = Some o <-> current l n o.
Proof. exact store_holds_last_op. Qed.
Theorem C06_store_vacant : forall V (l : list (sstep V)) n, lookup (run [] l) n = None <-> vacant l n.
Proof. exact store_vacant. Qed.
Theorem C06_hist_port_kind_correct : forall V vtype (l : list (sstep V)) n o d z k,
  current l n o -> spec_port_kind (ctype_of V vtype) o d z = Port k ->
  store_port_kind vtype (run [] l) n d z = Some (Ret k).
Proof. exact hist_port_kind_correct. Qed.
Theorem C06_hist_no_invented_port : forall V vtype (l : list (sstep V)) n o d z,
  current l n o -> spec_port_kind (ctype_of V vtype) o d z = NoPort ->
  exists r, store_port_kind vtype (run [] l) n d z = Some r /\ is_typed r = false.
Proof. exact hist_no_invented_port. Qed.
Theorem C06_hist_value_out_type_is_kind_payload : forall V vtype (l : list (sstep V)) n z t,
  store_port_kind vtype (run [] l) n Out z = Some (Ret (ValueKind t)) <->
  store_port_type vtype (run [] l) n Out z = Some (Ret (Some t)).
Proof. exact hist_value_out_type_is_kind_payload. Qed.
Theorem C06_hist_signature_is_specified : forall V (l : list (sstep V)) n o s,
  current l n o -> has_sig o s ->
  exists f, at_node (run [] l) n (@df_sig V) = Some (Ret f) /\ (f_in f, f_out f) = s.
Proof. exact hist_signature_is_specified. Qed.
Theorem C06_hist_num_out_correct : forall V (l : list (sstep V)) n o k,
  current l n o -> spec_num_out o = Some k -> store_num_out (run [] l) n = Some (Ret (Z.of_nat k)).
Proof. exact hist_num_out_correct. Qed.
Theorem C06_hist_vacant_no_answer : forall V vtype (l : list (sstep V)) n d z,
  vacant l n -> store_port_kind vtype (run [] l) n d z = None /\ store_port_type vtype (run [] l) n d z = None.
Proof. exact hist_vacant_no_answer. Qed.
(* nothing is remembered between queries: two histories leaving the same operation at an index answer alike *)
Theorem C06_hist_answers_ignore_the_past : forall V vtype (l1 l2 : list (sstep V)) n,
  (forall o, current l1 n o <-> current l2 n o) ->
  forall d z, store_port_kind vtype (run [] l1) n d z = store_port_kind vtype (run [] l2) n d z /\
              store_port_type vtype (run [] l1) n d z = store_port_type vtype (run [] l2) n d z /\
              store_op_port_type (run [] l1) n d z = store_op_port_type (run [] l2) n d z /\
              store_outer_sig (run [] l1) n = store_outer_sig (run [] l2) n /\
              store_inner_sig (run [] l1) n = store_inner_sig (run [] l2) n /\
              store_num_out (run [] l1) n = store_num_out (run [] l2) n.
Proof. exact hist_answers_ignore_the_past. Qed.
(* non-vacuity: Noop(usize) at index 3 deleted, the index reused by MakeTuple([qubit, usize]) *)
Example C06_hist_example :
  current ex_hist 3 (OMakeTuple (Some [TQubit; TUSize])) /\ vacant ex_hist 4 /\
  store_port_type vt0 (run [] ex_hist) 3 Out 0 = Some (Ret (Some (TSum [[TQubit; TUSize]]))) /\
  store_port_kind vt0 (run [] ex_hist) 3 Out 0 = Some (Ret (ValueKind (TSum [[TQubit; TUSize]]))) /\
  store_port_type vt0 (run [] [SPut 3 (ONoop (Some TUSize))]) 3 Out 0 = Some (Ret (Some TUSize)).
Proof. exact ex_hist_reuse. Qed.

(* ---- composition with C05 (second deepening pass): C05's codec model of operations (model/CodecOps.v) and the
   typing model above are related by the translation [to_c06] (model/OpsBridge.v; total: every one of the 21
   serialised kinds, ExtOp / Custom and the sugar tags has a counterpart; only C06 has MakeTuple / UnpackTuple /
   Noop as classes of their own and operations with fields still to be filled in).  C05's names are written
   qualified (CodecOps.op ...); [V H] is C05's value model, typed by its own [type_of]. ---- *)
From HV Require model.Codec model.CodecVals model.CodecOps proofs.CodecOpsP proofs.CodecDocP.
From HV Require model.ComposeDepth proofs.ComposeDepthP proofs.ComposeExamplesP.
From HV Require Import model.OpsBridge proofs.OpsBridgeP.

Theorem C06_codec_translation_covers : forall H,
  (forall o : CodecOps.op H, c06_only (to_c06 o) = false) /\
  (forall o' : op (V H), c06_only o' = false -> exists o : CodecOps.op H, to_c06 o = o') /\
  (forall o' : op (V H), of_c06 o' = None <-> c06_only o' = true) /\
  (forall (o' : op (V H)) (o : CodecOps.op H), of_c06 o' = Some o -> to_c06 o = o').
Proof. exact translation_covers. Qed.

(* the derived facts C05 records for an operation (outer and inner signature rows, output count, static port
   type: by encoded form) are the answers of the model above for its translation ... *)
Theorem C06_codec_facts_are_model_answers : forall H h_type (o : CodecOps.op H), bridge_ok o = true ->
  CodecOps.op_facts H h_type o = enc_reports (c06_reports H h_type (to_c06 o)).
Proof. exact facts_are_reports. Qed.
(* ... for every operation C05's guard admits (the object could be encoded) ... *)
Theorem C06_codec_encodable_is_bridged : forall H h_ok (o : CodecOps.op H),
  CodecOps.op_ok H h_ok o = true -> bridge_ok o = true.
Proof. exact op_ok_bridge_ok. Qed.
(* ... hence the ones the specification assigns: stated on spec/OpsS.v alone (spec_sig / spec_inner_sig /
   spec_num_out / static_port) and through the typing relation *)
Theorem C06_codec_facts_are_specified : forall H h_type (o : CodecOps.op H),
  bridge_ok o = true -> tag_in_range o = true ->
  CodecOps.op_facts H h_type o = enc_assigned (c06_assigned H h_type (to_c06 o)).
Proof. exact facts_are_assigned. Qed.
Theorem C06_codec_facts_are_has_sig : forall H h_type (o : CodecOps.op H), bridge_ok o = true ->
  (forall s, has_sig (to_c06 o) s <->
             CodecOps.f_outer (CodecOps.op_facts H h_type o) = Some (enc_rows s) /\ spec_sig (to_c06 o) = Some s) /\
  (forall s, has_inner_sig (to_c06 o) s <->
             CodecOps.f_inner (CodecOps.op_facts H h_type o) = Some (enc_rows s) /\ spec_inner_sig (to_c06 o) = Some s) /\
  (forall n, spec_num_out (to_c06 o) = Some n -> CodecOps.f_num_out (CodecOps.op_facts H h_type o) = Some (N.of_nat n)).
Proof. exact facts_are_has_sig. Qed.

(* decoding an encoded operation yields an operation whose signature, inner signature, output count and port
   kinds (every offset, both directions) are STILL the ones the specification assigns to the original -- types
   compared by their encoding, i.e. up to Python equality ([rows_same], [kind_same]: an extension type comes back
   opaque, a UnitSum held by a Tag / Conditional / block as the general Sum) -- and nothing new is assigned.
   Parametric in the payload of function-valued constants exactly like C05_op_roundtrip (the hypothesis is the
   payload's own round trip); the depth-0 corollary below has no hypothesis. *)
Theorem C06_codec_preserves_spec_signature : forall H SH (h_enc : H -> SH) h_dec h_nf h_type h_ok,
  (forall h, h_ok h = true -> h_dec (h_enc h) = h_nf h /\ h_enc (h_nf h) = h_enc h /\
                              Codec.func_to_serial (h_type (h_nf h)) = Codec.func_to_serial (h_type h)) ->
  forall (o : CodecOps.op H) (parent : N), CodecOpsP.OpOK H h_ok o ->
    let o2 := CodecOps.op_deserialize H SH h_dec (CodecOps.op_to_serial H SH h_enc o parent) in
    (forall s, has_sig (to_c06 o) s ->
       exists s2 f2, has_sig (to_c06 o2) s2 /\ rows_same s s2 /\ df_sig (to_c06 o2) = Ret f2 /\ (f_in f2, f_out f2) = s2) /\
    (forall s2, has_sig (to_c06 o2) s2 -> exists s, has_sig (to_c06 o) s /\ rows_same s s2) /\
    (forall s, has_inner_sig (to_c06 o) s ->
       exists s2 f2, has_inner_sig (to_c06 o2) s2 /\ rows_same s s2 /\ inner_sig (to_c06 o2) = Ret f2 /\ (f_in f2, f_out f2) = s2) /\
    (forall n, spec_num_out (to_c06 o) = Some n ->
       spec_num_out (to_c06 o2) = Some n /\ num_out (to_c06 o2) = Ret (Z.of_nat n)) /\
    (forall d z, match spec_port_kind (ct H h_type) (to_c06 o) d z with
                 | Port k => exists k2, port_kind (vt H h_type) (to_c06 o2) d z = Ret k2 /\ kind_same k k2
                 | NoPort => is_typed (port_kind (vt H h_type) (to_c06 o2) d z) = false
                 | Unspecified => True
                 end) /\
    CodecOps.op_facts H h_type o2 = enc_reports (c06_reports H h_type (to_c06 o)).
Proof. exact codec_preserves_spec. Qed.
Theorem C06_codec_preserves_spec_signature_depth0 : forall (o : CodecOps.op E0) (parent : N), CodecOpsP.OpOK E0 e0_ok o ->
    let o2 := CodecOps.op_deserialize E0 E0 e0 (CodecOps.op_to_serial E0 E0 e0 o parent) in
    (forall s, has_sig (to_c06 o) s ->
       exists s2 f2, has_sig (to_c06 o2) s2 /\ rows_same s s2 /\ df_sig (to_c06 o2) = Ret f2 /\ (f_in f2, f_out f2) = s2) /\
    (forall s2, has_sig (to_c06 o2) s2 -> exists s, has_sig (to_c06 o) s /\ rows_same s s2) /\
    (forall s, has_inner_sig (to_c06 o) s ->
       exists s2 f2, has_inner_sig (to_c06 o2) s2 /\ rows_same s s2 /\ inner_sig (to_c06 o2) = Ret f2 /\ (f_in f2, f_out f2) = s2) /\
    (forall n, spec_num_out (to_c06 o) = Some n ->
       spec_num_out (to_c06 o2) = Some n /\ num_out (to_c06 o2) = Ret (Z.of_nat n)) /\
    (forall d z, match spec_port_kind (ct E0 e0_type) (to_c06 o) d z with
                 | Port k => exists k2, port_kind (vt E0 e0_type) (to_c06 o2) d z = Ret k2 /\ kind_same k k2
                 | NoPort => is_typed (port_kind (vt E0 e0_type) (to_c06 o2) d z) = false
                 | Unspecified => True
                 end) /\
    CodecOps.op_facts E0 e0_type o2 = enc_reports (c06_reports E0 e0_type (to_c06 o)).
Proof. exact codec_preserves_spec_depth0. Qed.
(* the specification's classification of every port, original against normal form of the decoded operation *)
Theorem C06_codec_port_classification_preserved : forall H SH (h_enc : H -> SH) h_dec h_nf h_type h_ok,
  (forall h, h_ok h = true -> h_dec (h_enc h) = h_nf h /\ h_enc (h_nf h) = h_enc h /\
                              Codec.func_to_serial (h_type (h_nf h)) = Codec.func_to_serial (h_type h)) ->
  forall (o : CodecOps.op H) d z, CodecOpsP.OpOK H h_ok o ->
    pspec_same (spec_port_kind (ct H h_type) (to_c06 o) d z)
               (spec_port_kind (ct H h_type) (to_c06 (CodecOps.op_nf H h_nf o)) d z).
Proof. exact spec_port_kind_nf. Qed.

(* the same for EVERY payload type (any nesting depth of function constants) without any hypothesis, for every
   operation holding no function-valued constant ([no_payload]: the guard admitting no payload, under which
   C05's [OpOK] excludes exactly the constants containing a val.Function) *)
Theorem C06_codec_preserves_spec_signature_no_function_constants : forall H SH (h_enc : H -> SH) (h_dec : SH -> H) h_type,
  forall (o : CodecOps.op H) (parent : N), CodecOpsP.OpOK H (@no_payload H) o ->
    let o2 := CodecOps.op_deserialize H SH h_dec (CodecOps.op_to_serial H SH h_enc o parent) in
    (forall s, has_sig (to_c06 o) s ->
       exists s2 f2, has_sig (to_c06 o2) s2 /\ rows_same s s2 /\ df_sig (to_c06 o2) = Ret f2 /\ (f_in f2, f_out f2) = s2) /\
    (forall s2, has_sig (to_c06 o2) s2 -> exists s, has_sig (to_c06 o) s /\ rows_same s s2) /\
    (forall s, has_inner_sig (to_c06 o) s ->
       exists s2 f2, has_inner_sig (to_c06 o2) s2 /\ rows_same s s2 /\ inner_sig (to_c06 o2) = Ret f2 /\ (f_in f2, f_out f2) = s2) /\
    (forall n, spec_num_out (to_c06 o) = Some n ->
       spec_num_out (to_c06 o2) = Some n /\ num_out (to_c06 o2) = Ret (Z.of_nat n)) /\
    (forall d z, match spec_port_kind (ct H h_type) (to_c06 o) d z with
                 | Port k => exists k2, port_kind (vt H h_type) (to_c06 o2) d z = Ret k2 /\ kind_same k k2
                 | NoPort => is_typed (port_kind (vt H h_type) (to_c06 o2) d z) = false
                 | Unspecified => True
                 end) /\
    CodecOps.op_facts H h_type o2 = enc_reports (c06_reports H h_type (to_c06 o)).
Proof. exact codec_preserves_spec_no_function_constants. Qed.

(* ... and at ANY nesting depth n of function-valued constants, function constants included, with no hypothesis
   about operations or payloads: the payload hypothesis is the round trip of the embedded HUGR, which
   proofs/ComposeDepthP.v (C02 o C05, [tower_rt]) proves for the tower HT md n / ST md n of HUGRs / documents
   embedded to depth n (okT: that theorem's own premises on the embedded HUGRs -- C02's guard, C05's op_ok on every
   node, a root with an inner signature -- as a boolean).  [md] is the metadata type with its empty value; the
   closed form below takes the harness's interned metadata (N, 0 = {}) *)
Theorem C06_codec_preserves_spec_signature_any_depth :
  forall (md : Type) (md_nil : md) (md_is_nil : md -> bool),
    md_is_nil md_nil = true -> (forall m, md_is_nil m = true -> m = md_nil) ->
  forall (n : nat) (o : CodecOps.op (ComposeDepth.HT md n)) (parent : N),
    CodecOpsP.OpOK (ComposeDepth.HT md n) (ComposeDepth.okT md md_is_nil n) o ->
    let H := ComposeDepth.HT md n in
    let h_type := ComposeDepth.typeT md n in
    let o2 := CodecOps.op_deserialize H (ComposeDepth.ST md n) (ComposeDepth.decT md md_nil n)
                (CodecOps.op_to_serial H (ComposeDepth.ST md n) (ComposeDepth.encT md md_is_nil n) o parent) in
    (forall s, has_sig (to_c06 o) s ->
       exists s2 f2, has_sig (to_c06 o2) s2 /\ rows_same s s2 /\ df_sig (to_c06 o2) = Ret f2 /\ (f_in f2, f_out f2) = s2) /\
    (forall s2, has_sig (to_c06 o2) s2 -> exists s, has_sig (to_c06 o) s /\ rows_same s s2) /\
    (forall s, has_inner_sig (to_c06 o) s ->
       exists s2 f2, has_inner_sig (to_c06 o2) s2 /\ rows_same s s2 /\ inner_sig (to_c06 o2) = Ret f2 /\ (f_in f2, f_out f2) = s2) /\
    (forall k, spec_num_out (to_c06 o) = Some k ->
       spec_num_out (to_c06 o2) = Some k /\ num_out (to_c06 o2) = Ret (Z.of_nat k)) /\
    (forall d z, match spec_port_kind (ct H h_type) (to_c06 o) d z with
                 | Port k => exists k2, port_kind (vt H h_type) (to_c06 o2) d z = Ret k2 /\ kind_same k k2
                 | NoPort => is_typed (port_kind (vt H h_type) (to_c06 o2) d z) = false
                 | Unspecified => True
                 end) /\
    CodecOps.op_facts H h_type o2 = enc_reports (c06_reports H h_type (to_c06 o)).
Proof. exact codec_preserves_spec_any_depth. Qed.
Theorem C06_codec_preserves_spec_signature_any_depth_closed :
  forall (n : nat) (o : CodecOps.op (ComposeDepth.HT N n)) (parent : N),
    CodecOpsP.OpOK (ComposeDepth.HT N n) (ComposeDepth.okT N ComposeExamplesP.is0 n) o ->
    let H := ComposeDepth.HT N n in
    let h_type := ComposeDepth.typeT N n in
    let o2 := CodecOps.op_deserialize H (ComposeDepth.ST N n) (ComposeDepth.decT N 0%N n)
                (CodecOps.op_to_serial H (ComposeDepth.ST N n) (ComposeDepth.encT N ComposeExamplesP.is0 n) o parent) in
    (forall s, has_sig (to_c06 o) s ->
       exists s2 f2, has_sig (to_c06 o2) s2 /\ rows_same s s2 /\ df_sig (to_c06 o2) = Ret f2 /\ (f_in f2, f_out f2) = s2) /\
    (forall s2, has_sig (to_c06 o2) s2 -> exists s, has_sig (to_c06 o) s /\ rows_same s s2) /\
    (forall s, has_inner_sig (to_c06 o) s ->
       exists s2 f2, has_inner_sig (to_c06 o2) s2 /\ rows_same s s2 /\ inner_sig (to_c06 o2) = Ret f2 /\ (f_in f2, f_out f2) = s2) /\
    (forall k, spec_num_out (to_c06 o) = Some k ->
       spec_num_out (to_c06 o2) = Some k /\ num_out (to_c06 o2) = Ret (Z.of_nat k)) /\
    (forall d z, match spec_port_kind (ct H h_type) (to_c06 o) d z with
                 | Port k => exists k2, port_kind (vt H h_type) (to_c06 o2) d z = Ret k2 /\ kind_same k k2
                 | NoPort => is_typed (port_kind (vt H h_type) (to_c06 o2) d z) = false
                 | Unspecified => True
                 end) /\
    CodecOps.op_facts H h_type o2 = enc_reports (c06_reports H h_type (to_c06 o)).
Proof. exact codec_preserves_spec_any_depth_closed. Qed.
(* non-vacuity at depth 1: a Const holding a function value whose body is a 5-node DFG bool -> option(bool) (itself
   containing a constant): the constant port carries the function type of the body's root before and after *)
Example C06_codec_example_function_constant :
  CodecOpsP.OpOK (ComposeDepth.HT N 1) (ComposeDepth.okT N ComposeExamplesP.is0 1) exb_fconst /\
  spec_port_kind (ct (ComposeDepth.HT N 1) (ComposeDepth.typeT N 1)) (to_c06 exb_fconst) Out 0 =
    Port (ConstKind ComposeExamplesP.tfn) /\
  spec_num_out (to_c06 exb_fconst) = Some 1%nat /\
  port_kind (vt (ComposeDepth.HT N 1) (ComposeDepth.typeT N 1))
    (to_c06 (CodecOps.op_deserialize (ComposeDepth.HT N 1) (ComposeDepth.ST N 1) (ComposeDepth.decT N 0%N 1)
               (CodecOps.op_to_serial (ComposeDepth.HT N 1) (ComposeDepth.ST N 1) (ComposeDepth.encT N ComposeExamplesP.is0 1) exb_fconst 0%N)))
    Out 0 = Ret (ConstKind ComposeExamplesP.tfn).
Proof. exact ex_bridge_function_constant. Qed.

(* the translation forgets nothing but the description of an ExtOp's definition (not part of the model above) *)
Theorem C06_codec_translation_faithful : forall H (o : CodecOps.op H), of_c06 (to_c06 o) = Some (forget_descr o).
Proof. exact of_c06_to_c06. Qed.
(* the two independently written models of _CallOrLoad.__init__ agree: C05's guard CallWF (the object is one the
   constructor can have built) holds exactly when the constructor model above builds the translated operation *)
Theorem C06_codec_call_constructors_agree : forall H (sig : Codec.polytype) (inst : Codec.functype) (ta : list tyarg),
  (CodecOpsP.CallWF sig inst ta <->
     call_new (pl sig) (Some (fn inst)) (Some ta) = Ret (to_c06 (CodecOps.OCall (H:=H) sig inst ta))) /\
  (CodecOpsP.CallWF sig inst ta <->
     loadfunc_new (pl sig) (Some (fn inst)) (Some ta) = Ret (to_c06 (CodecOps.OLoadFunc (H:=H) sig inst ta))).
Proof. exact call_constructors_agree. Qed.

(* the direction of documents this library did not write: whatever serial operation is decoded (any payload, no
   guard: a decoded operation is never a block over a non-sum nor an ExtOp), the derived facts of the decoded
   operation are the answers of the model above for it *)
Theorem C06_codec_decoded_facts_are_model_answers : forall H SH (h_dec : SH -> H) h_type (s : CodecOps.sop SH),
  CodecOps.op_facts H h_type (CodecOps.op_deserialize H SH h_dec s) =
  enc_reports (c06_reports H h_type (to_c06 (CodecOps.op_deserialize H SH h_dec s))).
Proof. exact decoded_facts_are_reports. Qed.

(* C05's sugar tag operations are the sugar constructors of the model above, with the specified signature *)
Theorem C06_codec_sugar_tags : forall H (s : CodecOps.tagsugar),
  to_c06 (CodecOps.sugar_tag H s) =
    match s with
    | CodecOps.TgSome l => some_new l
    | CodecOps.TgRight l r | CodecOps.TgBreak l r => right_new (TSum [l; r])
    | CodecOps.TgLeft l r | CodecOps.TgContinue l r => left_new (TSum [l; r])
    end /\
  has_sig (to_c06 (CodecOps.sugar_tag H s))
    match s with
    | CodecOps.TgSome l => (l, [TSum [[]; l]])
    | CodecOps.TgRight l r | CodecOps.TgBreak l r => (r, [TSum [l; r]])
    | CodecOps.TgLeft l r | CodecOps.TgContinue l r => (l, [TSum [l; r]])
    end.
Proof. exact sugar_tags_agree. Qed.

(* non-vacuity (proofs/OpsBridgeP.v): a Call of forall (r : [Type]). r -> r instantiated at [usize, ext] (arity 1 ->
   2, the function port at 2, the extension type decoded opaque); a TailLoop with just-inputs [ext], just-outputs
   [usize, qubit], rest [qubit]; a Conditional over the compact UnitSum(2), decoded as Sum([[],[]]): signature
   preserved up to Python equality and NOT syntactically; the sugar operation Right([ext], [usize, qubit]) *)
Example C06_codec_example_call :
  CodecOpsP.OpOK E0 e0_ok exb_call /\
  has_sig (to_c06 exb_call) ([TUSize; ex_ext], [TUSize; ex_ext]) /\
  spec_port_kind (ct E0 e0_type) (to_c06 exb_call) In 2 = Port (FunctionKind (pl exb_poly)) /\
  spec_num_out (to_c06 exb_call) = Some 2%nat /\
  has_sig (to_c06 (CodecOps.op_deserialize E0 E0 e0 (CodecOps.op_to_serial E0 E0 e0 exb_call 0%N))) ([TUSize; ex_opq], [TUSize; ex_opq]) /\
  port_kind (vt E0 e0_type) (to_c06 (CodecOps.op_deserialize E0 E0 e0 (CodecOps.op_to_serial E0 E0 e0 exb_call 0%N))) In 2 = Ret (FunctionKind (pl exb_poly)) /\
  port_kind (vt E0 e0_type) (to_c06 (CodecOps.op_deserialize E0 E0 e0 (CodecOps.op_to_serial E0 E0 e0 exb_call 0%N))) In 1 = Ret (ValueKind ex_opq) /\
  num_out (to_c06 (CodecOps.op_deserialize E0 E0 e0 (CodecOps.op_to_serial E0 E0 e0 exb_call 0%N))) = Ret 2 /\
  rows_same ([TUSize; ex_ext], [TUSize; ex_ext]) ([TUSize; ex_opq], [TUSize; ex_opq]) /\
  CodecOps.f_outer (CodecOps.op_facts E0 e0_type exb_call) = Some (enc_rows ([TUSize; ex_ext], [TUSize; ex_ext])).
Proof. exact ex_bridge_call. Qed.
Example C06_codec_example_tailloop :
  CodecOpsP.OpOK E0 e0_ok exb_loop /\
  has_sig (to_c06 exb_loop) ([ex_ext; TQubit], [TUSize; TQubit; TQubit]) /\
  has_inner_sig (to_c06 exb_loop) ([ex_ext; TQubit], [TSum [[ex_ext]; [TUSize; TQubit]]; TQubit]) /\
  has_sig (to_c06 (CodecOps.op_deserialize E0 E0 e0 (CodecOps.op_to_serial E0 E0 e0 exb_loop 0%N))) ([ex_opq; TQubit], [TUSize; TQubit; TQubit]) /\
  has_inner_sig (to_c06 (CodecOps.op_deserialize E0 E0 e0 (CodecOps.op_to_serial E0 E0 e0 exb_loop 0%N)))
                ([ex_opq; TQubit], [TSum [[ex_opq]; [TUSize; TQubit]]; TQubit]) /\
  num_out (to_c06 (CodecOps.op_deserialize E0 E0 e0 (CodecOps.op_to_serial E0 E0 e0 exb_loop 0%N))) = Ret 3 /\
  CodecOps.op_facts E0 e0_type (CodecOps.op_deserialize E0 E0 e0 (CodecOps.op_to_serial E0 E0 e0 exb_loop 0%N)) =
    enc_reports (c06_reports E0 e0_type (to_c06 exb_loop)).
Proof. exact ex_bridge_tailloop. Qed.
Example C06_codec_example_conditional :
  CodecOpsP.OpOK E0 e0_ok exb_cond /\
  has_sig (to_c06 exb_cond) ([TUnitSum 2; ex_ext], [TQubit]) /\
  case_inputs (to_c06 exb_cond) 1 [ex_ext] /\
  has_sig (to_c06 (CodecOps.op_deserialize E0 E0 e0 (CodecOps.op_to_serial E0 E0 e0 exb_cond 0%N))) ([TSum [[]; []]; ex_opq], [TQubit]) /\
  case_inputs (to_c06 (CodecOps.op_deserialize E0 E0 e0 (CodecOps.op_to_serial E0 E0 e0 exb_cond 0%N))) 1 [ex_opq] /\
  rows_same ([TUnitSum 2; ex_ext], [TQubit]) ([TSum [[]; []]; ex_opq], [TQubit]) /\
  ([TUnitSum 2; ex_ext], [TQubit]) <> ([TSum [[]; []]; ex_opq], [TQubit]).
Proof. exact ex_bridge_conditional. Qed.
Example C06_codec_example_tag_sugar :
  CodecOpsP.OpOK E0 e0_ok exb_right /\
  to_c06 exb_right = right_new (TSum [[ex_ext]; [TUSize; TQubit]]) /\
  has_sig (to_c06 exb_right) ([TUSize; TQubit], [TSum [[ex_ext]; [TUSize; TQubit]]]) /\
  has_sig (to_c06 (CodecOps.op_deserialize E0 E0 e0 (CodecOps.op_to_serial E0 E0 e0 exb_right 0%N)))
          ([TUSize; TQubit], [TSum [[ex_opq]; [TUSize; TQubit]]]) /\
  port_kind (vt E0 e0_type) (to_c06 (CodecOps.op_deserialize E0 E0 e0 (CodecOps.op_to_serial E0 E0 e0 exb_right 0%N))) Out 0 =
    Ret (ValueKind (TSum [[ex_opq]; [TUSize; TQubit]])) /\
  num_out (to_c06 (CodecOps.op_deserialize E0 E0 e0 (CodecOps.op_to_serial E0 E0 e0 exb_right 0%N))) = Ret 1.
Proof. exact ex_bridge_tag_sugar. Qed.

Print Assumptions C06_signature_is_specified.
Print Assumptions C06_signature_only_specified.
Print Assumptions C06_signature_unique.
Print Assumptions C06_inner_signature_is_specified.
Print Assumptions C06_inner_signature_only_specified.
Print Assumptions C06_dfg_outer_is_inner.
Print Assumptions C06_conditional.
Print Assumptions C06_case_inputs.
Print Assumptions C06_tailloop.
Print Assumptions C06_block_successor_inputs.
Print Assumptions C06_tag.
Print Assumptions C06_make_unpack_inverse.
Print Assumptions C06_callindirect.
Print Assumptions C06_call_ports_use_instantiation.
Print Assumptions C06_loadfunc_ports.
Print Assumptions C06_loadconst_const_agree.
Print Assumptions C06_port_kind_correct.
Print Assumptions C06_no_invented_port.
Print Assumptions C06_num_out_correct.
Print Assumptions C06_value_out_type_is_kind_payload.
Print Assumptions C06_reported_type_is_specified.
Print Assumptions C06_port_type_admissible.
Print Assumptions C06_port_type_call_inputs_admissible.
Print Assumptions C06_in_port_type_none_or_specified.
Print Assumptions C06_call_counts_orig_refuted.
Print Assumptions C06_order_port_orig_refuted.
Print Assumptions C06_store_holds_last_op.
Print Assumptions C06_store_vacant.
Print Assumptions C06_hist_port_kind_correct.
Print Assumptions C06_hist_no_invented_port.
Print Assumptions C06_hist_value_out_type_is_kind_payload.
Print Assumptions C06_hist_signature_is_specified.
Print Assumptions C06_hist_num_out_correct.
Print Assumptions C06_hist_vacant_no_answer.
Print Assumptions C06_hist_answers_ignore_the_past.
Print Assumptions C06_codec_translation_covers.
Print Assumptions C06_codec_facts_are_model_answers.
Print Assumptions C06_codec_encodable_is_bridged.
Print Assumptions C06_codec_facts_are_specified.
Print Assumptions C06_codec_facts_are_has_sig.
Print Assumptions C06_codec_preserves_spec_signature.
Print Assumptions C06_codec_preserves_spec_signature_depth0.
Print Assumptions C06_codec_port_classification_preserved.
Print Assumptions C06_codec_sugar_tags.
Print Assumptions C06_codec_example_call.
Print Assumptions C06_codec_example_tailloop.
Print Assumptions C06_codec_example_conditional.
Print Assumptions C06_codec_example_tag_sugar.
Print Assumptions C06_codec_preserves_spec_signature_no_function_constants.
Print Assumptions C06_codec_translation_faithful.
Print Assumptions C06_codec_call_constructors_agree.
Print Assumptions C06_codec_decoded_facts_are_model_answers.
Print Assumptions C06_codec_preserves_spec_signature_any_depth.
Print Assumptions C06_codec_preserves_spec_signature_any_depth_closed.
Print Assumptions C06_codec_example_function_constant.
