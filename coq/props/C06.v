(* stub *)
From HV Require Import model.Ops spec.OpsS.
Theorem C06_stub : True. Proof. exact I. Qed.
Print Assumptions C06_stub.
