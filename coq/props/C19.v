(* C19 — Shot results convert to register bitstrings by the documented convention. *)
From Coq Require Import ZArith List Bool Arith.
Import ListNotations.
From HV Require Import lib.PyDict lib.Harness model.Shots spec.ShotsS proofs.ShotsP proofs.ShotsMultiP.

(* replaying the entries in order as writes: for every register, the result is the pointwise reading
   (latest indexed write to j after the last whole-register write, else that write's bit j, else 0;
   length = max of the whole write's length and 1 + highest index written after it) *)
Theorem C19_bits_pointwise : forall es ws, mapM entry_write es = Ok ws ->
  exists rb, to_register_bits es = Ok rb /\ NoDup (keys rb) /\ forall r, dget tag_eqb rb r = reg_spec ws r.
Proof. exact bits_pointwise. Qed.

Theorem C19_bits_length_and_content : forall es ws rb r s,
  mapM entry_write es = Ok ws -> to_register_bits es = Ok rb -> dget tag_eqb rb r = Some s ->
  writes_rev r ws <> [] /\ length s = len_spec (writes_rev r ws) /\
  forall j, j < length s -> nth j s false = bit_spec (writes_rev r ws) j.
Proof. exact bits_length_and_content. Qed.

(* a value that is not a bit is rejected with ValueError (and only then) *)
Theorem C19_nonbit_rejected : forall es, to_register_bits es = ValueError <-> mapM entry_write es = ValueError.
Proof. exact nonbit_rejected. Qed.

(* collation: per tag, all values of the shot in entry order *)
Theorem C19_collate_in_entry_order : forall es t,
  dget tag_eqb (collate es) t = match values_of es t with [] => None | vs => Some vs end.
Proof. exact collate_in_entry_order. Qed.

(* many shots: for every register the list holds the per-shot strings in shot order (shots that do not
   write the register contribute nothing); strict_names rejects exactly when some shot's register set
   differs from the first shot's, strict_lengths exactly when two strings of one register differ in
   length; a non-bit anywhere is rejected whatever the flags *)
Theorem C19_multi_shot : forall sn sl shots bits, mapM to_register_bits shots = Ok bits ->
  if (sn && names_differ bits) || (sl && lengths_differ bits)
  then register_bitstrings sn sl shots = ValueError
  else exists sd, register_bitstrings sn sl shots = Ok sd /\ NoDup (keys sd) /\
                  forall r, dget tag_eqb sd r = opt (per_register bits r).
Proof. exact multi_shot_spec. Qed.
Theorem C19_multi_shot_rejects_nonbits : forall sn sl shots,
  mapM to_register_bits shots = ValueError -> register_bitstrings sn sl shots = ValueError.
Proof. exact multi_shot_rejects_nonbits. Qed.

(* non-vacuity: interleaved whole/indexed writes; later writes override earlier ones *)
Example C19_example :
  let es := [([97], DPrim (PInt 1)); ([97; 91; 50; 93], DPrim (PBool true)); ([97; 91; 48; 93], DPrim (PInt 0))]%Z in
  to_register_bits es = Ok [([97%Z], [false; false; true])] /\
  exists ws, mapM entry_write es = Ok ws.
Proof. split; [reflexivity|]. eexists. reflexivity. Qed.

Print Assumptions C19_bits_pointwise.
Print Assumptions C19_bits_length_and_content.
Print Assumptions C19_nonbit_rejected.
Print Assumptions C19_collate_in_entry_order.
Print Assumptions C19_multi_shot.
Print Assumptions C19_multi_shot_rejects_nonbits.
