(* C19 — Shot results convert to register bitstrings by the documented convention. *)
From Coq Require Import ZArith List Bool Arith.
Import ListNotations.
From HV Require Import lib.PyDict lib.Harness model.Shots spec.ShotsS proofs.ShotsP.

(* replaying the entries in order as writes: for every register, the result is the pointwise reading
   (latest indexed write to j after the last whole-register write, else that write's bit j, else 0;
   length = max of the whole write's length and 1 + highest index written after it) *)
Theorem C19_bits_pointwise : forall es ws, mapM entry_write es = Ok ws ->
  exists rb, to_register_bits es = Ok rb /\ NoDup (keys rb) /\ forall r, dget tag_eqb rb r = reg_spec ws r.
Proof. exact bits_pointwise. Qed.

Theorem C19_bits_length_and_content : forall es ws rb r s,
  mapM entry_write es = Ok ws -> to_register_bits es = Ok rb -> dget tag_eqb rb r = Some s ->
  writes_rev r ws <> [] /\ length s = len_spec (writes_rev r ws) /\
  forall j, j < length s -> nth j s false = bit_spec (writes_rev r ws) j.
Proof. exact bits_length_and_content. Qed.

(* a value that is not a bit is rejected with ValueError (and only then) *)
Theorem C19_nonbit_rejected : forall es, to_register_bits es = ValueError <-> mapM entry_write es = ValueError.
Proof. exact nonbit_rejected. Qed.

(* collation: per tag, all values of the shot in entry order *)
Theorem C19_collate_in_entry_order : forall es t,
  dget tag_eqb (collate es) t = match values_of es t with [] => None | vs => Some vs end.
Proof. exact collate_in_entry_order. Qed.

(* non-vacuity: interleaved whole/indexed writes; later writes override earlier ones *)
Example C19_example :
  let es := [([97], DPrim (PInt 1)); ([97; 91; 50; 93], DPrim (PBool true)); ([97; 91; 48; 93], DPrim (PInt 0))]%Z in
  to_register_bits es = Ok [([97%Z], [false; false; true])] /\
  exists ws, mapM entry_write es = Ok ws.
Proof. split; [reflexivity|]. eexists. reflexivity. Qed.

Print Assumptions C19_bits_pointwise.
Print Assumptions C19_bits_length_and_content.
Print Assumptions C19_nonbit_rejected.
Print Assumptions C19_collate_in_entry_order.
