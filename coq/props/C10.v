(* C10 — Extension definitions round-trip; the bundled standard library matches the spec. *)
From Coq Require Import NArith ZArith List Bool Arith.
Import ListNotations.
From HV Require Import lib.PyDict lib.Harness model.Types model.ExtDefs spec.ExtDefsS
  proofs.ExtDefsP proofs.StdExtP gen.StdExt.

(* Every extension built through Extension(name, version, reqs) and any sequence of add_type_def /
   add_op_def / add_extension_value (operation signatures accepted by OpDefSig's constructor) serialises;
   the document loads; the loaded extension has the same name, version, requirement set, and, in order,
   the same type definitions, operation definitions (signature parameters, types, requirement set, binary
   flag, description, misc) and values; it re-serialises to the same document.  ser_t/deser_t and
   ser_v/deser_v are the type and value codecs (property C05), of which only the fixed-point law is used. *)
Theorem C10_ext_roundtrip :
  forall (T ST V SV M : Type) (ser_t : T -> ST) (deser_t : ST -> T) (ser_v : V -> SV) (deser_v : SV -> V),
  (forall t, ser_t (deser_t (ser_t t)) = ser_t t) -> (forall v, ser_v (deser_v (ser_v v)) = ser_v v) ->
  forall n v r (cs : list (cmd T V M)), Forall cmd_ok cs ->
  let e := build (new_ext n v r) cs in
  exists s e', to_serial ser_t ser_v e = Ok s /\ deserialize deser_t deser_v s = Ok e' /\
               to_serial ser_t ser_v e' = Ok s /\ preserved ser_t ser_v e e' /\ names_owner e'.
Proof. exact @roundtrip_history. Qed.

(* owner invariant over construction histories (no guard) ... *)
Theorem C10_opdef_names_owner_built :
  forall (T V M : Type) n v r (cs : list (cmd T V M)), names_owner (build (new_ext n v r) cs).
Proof. exact @names_owner_history. Qed.
(* ... and for everything deserialize returns, whatever the document said *)
Theorem C10_opdef_names_owner_loaded :
  forall (T ST V SV M : Type) (deser_t : ST -> T) (deser_v : SV -> V) (s : sextension ST SV M) e,
  deserialize deser_t deser_v s = Ok e -> names_owner e.
Proof. exact @deserialize_names_owner. Qed.

(* several extensions and definition objects added to them in any pattern, including the same object added
   to different extensions (add_* then stores a copy): every extension keeps the owner invariant, and adding
   to one extension leaves the others as they were *)
Theorem C10_opdef_names_owner_shared :
  forall (T V M : Type) (hdrs : list (name * version * list name)) (objs : list (obj T V M)) p,
  let w := {| w_exts := map (fun h => new_ext (fst (fst h)) (snd (fst h)) (snd h)) hdrs; w_objs := objs |} in
  forall e, In e (w_exts (share_run w p)) -> names_owner e.
Proof. exact @shared_names_owner. Qed.
Theorem C10_add_leaves_other_extensions :
  forall (T V M : Type) (w : world T V M) ij k, k <> fst ij ->
  nth_error (w_exts (share_step w ij)) k = nth_error (w_exts w) k.
Proof. exact @share_frame. Qed.

(* the same with object IDENTITY (model/ExtDefs.v Section Heap): Extension objects are indices, definition
   objects live in a heap and carry an `_extension` pointer, dictionaries hold addresses; the Extension
   objects of a world may carry the SAME name (an extension and its loaded copy, two versions of one
   extension).  Whatever is added to whichever of them in whatever order — the same definition object to
   several included — every operation definition HELD by Extension object number i is a live operation
   whose owner pointer is i itself and whose signature names the extension among its requirements ... *)
Theorem C10_opdef_reports_owner_object :
  forall (T V M : Type) (hdrs : list (name * version * list name)) (objs : list (obj T V M)) p,
  heap_names_owner (hrun (new_heapw hdrs objs) p).
Proof. exact @heap_names_owner_run. Qed.
(* ... and adding to one Extension object leaves every other one as it was: same dictionaries, and every
   definition it holds keeps its fields and its owner pointer *)
Theorem C10_add_leaves_other_extension_objects :
  forall (T V M : Type) (hdrs : list (name * version * list name)) (objs : list (obj T V M)) p,
  let w := hrun (new_heapw hdrs objs) p in
  forall ij k x, k <> fst ij -> nth_error (hw_exts w) k = Some x ->
  nth_error (hw_exts (hstep w ij)) k = Some x /\
  view (hw_heap (hstep w ij)) x = view (hw_heap w) x /\
  held_owners (hw_heap (hstep w ij)) x = held_owners (hw_heap w) x.
Proof. exact @heap_frame_run. Qed.
(* deciding "already owned by another extension" by NAME instead of identity breaks the statement: two
   Extension objects named alike, one definition added to the first and then to the second *)
Theorem C10_owner_by_name_refuted :
  let w := fold_left hstep_by_name [(0, 0); (1, 0)] ex_world in
  ~ heap_names_owner w /\
  map (held_owners (hw_heap w)) (hw_exts w) = [[(20%N, Some 1, Some [7%N])]; [(20%N, Some 1, Some [7%N])]].
Proof. exact by_name_refuted. Qed.

(* ONE Extension object over time (seeded round 4): definitions are added and in between the object is serialised
   (SSer) or serialised and replaced by the object loaded back (SLoad), any number of times in any order.  Every
   document written during the session is exactly the document a fresh extension given the additions made so far
   would write in one go -- to which C10_ext_roundtrip applies: nothing written or loaded earlier shows. *)
Theorem C10_session_documents :
  forall (T ST V SV M : Type) (ser_t : T -> ST) (deser_t : ST -> T) (ser_v : V -> SV) (deser_v : SV -> V),
  (forall t, ser_t (deser_t (ser_t t)) = ser_t t) -> (forall v, ser_v (deser_v (ser_v v)) = ser_v v) ->
  forall n v r (p : list (sstep T V M)), Forall cmd_ok (adds p) ->
  session_transparent (fun cs => to_serial ser_t ser_v (build (new_ext n v r) cs)) p
                      (session ser_t deser_t ser_v deser_v (new_ext n v r) p).
Proof. exact @session_documents. Qed.
(* a document kept in the object from one to_json to the next and dropped by add_type_def / add_op_def but not by
   add_extension_value breaks the statement: the second document of ex_session lacks the value added before it *)
Theorem C10_stale_document_refuted :
  let e0 := new_ext 5%N ex_version [8%N; 6%N; 8%N] in
  let outs := session_stale id id e0 None ex_session in
  ~ session_transparent (fun cs => to_serial id id (build e0 cs)) ex_session outs /\
  map res_values outs = [Some []; Some []; Some [30%N]].
Proof. exact stale_document_refuted. Qed.

(* any document that loads (e.g. one written by another tool): what is written back is a fixed point of
   load-and-write and names the owner in every operation *)
Theorem C10_reload_fixed_point :
  forall (T ST V SV M : Type) (ser_t : T -> ST) (deser_t : ST -> T) (ser_v : V -> SV) (deser_v : SV -> V),
  (forall t, ser_t (deser_t (ser_t t)) = ser_t t) -> (forall v, ser_v (deser_v (ser_v v)) = ser_v v) ->
  forall (s : sextension ST SV M) e, deserialize deser_t deser_v s = Ok e ->
  exists s', to_serial ser_t ser_v e = Ok s' /\ reload ser_t deser_t ser_v deser_v s' = Ok s' /\ s_names_owner s'.
Proof. exact @reload_fixed_point. Qed.

(* type parameters have their codec inside the model *)
Theorem C10_type_params_roundtrip : forall p, param_deser (param_ser p) = p.
Proof. exact param_roundtrip. Qed.

(* ---- on the regenerated data ---- *)
Theorem C10_bundled_eq_spec : same_tree bundled_tree spec_tree = true.
Proof. exact bundled_eq_spec_l. Qed.
Theorem C10_std_loads : forall d, In d std_docs ->
  exists e, deserialize jid jid (snd d) = Ok e /\ names_owner e /\
            exists s, to_serial jid jid e = Ok s /\ reload jid jid jid jid s = Ok s /\ s_names_owner s.
Proof. exact std_loads_l. Qed.
Theorem C10_std_docs_cover : map fst std_docs = map fst bundled_tree.
Proof. exact std_docs_cover_l. Qed.
Theorem C10_helpers_denote_definitions : forallb (helper_ok (map snd std_docs)) std_helpers = true.
Proof. exact helpers_denote_definitions_l. Qed.

(* non-vacuity *)
Example C10_example :
  Forall (@cmd_ok N N N) ex_cmds /\
  let e := build (new_ext 5%N ex_version [8%N; 6%N; 8%N]) ex_cmds in
  exists s, to_serial id id e = Ok s /\ reload id id id id s = Ok s /\
            length (se_ops s) = 2 /\ se_reqs s = [6%N; 8%N] /\
            option_map (fun o => option_map (fun p => sf_reqs (sp_body p)) (so_signature o))
                       (dget N.eqb (se_ops s) 20%N) = Some (Some [4%N; 5%N; 9%N]).
Proof. exact roundtrip_example. Qed.
Example C10_session_example :
  Forall (@cmd_ok N N N) (adds ex_session) /\
  let outs := session id id id id (new_ext 5%N ex_version [8%N; 6%N; 8%N]) ex_session in
  map res_values outs = [Some []; Some [30%N]; Some [30%N]] /\
  nth_error outs 2 = Some (to_serial id id (build (new_ext 5%N ex_version [8%N; 6%N; 8%N]) ex_cmds)).
Proof. exact session_example. Qed.
(* two Extension objects named alike and one operation added to both: each holds its own definition *)
Example C10_heap_example :
  map (held_owners (hw_heap (hrun ex_world [(0, 0); (1, 0)]))) (hw_exts (hrun ex_world [(0, 0); (1, 0)]))
  = [[(20%N, Some 0, Some [7%N])]; [(20%N, Some 1, Some [7%N])]].
Proof. exact heap_example. Qed.
Example C10_std_nonempty :
  (Nat.leb 1 (length spec_tree) && forallb (fun f : path * packed => N.ltb 0 (pk_len (snd f))) spec_tree) = true /\
  (existsb (fun h => match h_kind h with HType => true | _ => false end) std_helpers &&
   existsb (fun h => match h_kind h with HOp => true | _ => false end) std_helpers &&
   existsb (fun h => match h_kind h with HConst => true | _ => false end) std_helpers) = true.
Proof. exact (conj std_files_nonempty_l helpers_nonempty_l). Qed.

Print Assumptions C10_ext_roundtrip.
Print Assumptions C10_opdef_names_owner_built.
Print Assumptions C10_opdef_names_owner_loaded.
Print Assumptions C10_opdef_names_owner_shared.
Print Assumptions C10_add_leaves_other_extensions.
Print Assumptions C10_opdef_reports_owner_object.
Print Assumptions C10_add_leaves_other_extension_objects.
Print Assumptions C10_owner_by_name_refuted.
Print Assumptions C10_session_documents.
Print Assumptions C10_stale_document_refuted.
Print Assumptions C10_reload_fixed_point.
Print Assumptions C10_type_params_roundtrip.
Print Assumptions C10_bundled_eq_spec.
Print Assumptions C10_std_loads.
Print Assumptions C10_std_docs_cover.
Print Assumptions C10_helpers_denote_definitions.
