(* GENERATED on every run by harness/props/c07.py from the std extension JSON files of
   hugr-py/src/hugr/std/_json_defs and specification/std_extensions.  Do not edit. *)
From Coq Require Import NArith List.
Import ListNotations.
From HV Require Import model.Types.

Definition std_array_bound_py : defbound := (FromParams [1%nat]).
Definition std_array_params_py : list typaram := [(PNat None); (PType Any)].
Definition std_list_bound_py : defbound := (FromParams [0%nat]).
Definition std_list_params_py : list typaram := [(PType Any)].
Definition std_static_array_bound_py : defbound := (Explicit Copyable).
Definition std_static_array_params_py : list typaram := [(PType Copyable)].
Definition std_array_bound_spec : defbound := (FromParams [1%nat]).
Definition std_array_params_spec : list typaram := [(PNat None); (PType Any)].
Definition std_list_bound_spec : defbound := (FromParams [0%nat]).
Definition std_list_params_spec : list typaram := [(PType Any)].
Definition std_static_array_bound_spec : defbound := (Explicit Copyable).
Definition std_static_array_params_spec : list typaram := [(PType Copyable)].
