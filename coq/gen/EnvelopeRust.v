(* GENERATED on every run by harness/translators/envelope_rs.py from
     hugr-core/src/envelope/header.rs
   (fail-closed scan).  Constants only; do not edit. *)
From Coq Require Import NArith List String.
Import ListNotations.

(* pub const MAGIC_NUMBERS: &[u8] = "HUGRiHJv".as_bytes(); *)
Definition rust_magic : list N := [72%N; 85%N; 71%N; 82%N; 105%N; 72%N; 74%N; 118%N].
(* pub enum EnvelopeFormat: every variant with its discriminant, in source order *)
Definition rust_formats : list (string * N) := [("Model"%string, 1%N); ("ModelWithExtensions"%string, 2%N); ("PackageJson"%string, 63%N)].
(* fn ascii_printable: matches!(self, ...) *)
Definition rust_ascii_printable : list string := ["PackageJson"%string].
(* EnvelopeHeader::write: let mut flags = <base>; flags |= self.zstd as u8; *)
Definition rust_flags_base : N := 64%N.
(* EnvelopeHeader::read: buffers [0; n] filled by read_exact, in this order; zstd = flags & <mask> != 0 *)
Definition rust_magic_read_len : nat := 8.
Definition rust_format_read_len : nat := 1.
Definition rust_flags_read_len : nat := 1.
Definition rust_zstd_mask : N := 1%N.
(* doc comment of EnvelopeHeader::read: "Consumes exactly n bytes from the reader." *)
Definition rust_header_len_stated : option nat := (Some 10).
