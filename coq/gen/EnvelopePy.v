(* GENERATED on every run by harness/translators/envelope_rs.py from the module-level constants of
     hugr-py/src/hugr/envelope.py
   (MAGIC_NUMBERS, EnvelopeFormat.__members__, ascii_printable() of each member), read by importing
   the module of the checkout under test.  Constants only; do not edit. *)
From Coq Require Import NArith List String.
Import ListNotations.

Definition py_magic : list N := [72%N; 85%N; 71%N; 82%N; 105%N; 72%N; 74%N; 118%N].
Definition py_formats : list (string * N) := [("MODULE"%string, 1%N); ("MODULE_WITH_EXTS"%string, 2%N); ("JSON"%string, 63%N)].
Definition py_ascii_printable : list string := ["JSON"%string].
