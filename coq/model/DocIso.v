(* C01 — comparison of two serialised documents UP TO the numbering of the nodes.

   The property speaks about validity of the document, not about which index a node gets: `Hugr.insert_hugr` may copy
   the nodes of an inserted Hugr in any order that puts a parent before its children and keeps the order of siblings.
   The correspondence check of run/C01Run.v therefore compares the model's document with the implementation's as
   ordered trees with a port graph on top:

     preorder g     the nodes of g listed root first, then the children of every node in child order (= index order
                    among the nodes with that parent: this is how the reader of a document rebuilds the child lists)
     iso_map g h    the renumbering that sends the k-th node of preorder g to the k-th node of preorder h
     iso_check      the renumbering is admissible: a bijection of the indices that fixes the root, carries the parent
                    of a node to the parent of its image, keeps the order of siblings, relates the operations, and
                    carries the edges of g onto the edges of h (as multisets; an edge without offset is the edge at the
                    "other" port of its operation, so offsets are made explicit first)

   The traversal is only an ORACLE for the renumbering (fuel, no correctness proof needed); what is accepted is decided
   by iso_check, whose soundness is proofs/DocIsoP.v (statement: spec/DocIsoS.v).

   No proofs in this file. *)
From Coq Require Import NArith List Bool Arith FSets.FMapPositive.
Import ListNotations.
From HV Require Import lib.Harness model.Validity.
Local Open Scope N_scope.

(* ------------------------------------------------------------------ operations *)
(* equality of operations; fe compares the indices of the nested HUGRs of function constants *)
Fixpoint value_eqb_with (fe : N -> N -> bool) (a b : value) {struct a} : bool :=
  let fix go (l l' : list value) {struct l} : bool :=
    match l, l' with
    | [], [] => true
    | x :: r, y :: s => value_eqb_with fe x y && go r s
    | _, _ => false
    end in
  match a, b with
  | VSum t g vs, VSum t' g' vs' => (t =? t') && (g =? g') && go vs vs'
  | VTuple t vs, VTuple t' vs' => (t =? t') && go vs vs'
  | VExt t, VExt t' => t =? t'
  | VFun t k, VFun t' k' => (t =? t') && fe k k'
  | _, _ => false
  end.
Definition vop_eqb_with (fe : N -> N -> bool) (a b : vop) : bool :=
  match a, b with
  | Module, Module | AliasDecl, AliasDecl | AliasDefn, AliasDefn => true
  | FuncDefn f i o, FuncDefn f' i' o' => (f =? f') && row_eqb i i' && row_eqb o o'
  | FuncDecl f, FuncDecl f' => f =? f'
  | Const v, Const v' => value_eqb_with fe v v'
  | Input t, Input t' | Output t, Output t' | ExitB t, ExitB t' => row_eqb t t'
  | Call f i o, Call f' i' o' => (f =? f') && row_eqb i i' && row_eqb o o'
  | CallIndirect i o f, CallIndirect i' o' f' => row_eqb i i' && row_eqb o o' && (f =? f')
  | LoadConst t, LoadConst t' => t =? t'
  | LoadFunc f i o t, LoadFunc f' i' o' t' => (f =? f') && row_eqb i i' && row_eqb o o' && (t =? t')
  | DFG i o, DFG i' o' | CFG i o, CFG i' o' | Case i o, Case i' o' | ExtOp i o, ExtOp i' o' =>
      row_eqb i i' && row_eqb o o'
  | Block i r o s, Block i' r' o' s' => row_eqb i i' && rows_eqb r r' && row_eqb o o' && (s =? s')
  | Conditional r a o s, Conditional r' a' o' s' => rows_eqb r r' && row_eqb a a' && row_eqb o o' && (s =? s')
  | TailLoop a b c s, TailLoop a' b' c' s' => row_eqb a a' && row_eqb b b' && row_eqb c c' && (s =? s')
  | Tag t r s, Tag t' r' s' => (t =? t') && rows_eqb r r' && (s =? s')
  | _, _ => false
  end.

(* ------------------------------------------------------------------ the traversal (oracle) *)
(* finite maps keyed by node index (stdlib FMapPositive): documents of a few thousand nodes occur, the walk is
   O(n log n); nothing is proved about it *)
Definition nkey (i : N) : positive := N.succ_pos i.
(* parent |-> its children in index order (the root, index 0, is nobody's child) *)
Definition kids_map (g : graph) : PositiveMap.t (list N) :=
  fold_right (fun x m =>
                if fst x =? 0 then m
                else let p := nkey (n_parent (snd x)) in
                     PositiveMap.add p (fst x :: match PositiveMap.find p m with Some l => l | None => [] end) m)
             (PositiveMap.empty (list N)) (indexed (g_nodes g)).
Fixpoint dfs (fuel : nat) (km : PositiveMap.t (list N)) (stack acc : list N) : list N :=
  match fuel with
  | O => rev acc
  | S f => match stack with
           | [] => rev acc
           | x :: r => dfs f km (match PositiveMap.find (nkey x) km with Some l => l | None => [] end ++ r) (x :: acc)
           end
  end.
Definition preorder (g : graph) : list N := dfs (length (g_nodes g)) (kids_map g) [0] [].

Fixpoint upto (n : nat) (i : N) : list N := match n with O => [] | S m => i :: upto m (i + 1) end.
(* pi[i] = the node of h at the pre-order position of node i of g; n (out of range) when the traversals do not fit *)
Definition iso_map (g h : graph) : list N :=
  let n := lenN (g_nodes g) in
  let m := fold_left (fun m kv => PositiveMap.add (nkey (fst kv)) (snd kv) m) (combine (preorder g) (preorder h))
                     (PositiveMap.empty N) in
  map (fun i => match PositiveMap.find (nkey i) m with Some j => j | None => n end) (upto (length (g_nodes g)) 0).

(* ------------------------------------------------------------------ renaming *)
Definition renN (pi : list N) (i : N) : N := match nthN pi i with Some j => j | None => i end.
Definition ren_edge (pi : list N) (e : edge) : edge :=
  {| e_src := renN pi (e_src e); e_soff := e_soff e; e_dst := renN pi (e_dst e); e_doff := e_doff e |}.
(* an edge without offset attaches to the "other" port of the operation (hugr-rs leaves the offset of order edges
   out; writing it is the same document): offsets made explicit wherever the operation has such a port *)
Definition norm_edge (g : graph) (e : edge) : edge :=
  {| e_src := e_src e;
     e_soff := match e_soff e with
               | Some x => Some x
               | None => match op_of g (e_src e) with Some o => other_port_out o | None => None end
               end;
     e_dst := e_dst e;
     e_doff := match e_doff e with
               | Some x => Some x
               | None => match op_of g (e_dst e) with Some o => other_port_in o | None => None end
               end |}.
Definition norm_edges (g : graph) : list edge := map (norm_edge g) (g_edges g).

Definition edge_eqb (a b : edge) : bool :=
  (e_src a =? e_src b) && optN_eqb (e_soff a) (e_soff b) && (e_dst a =? e_dst b) && optN_eqb (e_doff a) (e_doff b).

(* ------------------------------------------------------------------ the admissibility check *)
(* P holds of every pair (earlier element, later element) of the list *)
Fixpoint pairsb {A} (P : A -> A -> bool) (l : list A) : bool :=
  match l with [] => true | x :: r => forallb (P x) r && pairsb P r end.

Definition iso_check (opb : vop -> vop -> bool) (pi : list N) (g h : graph) : bool :=
  let n := lenN (g_nodes g) in
  (lenN (g_nodes h) =? n) && (lenN pi =? n) &&
  forallb (fun j => j <? n) pi && nodupb N.eqb pi &&
  optN_eqb (nthN pi 0) (Some 0) &&
  (* operations related, parents carried to parents *)
  forallb (fun x => match nthN (g_nodes h) (snd x) with
                    | Some b => opb (n_op (fst x)) (n_op b) &&
                                optN_eqb (nthN pi (n_parent (fst x))) (Some (n_parent b))
                    | None => false
                    end) (combine (g_nodes g) pi) &&
  (* the order of siblings is kept *)
  pairsb (fun x y => negb (n_parent (fst x) =? n_parent (fst y)) || (snd x <? snd y)) (combine (g_nodes g) pi) &&
  (* the edges of g are carried onto the edges of h *)
  perm_eqb edge_eqb (map (ren_edge pi) (norm_edges g)) (norm_edges h).

Definition graph_isob (opb : vop -> vop -> bool) (g h : graph) : bool := iso_check opb (iso_map g h) g h.
