(* C12 — the symbol of a function as the code spells it (hugr-py/src/hugr/model/export.py: _mangle_name):
       f"_{name}_{node.idx}"
   a string over code points: an underscore, the name of the function (ANY string: `main`, the empty string,
   a name with underscores / digits / dots, a name that looks like the mangled form of another function),
   an underscore, the node index in decimal (Python's str(int): a minus sign for a negative number, no
   leading zeros).  The model of the export (model/Export.v) abstracts the symbol of a function to the index
   of its defining node; this file is what that abstraction stands on (proofs/ExportMangleP.v: the spelling is
   injective in the pair (name, index), whatever the names are).  No proofs here. *)
From Coq Require Import ZArith NArith List Decimal DecimalZ.
Import ListNotations.
From HV Require Import lib.Harness model.Export.
Open Scope N_scope.

Definition underscore : N := 95.
Definition minus_sign : N := 45.

(* decimal digits of a Decimal.uint as code points, most significant first *)
Fixpoint udigits (u : Decimal.uint) : list N :=
  match u with
  | Decimal.Nil => []
  | Decimal.D0 r => 48 :: udigits r | Decimal.D1 r => 49 :: udigits r | Decimal.D2 r => 50 :: udigits r
  | Decimal.D3 r => 51 :: udigits r | Decimal.D4 r => 52 :: udigits r | Decimal.D5 r => 53 :: udigits r
  | Decimal.D6 r => 54 :: udigits r | Decimal.D7 r => 55 :: udigits r | Decimal.D8 r => 56 :: udigits r
  | Decimal.D9 r => 57 :: udigits r
  end.

(* str(i) of a Python int *)
Definition zdigits (i : Z) : list N :=
  match Z.to_int i with
  | Decimal.Pos u => udigits u
  | Decimal.Neg u => minus_sign :: udigits u
  end.

(* _mangle_name(node, name) *)
Definition mangle (name : list N) (idx : Z) : list N :=
  underscore :: name ++ underscore :: zdigits idx.

(* the model's export with the symbols spelt as the code spells them: nm gives the name of the function whose
   defining node has a given index (any assignment of names to nodes) *)
Definition mangled_symbol (nm : Z -> list N) (s : Z) : list N := mangle (nm s) s.
Definition export_mangled (nm : Z -> list N) (h : hugr) : eregion port (list N) :=
  map_region (rep (h_links h)) (mangled_symbol nm) (export_ports h).

(* the two sites of export.py that derive a function's symbol — export_node (FuncDefn / FuncDecl: the symbol the
   module defines) and find_func_input (Call / LoadFunc: the symbol that is applied) — as two separate spellings
   gd / gu of the model's symbol; alias symbols and everything else are left alone *)
Section Sites.
  Context {L S : Type} (gd gu : S -> S).
  Definition sites_op (o : eop S) : eop S :=
    match o with
    | ODefFunc s => ODefFunc (gd s) | ODeclFunc s => ODeclFunc (gd s)
    | OCall s => OCall (gu s) | OLoadFunc s => OLoadFunc (gu s)
    | o => o
    end.
  Fixpoint sites_node (e : enode L S) : enode L S :=
    match e with
    | ENode op sg ins outs regs keys meta =>
        ENode (sites_op op) sg ins outs
              (map (fun r => match r with
                             | ERegion k s t ch h => ERegion k s t (map sites_node ch) h
                             end) regs)
              keys meta
    end.
  Definition sites_region (r : eregion L S) : eregion L S :=
    match r with ERegion k s t ch h => ERegion k s t (map sites_node ch) h end.
End Sites.
