(* Model of hugr.hugr.render.DotRenderer (render.py): the DOT document as an abstract tree.
   Strings are lists of code points; colours are interned by the harness (compared by equality only).
   No proofs here. *)
From Coq Require Import ZArith NArith List Bool Arith.
Import ListNotations.
From HV Require Import lib.Harness.

Definition str := list Z.
Definition color := N.

(* ---- what the renderer reads from the HUGR (through Hugr's public queries) ---- *)
Record ninfo := {
  ni_idx : Z;                       (* node index *)
  ni_name_q : str;                  (* op.name() *)
  ni_name_u : str;                  (* op.op_def().name for AsExtOp, else op.name() *)
  ni_nin : nat;                     (* hugr.num_in_ports(node) *)
  ni_nout : nat;                    (* hugr.num_out_ports(node) *)
  ni_meta : list (str * str)        (* metadata items: key, str(value) *)
}.
Inductive htree := HNode (i : ninfo) (ch : list htree).       (* hugr.children, from the root *)

Inductive kind := KValue (label : str) | KOrder | KConst | KFunction | KCF.   (* hugr.port_kind(src) *)
Record link := { l_src : Z; l_soff : Z; l_dst : Z; l_doff : Z; l_kind : kind }.

Record palette := { p_background : color; p_node : color; p_edge : color; p_dark : color;
                    p_const : color; p_discard : color; p_node_border : color; p_port_border : color }.
Record config := { c_pal : palette; c_qualify : bool }.

(* ---- abstract DOT ---- *)
Record nstmt := {
  ns_id : Z;                        (* statement name = node index *)
  ns_label : str;                   (* text of the <B> element *)
  ns_data : str;                    (* text after it (metadata lines) *)
  ns_in : list Z;                   (* PORT="in.k" cells: in order in the model; observed ones as a sorted multiset *)
  ns_out : list Z;                  (* PORT="out.k" cells, likewise *)
  ns_back : color;                  (* BGCOLOR of the table *)
  ns_border : color                 (* COLOR of the table *)
}.
Inductive dnode :=
| DLeaf (s : nstmt)
| DCluster (id : Z) (body : list dnode) (s : nstmt) (col : color).   (* subgraph cluster<id> { body; s; color } *)
Record estmt := { e_src : Z; e_sport : Z; e_dst : Z; e_dport : Z; e_label : str; e_color : color }.
Record dot := { d_bg : color; d_top : dnode; d_edges : list estmt }.

(* "<BR/>" *)
Definition BR : str := [60; 66; 82; 47; 62]%Z.
Definition colon_sp : str := [58; 32]%Z.
Fixpoint join (sep : str) (l : list str) : str :=
  match l with
  | [] => []
  | [x] => x
  | x :: r => x ++ sep ++ join sep r
  end.
(* _viz_node: data = "<BR/><BR/>" + "<BR/>".join(f"{key}: {value}") when there is metadata *)
Definition meta_data (m : list (str * str)) : str :=
  match m with
  | [] => []
  | _ => BR ++ BR ++ join BR (map (fun kv => fst kv ++ colon_sp ++ snd kv) m)
  end.
Definition zseq (n : nat) : list Z := map Z.of_nat (seq 0 n).
Definition op_name (c : config) (i : ninfo) : str := if c_qualify c then ni_name_q i else ni_name_u i.

Definition stmt_of (c : config) (i : ninfo) (parent : bool) : nstmt :=
  {| ns_id := ni_idx i; ns_label := op_name c i; ns_data := meta_data (ni_meta i);
     ns_in := zseq (ni_nin i); ns_out := zseq (ni_nout i);
     ns_back := if parent then p_edge (c_pal c) else p_node (c_pal c);
     ns_border := if parent then p_port_border (c_pal c) else p_background (c_pal c) |}.

Fixpoint viz_node (c : config) (t : htree) : dnode :=
  match t with
  | HNode i [] => DLeaf (stmt_of c i false)
  | HNode i ch => DCluster (ni_idx i) (map (viz_node c) ch) (stmt_of c i true) (p_edge (c_pal c))
  end.

Definition viz_link (c : config) (l : link) : estmt :=
  {| e_src := l_src l; e_sport := l_soff l; e_dst := l_dst l; e_dport := l_doff l;
     e_label := match l_kind l with KValue s => s | _ => [] end;
     e_color := match l_kind l with
                | KValue _ => p_edge (c_pal c)
                | KOrder | KCF => p_dark (c_pal c)
                | KConst | KFunction => p_const (c_pal c)
                end |}.

Definition render (c : config) (t : htree) (ls : list link) : dot :=
  {| d_bg := p_background (c_pal c); d_top := viz_node c t; d_edges := map (viz_link c) ls |}.

(* ---- traversals used by specification and proofs ---- *)
Fixpoint tree_infos (t : htree) : list ninfo :=
  match t with HNode i ch => flat_map tree_infos ch ++ [i] end.       (* children first, as rendered *)
Fixpoint dot_stmts (d : dnode) : list nstmt :=
  match d with
  | DLeaf s => [s]
  | DCluster _ body s _ => flat_map dot_stmts body ++ [s]
  end.

(* ---- equality tests for the correspondence ---- *)
Definition str_eqb : str -> str -> bool := list_eqb Z.eqb.
Definition nstmt_eqb (a b : nstmt) : bool :=
  Z.eqb (ns_id a) (ns_id b) && str_eqb (ns_label a) (ns_label b) && str_eqb (ns_data a) (ns_data b) &&
  list_eqb Z.eqb (ns_in a) (ns_in b) && list_eqb Z.eqb (ns_out a) (ns_out b) &&
  N.eqb (ns_back a) (ns_back b) && N.eqb (ns_border a) (ns_border b).
Fixpoint dnode_eqb (a b : dnode) : bool :=
  match a, b with
  | DLeaf s, DLeaf s' => nstmt_eqb s s'
  | DCluster i body s c, DCluster i' body' s' c' =>
      Z.eqb i i' && nstmt_eqb s s' && N.eqb c c' &&
      (fix go (x y : list dnode) : bool :=
         match x, y with
         | [], [] => true
         | p :: r, q :: r' => dnode_eqb p q && go r r'
         | _, _ => false
         end) body body'
  | _, _ => false
  end.
Definition estmt_eqb (a b : estmt) : bool :=
  Z.eqb (e_src a) (e_src b) && Z.eqb (e_sport a) (e_sport b) && Z.eqb (e_dst a) (e_dst b) &&
  Z.eqb (e_dport a) (e_dport b) && str_eqb (e_label a) (e_label b) && N.eqb (e_color a) (e_color b).
Definition dot_eqb (a b : dot) : bool :=
  N.eqb (d_bg a) (d_bg b) && dnode_eqb (d_top a) (d_top b) && list_eqb estmt_eqb (d_edges a) (d_edges b).

(* ---- equality up to the orders the drawing does not depend on and the property does not promise:
        sibling statements inside a cluster (the nesting is kept), edge statements ---- *)
Fixpoint take1 {A} (f : A -> bool) (l : list A) : option (list A) :=     (* drop the first element satisfying f *)
  match l with
  | [] => None
  | x :: r => if f x then Some r else match take1 f r with Some r' => Some (x :: r') | None => None end
  end.
Fixpoint dnode_peqb (a b : dnode) : bool :=
  match a, b with
  | DLeaf s, DLeaf s' => nstmt_eqb s s'
  | DCluster i body s c, DCluster i' body' s' c' =>
      Z.eqb i i' && nstmt_eqb s s' && N.eqb c c' &&
      (fix go (x y : list dnode) : bool :=
         match x with
         | [] => match y with [] => true | _ => false end
         | p :: r => match take1 (dnode_peqb p) y with Some y' => go r y' | None => false end
         end) body body'
  | _, _ => false
  end.
Definition dot_peqb (a b : dot) : bool :=
  N.eqb (d_bg a) (d_bg b) && dnode_peqb (d_top a) (d_top b) && perm_eqb estmt_eqb (d_edges a) (d_edges b).

(* ---- renderer and configuration objects (seeded round 5) ----
   DotRenderer.__init__: `self.config = config or RenderConfig()`; `config` is a public attribute holding a mutable
   RenderConfig OBJECT.  Configuration objects live in a heap; a renderer holds the address of its configuration;
   customising `renderers[r].config.<option>` writes into the heap cell that renderer points to. *)
Inductive hop :=
| HNew (c : option config)        (* DotRenderer(RenderConfig(..c..)) - a configuration made for it - / DotRenderer() *)
| HSetQual (r : nat) (b : bool)   (* renderers[r].config.qualify_op_name = b *)
| HSetPal (r : nat) (p : palette) (* renderers[r].config.palette = p *)
| HDraw (r : nat).                (* renderers[r].render(hugr) *)
Record hstate := { hs_heap : list config;      (* configuration objects by address *)
                   hs_rend : list nat }.       (* renderer -> address of its configuration *)
Fixpoint upd {A} (n : nat) (f : A -> A) (l : list A) : list A :=
  match l, n with
  | [], _ => []
  | x :: r, O => f x :: r
  | x :: r, S k => x :: upd k f r
  end.
Definition set_qual (b : bool) (c : config) : config := {| c_pal := c_pal c; c_qualify := b |}.
Definition set_pal (p : palette) (c : config) : config := {| c_pal := p; c_qualify := c_qualify c |}.
(* `RenderConfig()`: a NEW object holding the default options, at a fresh address *)
Definition fresh_default (dflt : config) (s : hstate) : hstate * nat :=
  ({| hs_heap := hs_heap s ++ [dflt]; hs_rend := hs_rend s |}, length (hs_heap s)).
(* one step; `mk` is how a renderer made without a configuration gets one (the code: fresh_default) *)
Definition hstep (mk : hstate -> hstate * nat) (t : htree) (ls : list link) (s : hstate) (o : hop)
  : hstate * list dot :=
  match o with
  | HNew (Some c) => ({| hs_heap := hs_heap s ++ [c]; hs_rend := hs_rend s ++ [length (hs_heap s)] |}, [])
  | HNew None => let (s', a) := mk s in ({| hs_heap := hs_heap s'; hs_rend := hs_rend s' ++ [a] |}, [])
  | HSetQual r b => match nth_error (hs_rend s) r with
                    | Some a => ({| hs_heap := upd a (set_qual b) (hs_heap s); hs_rend := hs_rend s |}, [])
                    | None => (s, [])
                    end
  | HSetPal r p => match nth_error (hs_rend s) r with
                   | Some a => ({| hs_heap := upd a (set_pal p) (hs_heap s); hs_rend := hs_rend s |}, [])
                   | None => (s, [])
                   end
  | HDraw r => match nth_error (hs_rend s) r with
               | Some a => match nth_error (hs_heap s) a with
                           | Some c => (s, [render c t ls])
                           | None => (s, [])
                           end
               | None => (s, [])
               end
  end.
(* the drawings a history produces, in order *)
Fixpoint hrun (mk : hstate -> hstate * nat) (t : htree) (ls : list link) (s : hstate) (h : list hop) : list dot :=
  match h with
  | [] => []
  | o :: r => let (s', out) := hstep mk t ls s o in out ++ hrun mk t ls s' r
  end.
