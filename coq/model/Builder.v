(* C01 — the hugr-py builders as an executable model over the graph store, producing the serial-level
   literal of model/Validity.v.

   Builder programs are data (an inductive mirroring the JSON program format of harness/progs.py).
   INSIDE the model (this file follows hugr/build/dfg.py and hugr/hugr/base.py statement by statement):
     - root        Dfg(input_types...)                       [DfBase.__init__, _init_io_nodes]
     - SOp         add_op / add / extend of a leaf dataflow operation (all three end in add_op): an
                   extension op with a fixed signature, a Tag, or one of the partial ops Noop / MakeTuple /
                   UnpackTuple, which _wire_up completes from the types of the incoming wires
     - SLoad       load(value) with const_parent here / at the root / add_const(parent=parent_node)+load(node)
     - SNested     add_nested(args...) ... set_outputs(outs...)  [Dfg.new_nested, _init_io_nodes, _wire_up,
                   set_outputs -> Output._set_in_types, DFG._set_out_types]
     - SOrder      add_state_order(src, dst)                 [Hugr.add_order_link: no duplicate link]
     - wiring      _wire_up / _wire_up_port with _ancestral_sibling and the order edge for non-local wires
     - serialising Hugr._to_serial: nodes in index order, links in insertion order, _constrain_offset
   OUTSIDE the model (programs using them are not tied to a theorem; the monitor `valid` still covers them):
   Function/Module/Cfg/Conditional/TailLoop roots and statements, call / load_function / localfn,
   CallIndirect, and all insert_* variants.

   Errors of the Python code are values: KeyError for a missing node (add_node's parent, add_link's ends),
   NoSiblingAncestor, a wire that is not a value port (port_type is None / IndexError), an unbound wire id.
   No proofs in this file. *)
From Coq Require Import NArith List Bool Arith.
Import ListNotations.
From HV Require Import lib.Harness model.Validity.
Local Open Scope N_scope.

Definition wid := N.
Definition sid := N.

Inductive opspec :=
| OFixed (ins outs : row)
| OTag (tag : N) (variants : list row) (sumty : tyid)
| ONoop
| OMakeTuple
| OUnpackTuple.

Inductive cparent := CHere | CRoot.
Inductive nref := RIn | ROut | RStmt (s : sid).

Inductive stmt :=
| SOp (id : sid) (o : opspec) (args res : list wid)
| SLoad (id : sid) (v : value) (cp : cparent) (res : wid)
| SNested (id : sid) (args : list wid) (body : region) (res : list wid)
| SOrder (src dst : nref)
with region := Region (ins : list wid) (body : stmts) (outs : list wid)
with stmts := SNil | SCons (s : stmt) (r : stmts).

Inductive prog := PDfg (ins : row) (body : region).

(* ------------------------------------------------------------------ results *)
Inductive err := EKey | ENoSibling | ENotValuePort | EUnbound | EIncomplete | EFuel.
Inductive res (A : Type) := Ok (a : A) | Err (e : err).
Arguments Ok {A}. Arguments Err {A}.
Definition bind {A B} (x : res A) (f : A -> res B) : res B :=
  match x with Ok a => f a | Err e => Err e end.
Notation "x <- a ;; b" := (bind a (fun x => b)) (at level 61, a at next level, right associativity).

(* ------------------------------------------------------------------ the graph store (hugr/hugr/base.py) *)
(* nodes are only ever appended by the builders (no deletion), so index = position; a link is kept with
   the offsets the code uses: None is the order port (offset -1) *)
Record store := { s_nodes : list vnode; s_links : list edge }.

Definition s_len (st : store) : N := lenN (s_nodes st).
Definition s_op (st : store) (n : N) : option vop := option_map n_op (nthN (s_nodes st) n).
Definition s_parent (st : store) (n : N) : option N :=
  if n =? 0 then None else option_map n_parent (nthN (s_nodes st) n).

(* Hugr.__init__ *)
Definition new_store (root : vop) : store := {| s_nodes := [{| n_op := root; n_parent := 0 |}]; s_links := [] |}.

(* Hugr.add_node: self[parent].children.append raises KeyError when the parent does not exist *)
Definition add_node (st : store) (o : vop) (p : N) : res (store * N) :=
  if p <? s_len st
  then Ok ({| s_nodes := s_nodes st ++ [{| n_op := o; n_parent := p |}]; s_links := s_links st |}, s_len st)
  else Err EKey.

(* Hugr.add_link: self[src.node] / self[dst.node] raise KeyError for missing nodes *)
Definition add_link (st : store) (s : N) (so : option N) (d : N) (do_ : option N) : res store :=
  if (s <? s_len st) && (d <? s_len st)
  then Ok {| s_nodes := s_nodes st;
             s_links := s_links st ++ [{| e_src := s; e_soff := so; e_dst := d; e_doff := do_ |}] |}
  else Err EKey.

Definition is_order_link (s d : N) (e : edge) : bool :=
  (e_src e =? s) && (e_dst e =? d) &&
  match e_soff e, e_doff e with None, None => true | _, _ => false end.
(* Hugr.add_order_link: only if not has_link(source, target) *)
Definition add_order_link (st : store) (s d : N) : res store :=
  if existsb (is_order_link s d) (s_links st) then Ok st else add_link st s None d None.

Fixpoint set_nth {A} (l : list A) (n : nat) (x : A) : list A :=
  match l, n with
  | [], _ => []
  | _ :: r, O => x :: r
  | a :: r, S k => a :: set_nth r k x
  end.
(* replace the operation of a node (the Python code mutates the op object in place) *)
Definition set_op (st : store) (n : N) (o : vop) : res store :=
  match nthN (s_nodes st) n with
  | Some nd => Ok {| s_nodes := set_nth (s_nodes st) (N.to_nat n) {| n_op := o; n_parent := n_parent nd |};
                     s_links := s_links st |}
  | None => Err EKey
  end.

(* dfg.py _ancestral_sibling: walk up from tgt until its parent is src's parent; the walk visits strictly
   decreasing indices, fuel = number of nodes *)
Fixpoint anc_sib_from (fuel : nat) (st : store) (src_parent : option N) (tgt : N) : option N :=
  match fuel with
  | O => None
  | S f =>
      match s_parent st tgt with
      | None => None
      | Some tp => if optN_eqb (Some tp) src_parent then Some tgt else anc_sib_from f st src_parent tp
      end
  end.
Definition anc_sib (st : store) (src tgt : N) : option N :=
  anc_sib_from (length (s_nodes st)) st (s_parent st src) tgt.

(* Hugr.port_type of an out port: the op's outer signature output at that offset *)
Definition port_type (st : store) (w : N * N) : res tyid :=
  match s_op st (fst w) with
  | Some o => match nthN (val_out o) (snd w) with Some t => Ok t | None => Err ENotValuePort end
  | None => Err EKey
  end.

(* dfg.py _wire_up_port *)
Definition wire_up_port (st : store) (node : N) (i : N) (w : N * N) : res (store * tyid) :=
  match anc_sib st (fst w) node with
  | None => Err ENoSibling
  | Some a =>
      st1 <- (if a =? node then Ok st else add_order_link st (fst w) a) ;;
      st2 <- add_link st1 (fst w) (Some (snd w)) node (Some i) ;;
      t <- port_type st2 w ;;
      Ok (st2, t)
  end.
(* dfg.py _wire_up (the port-count bookkeeping does not reach the serialised document) *)
Fixpoint wire_up_from (st : store) (node : N) (i : N) (ws : list (N * N)) : res (store * row) :=
  match ws with
  | [] => Ok (st, [])
  | w :: r =>
      x <- wire_up_port st node i w ;;
      y <- wire_up_from (fst x) node (i + 1) r ;;
      Ok (fst y, snd x :: snd y)
  end.
Definition wire_up (st : store) (node : N) (ws : list (N * N)) := wire_up_from st node 0 ws.

(* ------------------------------------------------------------------ environment of the interpreter *)
Record env := { e_wires : list (wid * (N * N)); e_stmts : list (sid * N) }.
Fixpoint lookup {A} (l : list (N * A)) (k : N) : option A :=
  match l with [] => None | (k', v) :: r => if k =? k' then Some v else lookup r k end.
Definition get_wire (e : env) (w : wid) : res (N * N) :=
  match lookup (e_wires e) w with Some p => Ok p | None => Err EUnbound end.
Fixpoint get_wires (e : env) (ws : list wid) : res (list (N * N)) :=
  match ws with
  | [] => Ok []
  | w :: r => p <- get_wire e w ;; ps <- get_wires e r ;; Ok (p :: ps)
  end.
Fixpoint bind_outs_from (e : env) (node : N) (i : N) (ws : list wid) : env :=
  match ws with
  | [] => e
  | w :: r => bind_outs_from {| e_wires := (w, (node, i)) :: e_wires e; e_stmts := e_stmts e |} node (i + 1) r
  end.
Definition bind_outs e node ws := bind_outs_from e node 0 ws.
Definition bind_stmt (e : env) (s : sid) (n : N) : env := {| e_wires := e_wires e; e_stmts := (s, n) :: e_stmts e |}.

(* ------------------------------------------------------------------ operations *)
(* the types table is searched for the tuple type MakeTuple produces (interned by the harness) *)
Fixpoint find_ty_from (tys : list tyinfo) (f : tyinfo -> bool) (i : N) : option tyid :=
  match tys with [] => None | t :: r => if f t then Some i else find_ty_from r f (i + 1) end.
Definition find_sum (tys : list tyinfo) (rows : list row) : option tyid :=
  find_ty_from tys (fun t => match t with TSum _ rs => rows_eqb rs rows | _ => false end) 0.

(* the op object before its inputs are wired; partial ops are incomplete *)
Definition initial_op (o : opspec) : vop :=
  match o with
  | OFixed i oo => ExtOp i oo
  | OTag t vs s => Tag t vs s
  | _ => ExtOp [] []
  end.
(* _PartialOp._set_in_types for Noop / MakeTuple / UnpackTuple (ops.py) *)
Definition completed_op (tys : list tyinfo) (o : opspec) (ins : row) : res vop :=
  match o with
  | OFixed i oo => Ok (ExtOp i oo)
  | OTag t vs s => Ok (Tag t vs s)
  | ONoop => match ins with [t] => Ok (ExtOp [t] [t]) | _ => Err EIncomplete end
  | OMakeTuple => match find_sum tys [ins] with Some t => Ok (ExtOp ins [t]) | None => Err EIncomplete end
  | OUnpackTuple =>
      match ins with
      | [t] => match nthN tys t with
               | Some (TSum _ [rw]) => Ok (ExtOp [t] rw)
               | _ => Err EIncomplete
               end
      | _ => Err EIncomplete
      end
  end.

(* ------------------------------------------------------------------ the builders *)
(* a dataflow builder: the container node, its Input and Output nodes (DfBase) *)
Record dfb := { b_parent : N; b_in : N; b_out : N }.

(* DfBase._init_io_nodes *)
Definition init_io (st : store) (p : N) (ins : row) : res (store * dfb) :=
  a <- add_node st (Input ins) p ;;
  b <- add_node (fst a) (Output []) p ;;
  Ok (fst b, {| b_parent := p; b_in := snd a; b_out := snd b |}).

(* ops.DFG._set_out_types *)
Definition set_out_types (o : vop) (outs : row) : vop :=
  match o with
  | DFG i _ => DFG i outs
  | other => other
  end.

(* DfBase.set_outputs: _wire_up(output_node, args); Output._set_in_types; parent_op._set_out_types *)
Definition set_outputs (st : store) (b : dfb) (ws : list (N * N)) : res store :=
  x <- wire_up st (b_out b) ws ;;
  st1 <- set_op (fst x) (b_out b) (Output (snd x)) ;;
  match s_op st1 (b_parent b) with
  | Some po => set_op st1 (b_parent b) (set_out_types po (snd x))
  | None => Err EKey
  end.

Definition node_of (b : dfb) (e : env) (r : nref) : res N :=
  match r with
  | RIn => Ok (b_in b)
  | ROut => Ok (b_out b)
  | RStmt s => match lookup (e_stmts e) s with Some n => Ok n | None => Err EUnbound end
  end.

Fixpoint wire_types (st : store) (ws : list (N * N)) : res row :=
  match ws with
  | [] => Ok []
  | w :: r => t <- port_type st w ;; ts <- wire_types st r ;; Ok (t :: ts)
  end.

Section Exec.
  Variable tys : list tyinfo.

  Fixpoint exec_stmt (s : stmt) (b : dfb) (st : store) (e : env) {struct s} : res (store * env) :=
    match s with
    | SOp id o args rs =>
        (* add_op: hugr.add_node(op, parent_node); _wire_up(new_n, args) *)
        ws <- get_wires e args ;;
        a <- add_node st (initial_op o) (b_parent b) ;;
        x <- wire_up (fst a) (snd a) ws ;;
        op' <- completed_op tys o (snd x) ;;
        st' <- set_op (fst x) (snd a) op' ;;
        Ok (st', bind_outs (bind_stmt e id (snd a)) (snd a) rs)
    | SLoad id v cp r =>
        (* load: add_const(value, const_parent); add(LoadConst(type)()); add_link(const.out_port(), load.inp(0)) *)
        c <- add_node st (Const v) (match cp with CHere => b_parent b | CRoot => 0 end) ;;
        l <- add_node (fst c) (LoadConst (value_ty v)) (b_parent b) ;;
        st' <- add_link (fst l) (snd c) (Some 0) (snd l) (Some 0) ;;
        Ok (st', bind_outs (bind_stmt e id (snd l)) (snd l) [r])
    | SNested id args body rs =>
        (* add_nested: DFG(_wire_types(args)); Dfg.new_nested; _wire_up(dfg.parent_node, args) *)
        ws <- get_wires e args ;;
        ts <- wire_types st ws ;;
        d <- add_node st (DFG ts []) (b_parent b) ;;
        io <- init_io (fst d) (snd d) ts ;;
        x <- wire_up (fst io) (snd d) ws ;;
        y <- exec_region body (snd io) (fst x) e ;;
        Ok (fst y, bind_outs (bind_stmt (snd y) id (snd d)) (snd d) rs)
    | SOrder src dst =>
        a <- node_of b e src ;;
        c <- node_of b e dst ;;
        st' <- add_order_link st a c ;;
        Ok (st', e)
    end
  with exec_region (r : region) (b : dfb) (st : store) (e : env) {struct r} : res (store * env) :=
    match r with
    | Region ins body outs =>
        (* the region's inputs are the out ports of its Input node; then the statements; then set_outputs *)
        y <- exec_stmts body b st (bind_outs e (b_in b) ins) ;;
        ws <- get_wires (snd y) outs ;;
        st' <- set_outputs (fst y) b ws ;;
        Ok (st', snd y)
    end
  with exec_stmts (l : stmts) (b : dfb) (st : store) (e : env) {struct l} : res (store * env) :=
    match l with
    | SNil => Ok (st, e)
    | SCons s r => y <- exec_stmt s b st e ;; exec_stmts r b (fst y) (snd y)
    end.

  (* Dfg(input_types...) ... set_outputs *)
  Definition exec_prog (p : prog) : res store :=
    match p with
    | PDfg ins body =>
        io <- init_io (new_store (DFG ins [])) 0 ins ;;
        y <- exec_region body (snd io) (fst io) {| e_wires := []; e_stmts := [] |} ;;
        Ok (fst y)
    end.
End Exec.

(* ------------------------------------------------------------------ Hugr._to_serial *)
(* _constrain_offset: the order port is written after all value and static ports of the operation
   (ops._num_dataflow_ports); other offsets as they are *)
Definition constrain_out (st : store) (n : N) (off : option N) : option N :=
  match off with
  | Some o => Some o
  | None => match s_op st n with Some o => Some (base_out o) | None => None end
  end.
Definition constrain_in (st : store) (n : N) (off : option N) : option N :=
  match off with
  | Some o => Some o
  | None => match s_op st n with Some o => Some (base_in o) | None => None end
  end.
Definition to_serial (st : store) : graph :=
  {| g_nodes := s_nodes st;
     g_edges := map (fun e => {| e_src := e_src e; e_soff := constrain_out st (e_src e) (e_soff e);
                                 e_dst := e_dst e; e_doff := constrain_in st (e_dst e) (e_doff e) |}) (s_links st) |}.

Definition run (tys : list tyinfo) (p : prog) : res graph :=
  st <- exec_prog tys p ;; Ok (to_serial st).
