(* C01 -> C02: the graph store of the builder model (model/Builder.v) seen as the API-level HUGR of
   model/SerialHugr.v, and the builder model's document (Builder.to_serial, a Validity.graph) seen as a SerialHugr
   document.

   The builder store keeps, per node, the operation and the parent index (the root names itself), and the links in
   insertion order with None for the order port.  It does not keep children lists, metadata or recorded port counts:
     children    every builder call appends the new node to its parent's children and no node is ever deleted, so
                 the children of p are the nodes naming p as parent, in index order -- the view defines them so;
     metadata    the modelled builder calls set none: md = unit, every node has the empty dictionary;
     port counts `_update_port_count` does not reach the document (Builder.v); the view takes them from an arbitrary
                 function pc, and the theorems hold for every pc.
   The view is parametric in a translation f of the operations (f = the identity for the builder's own operation
   literal `vop`, or a concretisation into the operations of model/CodecOps.v, see [conc]).  No proofs. *)
From Coq Require Import NArith List Bool Arith.
Import ListNotations.
From HV Require Import lib.Harness model.Validity model.Builder.
From HV Require Import model.Types model.Codec model.CodecVals model.CodecOps model.SerialHugr.

Fixpoint mapi_from {A B} (f : nat -> A -> B) (i : nat) (l : list A) : list B :=
  match l with [] => [] | x :: r => f i x :: mapi_from f (S i) r end.

(* ---- the view of a store ---- *)
Definition aoff_of (o : option N) : aoff := match o with Some k => APort (N.to_nat k) | None => AOrder end.
Definition blink (e : edge) : link :=
  ((N.to_nat (e_src e), aoff_of (e_soff e)), (N.to_nat (e_dst e), aoff_of (e_doff e))).
Definition bchildren (l : list vnode) (p : nat) : list nat :=
  filter (fun c => negb (c =? 0) &&
                   match nth_error l c with Some nd => N.to_nat (Validity.n_parent nd) =? p | None => false end)
         (seq 0 (length l)).

Section View.
  Variable A : Type.
  Variable f : vop -> A.
  Variable pc : nat -> nat * nat.                (* recorded port counts: not modelled, arbitrary *)

  Definition bnode (l : list vnode) (i : nat) (nd : vnode) : SerialHugr.node A unit :=
    {| SerialHugr.n_op := f (Validity.n_op nd);
       SerialHugr.n_parent := if i =? 0 then None else Some (N.to_nat (Validity.n_parent nd));
       n_children := bchildren l i; n_md := tt; n_nin := fst (pc i); n_nout := snd (pc i) |}.
  Definition bview (st : store) : hugr A unit :=
    {| h_nodes := map Some (mapi_from (bnode (Builder.s_nodes st)) 0 (Builder.s_nodes st));
       h_root := 0;
       h_links := map blink (s_links st) |}.

  (* ---- the builder model's document as a SerialHugr document ---- *)
  Variable SA : Type.
  Variable enc : A -> SA.
  Definition doc_of_graph (g : graph) : serial SA unit :=
    {| SerialHugr.s_nodes := map (fun nd => {| s_op := enc (f (Validity.n_op nd)); s_parent := N.to_nat (Validity.n_parent nd) |})
                                 (g_nodes g);
       s_edges := map (fun e => ((N.to_nat (e_src e), option_map N.to_nat (e_soff e)),
                                 (N.to_nat (e_dst e), option_map N.to_nat (e_doff e)))) (g_edges g);
       s_meta := Some (map (fun _ => None) (g_nodes g)) |}.
End View.

(* ---- the operation layer of SerialHugr for the builder's own operation literal: an operation is its own encoded
   form (Builder.to_serial keeps the vop), ops._num_dataflow_ports is base_in / base_out of model/Validity.v on the
   operations that have a dataflow signature, the reader's contract is Validity's port layout ---- *)
Definition v_has_order (o : vop) : bool := is_some (df_sig o).
Definition v_vports (o : vop) (d : dir) : nat :=
  N.to_nat (match d with DIn => lenN (val_in o) | DOut => lenN (val_out o) end).
Definition v_sports (o : vop) (d : dir) : nat :=
  N.to_nat (b2N (is_some (match d with DIn => static_in o | DOut => static_out o end))).
Definition v_ndp (o : vop) (d : dir) : option nat :=
  if v_has_order o then Some (N.to_nat (match d with DIn => base_in o | DOut => base_out o end)) else None.
Definition unit_is_nil (_ : unit) : bool := true.

(* ---- a concretisation of the builder's operation literal into the operations of model/CodecOps.v: types by a
   table tyc from interned ids, extension operations as opaque Custom operations with a name from nm (the
   validity literal keeps only their signature), extension constants with a payload / name from nm.  Operations
   outside the modelled builder language and function-valued constants are mapped to Module (never reached:
   ModelOps, and the modelled language has no function-valued constants). ---- *)
Section Conc.
  Variable H : Type.
  Variable tyc : tyid -> ty.
  Variable nm : name.
  Definition crow (r : row) : list ty := map tyc r.
  Fixpoint cval (v : Validity.value) : CodecVals.value H :=
    match v with
    | Validity.VSum t tag vs => CodecVals.VSum tag (tyc t) (map cval vs)
    | Validity.VTuple _ vs => CodecVals.VTuple (map cval vs)
    | VExt t => VExtension nm (tyc t) 0%N []
    | VFun t _ => VExtension nm (tyc t) 0%N []
    end.
  Definition conc (o : vop) : op H :=
    match o with
    | DFG i os => ODFG (crow i) (crow os) []
    | Input ts => OInput (crow ts)
    | Output ts => OOutput (crow ts)
    | ExtOp i os => OCustom nm (FT (crow i) (crow os) []) nm nm []
    | Tag t vs _ => OTag t (Types.TSum (map crow vs))
    | Const v => OConst (cval v)
    | LoadConst t => OLoadConst (tyc t)
    | _ => OModule
    end.
End Conc.
