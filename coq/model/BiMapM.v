(* Model of hugr.utils.BiMap (hugr-py/src/hugr/utils.py:15-175), statement by statement.
   Python dicts are insertion-ordered association lists (lib/PyDict.v).  No proofs here. *)
From Coq Require Import List Bool Arith.
Import ListNotations.
From HV Require Import lib.PyDict lib.Harness.

Inductive out := Done | KeyError | NotBijection.

Section BiMap.
  Context {L R : Type} (leqb : L -> L -> bool) (reqb : R -> R -> bool).

  Record bimap := { fwd : list (L * R); bck : list (R * L) }.
  Notation getf := (dget leqb). Notation getb := (dget reqb).

  (* __init__: fwd is a Python mapping, i.e. an association list with distinct keys *)
  Definition init (m : list (L * R)) : option bimap :=
    if nodupb reqb (map snd m)               (* len(fwd) != len(set(fwd.values())) *)
    (* {v: k for k, v in fwd.items()}: with distinct values this is the swapped list, same order *)
    then Some {| fwd := m; bck := map (fun kv => (snd kv, fst kv)) m |}
    else None.

  (* utils.py:101-120 *)
  Definition insert_left (b : bimap) (k : L) (v : R) : bimap :=
    let f1 := match getb (bck b) v with Some ek => ddel leqb (fwd b) ek | None => fwd b end in
    let b1 := match getf f1 k with Some ev => ddel reqb (bck b) ev | None => bck b end in
    {| fwd := dset leqb f1 k v; bck := dset reqb b1 v k |}.
  Definition insert_right (b : bimap) (v : R) (k : L) : bimap := insert_left b k v.

  (* utils.py:138-154: del self.bck[self.fwd[key]]; del self.fwd[key] *)
  Definition delete_left (b : bimap) (k : L) : bimap * out :=
    match getf (fwd b) k with
    | None => (b, KeyError)
    | Some v =>
        match getb (bck b) v with
        | None => (b, KeyError)
        | Some _ => ({| fwd := ddel leqb (fwd b) k; bck := ddel reqb (bck b) v |}, Done)
        end
    end.
  (* utils.py:156-172 *)
  Definition delete_right (b : bimap) (v : R) : bimap * out :=
    match getb (bck b) v with
    | None => (b, KeyError)
    | Some k =>
        match getf (fwd b) k with
        | None => (b, KeyError)
        | Some _ => ({| fwd := ddel leqb (fwd b) k; bck := ddel reqb (bck b) v |}, Done)
        end
    end.

  Inductive op :=
  | InsL (k : L) (v : R) | InsR (v : R) (k : L) | DelL (k : L) | DelR (v : R)
  | SetItem (k : L) (v : R) | DelItem (k : L).

  Definition step (b : bimap) (o : op) : bimap * out :=
    match o with
    | InsL k v | SetItem k v => (insert_left b k v, Done)
    | InsR v k => (insert_right b v k, Done)
    | DelL k | DelItem k => delete_left b k
    | DelR v => delete_right b v
    end.
  Definition run (b : bimap) (ops : list op) : bimap := fold_left (fun s o => fst (step s o)) ops b.

  (* queries *)
  Definition items (b : bimap) : list (L * R) := fwd b.
  Definition iter (b : bimap) : list L := map fst (fwd b).
  Definition len (b : bimap) : nat := length (fwd b).
  Definition get_right (b : bimap) (k : L) : option R := getf (fwd b) k.
  Definition get_left (b : bimap) (v : R) : option L := getb (bck b) v.
  Definition getitem (b : bimap) (k : L) : option R := getf (fwd b) k.   (* None = KeyError *)
End BiMap.
