(* Mutation histories for C02: the public mutators of hugr.Hugr as modelled statement by statement in
   model/Graph.v (node table with holes, free stack, BiMap of sub-ports) plus metadata assignment, and the
   VIEW of a store state as the API-level HUGR of model/SerialHugr.v -- what harness/hobs.py `dump` shows:
   the node table with holes, per node operation / parent / ordered children / metadata / reported port
   counts, the root, and `links()` in the iteration order of the forward dictionary with offset -1 as the
   order port.  Sub-offsets and the free stack are not visible in the view.  No proofs in this file. *)
From Coq Require Import List Bool Arith ZArith.
Import ListNotations.
From HV Require Import lib.PyDict lib.Harness model.BiMapM model.Graph model.SerialHugr.

Section H.
  Context {Op Meta : Type}.
  Notation store := (Graph.hugr Op Meta).

  (* ---- the view ---- *)
  Definition aoff_of (z : Z) : aoff := if Z.eqb z (-1) then AOrder else APort (Z.to_nat z).
  Definition vport (p : Graph.port) : SerialHugr.port := (fst p, aoff_of (snd p)).
  Definition vlink (l : Graph.port * Graph.port) : SerialHugr.link := (vport (fst l), vport (snd l)).
  Definition vnode (d : node_data Op Meta) : SerialHugr.node Op Meta :=
    {| n_op := nd_op d; n_parent := nd_parent d; n_children := nd_children d; n_md := nd_meta d;
       n_nin := Z.to_nat (nd_inps d); n_nout := Z.to_nat (nd_outs d) |}.
  Definition view (h : store) : SerialHugr.hugr Op Meta :=
    {| h_nodes := map (option_map vnode) (nodes h); h_root := root h; h_links := map vlink (q_links h) |}.

  (* ---- commands: the mutators of model/Graph.v, `h[n].metadata = m` (the harness passes the whole
     dictionary after an item assignment) and insert_hugr of a HUGR given by its own history
     Hugr(o) (root metadata m) + basic calls ---- *)
  Inductive hcmd :=
  | HB (c : bcmd Op Meta)
  | HSetMeta (n : nid) (m : Meta)
  | HInsert (o : Op) (m : Meta) (src : list (bcmd Op Meta)) (parent : option nid).

  Definition set_meta_data (d : node_data Op Meta) (m : Meta) : node_data Op Meta :=
    {| nd_op := nd_op d; nd_parent := nd_parent d; nd_inps := nd_inps d; nd_outs := nd_outs d;
       nd_children := nd_children d; nd_meta := m |}.
  Definition set_meta (h : store) (n : nid) (m : Meta) : store * res :=
    match Graph.get_node h n with
    | None => (h, EKey)                                   (* self[node] : KeyError *)
    | Some d => (set_node h n (set_meta_data d m), Ok)
    end.

  Definition hstep (h : store) (c : hcmd) : store * res :=
    match c with
    | HB b => let '(h', _, r) := bstep h b in (h', r)
    | HSetMeta n m => set_meta h n m
    | HInsert o m src parent => let '(h', _, r) := insert_hugr [] h (brun (init o m) src) parent in (h', r)
    end.
  Definition hrun (h : store) (cs : list hcmd) : store := fold_left (fun s c => fst (hstep s c)) cs h.
End H.
Arguments hcmd : clear implicits.
