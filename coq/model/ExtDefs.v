(* C10 — model of hugr.ext (API layer) and hugr._serialization.extension (serial layer):
   Extension / TypeDef / OpDef / OpDefSig / ExtensionValue, add_type_def / add_op_def /
   add_extension_value, _to_serial and deserialize.  No proofs in this file.

   Boundary.  Type expressions inside signatures, constant values and the values of the `misc`
   dictionaries are payloads: the model is parametric in their API-level and serial-level types and
   in the codec between them (that codec is property C05).  Everything the property speaks about is
   structured: names, versions, requirement sets, type parameters (with their own codec, mirrored
   here), bounds, the binary flag, descriptions, the owner of every definition, dictionary order.
   Lowering functions are excluded by the property's quantifier (lower_funcs = []).
   Python sets (Extension.runtime_reqs, the set built inside with_runtime_reqs) are modelled by their
   canonical form: strictly increasing lists of interned names.  Objects have value semantics in the
   main part; Section Shared hands one definition object to several extensions, Section Heap adds
   object identity (Extension objects with the same name; see design.d/C10.md). *)
From Coq Require Import NArith ZArith List Bool Arith.
Import ListNotations.
From HV Require Import lib.PyDict lib.Harness model.Types.

(* ---- exceptions as values ---- *)
Inductive err := NoParentExtension | AssertionError | ValueError.
Inductive res (A : Type) := Ok (a : A) | Err (e : err).
Arguments Ok {A} _.
Arguments Err {A} _.
Definition bind {A B} (r : res A) (f : A -> res B) : res B :=
  match r with Ok a => f a | Err e => Err e end.
Fixpoint mapM {A B} (f : A -> res B) (l : list A) : res (list B) :=
  match l with
  | [] => Ok []
  | x :: r => bind (f x) (fun y => bind (mapM f r) (fun ys => Ok (y :: ys)))
  end.
Fixpoint foldM {A S} (f : S -> A -> res S) (l : list A) (s : S) : res S :=
  match l with [] => Ok s | x :: r => bind (f s x) (foldM f r) end.

(* ---- Python sets of extension names: canonical form ---- *)
Fixpoint sins (x : name) (l : list name) : list name :=
  match l with
  | [] => [x]
  | y :: r => match N.compare x y with Lt => x :: l | Eq => l | Gt => y :: sins x r end
  end.
Definition canon (l : list name) : list name := fold_right sins [] l.
(* set(a).union(b) *)
Definition set_union (a b : list name) : list name := fold_right sins (canon a) b.

(* ---- semver.Version ---- *)
Record version := { v_major : N; v_minor : N; v_patch : N; v_pre : option name; v_build : option name }.

(* ---- serial type parameters: one constructor per pydantic class of _serialization/tys.py ---- *)
Inductive sparam :=
| SPType (b : bound) | SPNat (ub : option N) | SPString | SPList (p : sparam)
| SPTuple (ps : list sparam) | SPExts.
Fixpoint param_ser (p : typaram) : sparam :=
  match p with
  | PType b => SPType b
  | PNat ub => SPNat ub
  | PString => SPString
  | PList q => SPList (param_ser q)
  | PTuple ps => SPTuple (map param_ser ps)
  | PExts => SPExts
  end.
Fixpoint param_deser (p : sparam) : typaram :=
  match p with
  | SPType b => PType b
  | SPNat ub => PNat ub
  | SPString => PString
  | SPList q => PList (param_deser q)
  | SPTuple ps => PTuple (map param_deser ps)
  | SPExts => PExts
  end.

Inductive sbound := SExplicit (b : bound) | SFromParams (idx : list nat).
Definition bound_ser (b : defbound) : sbound :=
  match b with Explicit x => SExplicit x | FromParams i => SFromParams i end.
Definition bound_deser (b : sbound) : defbound :=
  match b with SExplicit x => Explicit x | SFromParams i => FromParams i end.

Section ExtDefs.
  (* T / ST: API and serial type expressions; V / SV: API and serial constant values;
     M: values of misc dictionaries (the same Python objects on both layers) *)
  Context {T ST V SV M : Type}.
  Variables (ser_t : T -> ST) (deser_t : ST -> T) (ser_v : V -> SV) (deser_v : SV -> V).

  (* ---------------- API layer (ext.py, tys.PolyFuncType) ---------------- *)
  Record polyfunc := { pf_params : list typaram; pf_input : list T; pf_output : list T;
                       pf_reqs : list name }.
  Record opdefsig := { sig_poly : option polyfunc; sig_binary : bool }.
  Record atypedef := { atd_owner : option name; atd_name : name; atd_descr : name;
                       atd_params : list typaram; atd_bound : defbound }.
  Record aopdef := { aod_owner : option name; aod_name : name; aod_sig : opdefsig;
                     aod_descr : name; aod_misc : list (name * M) }.
  Record avalue := { av_owner : option name; av_name : name; av_val : V }.
  (* field order of the dataclass: name, version, runtime_reqs, types, values, operations *)
  Record extension := { e_name : name; e_version : version; e_reqs : list name;
                        e_types : list (name * atypedef); e_values : list (name * avalue);
                        e_ops : list (name * aopdef) }.

  (* OpDefSig.__init__ *)
  Definition mk_sig (p : option polyfunc) (binary : bool) : res opdefsig :=
    match p, binary with
    | None, false => Err ValueError
    | _, _ => Ok {| sig_poly := p; sig_binary := binary |}
    end.

  (* FunctionType.with_runtime_reqs through PolyFuncType.with_runtime_reqs *)
  Definition with_reqs (p : polyfunc) (rs : list name) : polyfunc :=
    {| pf_params := pf_params p; pf_input := pf_input p; pf_output := pf_output p;
       pf_reqs := set_union (pf_reqs p) rs |}.

  (* Extension(name, version, runtime_reqs) *)
  Definition new_ext (n : name) (v : version) (reqs : list name) : extension :=
    {| e_name := n; e_version := v; e_reqs := canon reqs; e_types := []; e_values := []; e_ops := [] |}.

  (* add_* return the stored object as well (the caller keeps using it) *)
  Definition add_type_def (e : extension) (td : atypedef) : extension * atypedef :=
    let td' := {| atd_owner := Some (e_name e); atd_name := atd_name td; atd_descr := atd_descr td;
                  atd_params := atd_params td; atd_bound := atd_bound td |} in
    ({| e_name := e_name e; e_version := e_version e; e_reqs := e_reqs e;
        e_types := dset N.eqb (e_types e) (atd_name td) td';
        e_values := e_values e; e_ops := e_ops e |}, td').
  Definition add_op_def (e : extension) (od : aopdef) : extension * aopdef :=
    let sg := {| sig_poly := match sig_poly (aod_sig od) with
                             | Some p => Some (with_reqs p [e_name e])
                             | None => None
                             end;
                 sig_binary := sig_binary (aod_sig od) |} in
    let od' := {| aod_owner := Some (e_name e); aod_name := aod_name od; aod_sig := sg;
                  aod_descr := aod_descr od; aod_misc := aod_misc od |} in
    ({| e_name := e_name e; e_version := e_version e; e_reqs := e_reqs e;
        e_types := e_types e; e_values := e_values e;
        e_ops := dset N.eqb (e_ops e) (aod_name od) od' |}, od').
  Definition add_extension_value (e : extension) (v : avalue) : extension * avalue :=
    let v' := {| av_owner := Some (e_name e); av_name := av_name v; av_val := av_val v |} in
    ({| e_name := e_name e; e_version := e_version e; e_reqs := e_reqs e;
        e_types := e_types e; e_values := dset N.eqb (e_values e) (av_name v) v';
        e_ops := e_ops e |}, v').

  (* construction histories through the public API *)
  Inductive cmd := AddType (td : atypedef) | AddOp (od : aopdef) | AddValue (v : avalue).
  Definition step (e : extension) (c : cmd) : extension :=
    match c with
    | AddType td => fst (add_type_def e td)
    | AddOp od => fst (add_op_def e od)
    | AddValue v => fst (add_extension_value e v)
    end.
  Definition build (e : extension) (cs : list cmd) : extension := fold_left step cs e.

  (* ---------------- serial layer (_serialization/extension.py), fields in declaration order ---- *)
  Record sfunc := { sf_input : list ST; sf_output : list ST; sf_reqs : list name }.
  Record spoly := { sp_params : list sparam; sp_body : sfunc }.
  Record stypedef := { std_extension : name; std_name : name; std_descr : name;
                       std_params : list sparam; std_bound : sbound }.
  Record svalue := { sv_extension : name; sv_name : name; sv_typed_value : SV }.
  Record sopdef := { so_extension : name; so_name : name; so_descr : name;
                     so_misc : option (list (name * M)); so_signature : option spoly;
                     so_binary : bool }.
  Record sextension := { se_version : version; se_name : name; se_reqs : list name;
                         se_types : list (name * stypedef); se_values : list (name * svalue);
                         se_ops : list (name * sopdef) }.

  (* ---------------- _to_serial ---------------- *)
  Definition owner_name (o : option name) : res name :=
    match o with Some n => Ok n | None => Err NoParentExtension end.
  Definition td_to_serial (t : atypedef) : res stypedef :=
    bind (owner_name (atd_owner t)) (fun o =>
      Ok {| std_extension := o; std_name := atd_name t; std_descr := atd_descr t;
            std_params := map param_ser (atd_params t); std_bound := bound_ser (atd_bound t) |}).
  Definition poly_to_serial (p : polyfunc) : spoly :=
    {| sp_params := map param_ser (pf_params p);
       sp_body := {| sf_input := map ser_t (pf_input p); sf_output := map ser_t (pf_output p);
                     sf_reqs := pf_reqs p |} |}.
  Definition od_to_serial (o : aopdef) : res sopdef :=
    bind (owner_name (aod_owner o)) (fun ow =>
      Ok {| so_extension := ow; so_name := aod_name o; so_descr := aod_descr o;
            so_misc := Some (aod_misc o);
            so_signature := option_map poly_to_serial (sig_poly (aod_sig o));
            so_binary := sig_binary (aod_sig o) |}).
  Definition v_to_serial (v : avalue) : res svalue :=
    bind (owner_name (av_owner v)) (fun ow =>
      Ok {| sv_extension := ow; sv_name := av_name v; sv_typed_value := ser_v (av_val v) |}).
  Definition dict_to_serial {A B} (f : A -> res B) (d : list (name * A)) : res (list (name * B)) :=
    mapM (fun kv => bind (f (snd kv)) (fun b => Ok (fst kv, b))) d.
  Definition to_serial (e : extension) : res sextension :=
    bind (dict_to_serial td_to_serial (e_types e)) (fun ts =>
    bind (dict_to_serial v_to_serial (e_values e)) (fun vs =>
    bind (dict_to_serial od_to_serial (e_ops e)) (fun os =>
      Ok {| se_version := e_version e; se_name := e_name e; se_reqs := canon (e_reqs e);
            se_types := ts; se_values := vs; se_ops := os |}))).

  (* ---------------- deserialize ---------------- *)
  Definition poly_deser (p : spoly) : polyfunc :=
    {| pf_params := map param_deser (sp_params p);
       pf_input := map deser_t (sf_input (sp_body p));
       pf_output := map deser_t (sf_output (sp_body p));
       pf_reqs := sf_reqs (sp_body p) |}.
  (* TypeDef.deserialize(extension): builds the object and adds it; the recorded `extension` field of
     the document is not read *)
  Definition td_deser (e : extension) (t : stypedef) : extension * atypedef :=
    add_type_def e {| atd_owner := None; atd_name := std_name t; atd_descr := std_descr t;
                      atd_params := map param_deser (std_params t);
                      atd_bound := bound_deser (std_bound t) |}.
  Definition v_deser (e : extension) (v : svalue) : extension * avalue :=
    add_extension_value e {| av_owner := None; av_name := sv_name v;
                             av_val := deser_v (sv_typed_value v) |}.
  Definition od_deser (e : extension) (o : sopdef) : res (extension * aopdef) :=
    bind (mk_sig (option_map (fun p => with_reqs (poly_deser p) [e_name e]) (so_signature o))
                 (so_binary o)) (fun sg =>
      Ok (add_op_def e {| aod_owner := None; aod_name := so_name o; aod_sig := sg;
                          aod_descr := so_descr o;
                          aod_misc := match so_misc o with Some m => m | None => [] end |})).
  (* the three loops of Extension.deserialize: `assert k == x.name; e.add_x(x.deserialize(e))` *)
  Definition type_step (e : extension) (kt : name * stypedef) : res extension :=
    if N.eqb (fst kt) (std_name (snd kt))
    then let '(e1, td) := td_deser e (snd kt) in Ok (fst (add_type_def e1 td))
    else Err AssertionError.
  Definition op_step (e : extension) (ko : name * sopdef) : res extension :=
    if N.eqb (fst ko) (so_name (snd ko))
    then bind (od_deser e (snd ko)) (fun '(e1, od) => Ok (fst (add_op_def e1 od)))
    else Err AssertionError.
  Definition value_step (e : extension) (kv : name * svalue) : res extension :=
    if N.eqb (fst kv) (sv_name (snd kv))
    then let '(e1, v) := v_deser e (snd kv) in Ok (fst (add_extension_value e1 v))
    else Err AssertionError.
  Definition deserialize (s : sextension) : res extension :=
    bind (foldM type_step (se_types s) (new_ext (se_name s) (se_version s) (se_reqs s))) (fun e1 =>
    bind (foldM op_step (se_ops s) e1) (fun e2 =>
    foldM value_step (se_values s) e2)).

  (* what a document turns into when it is loaded and written again (used for foreign documents such
     as the bundled files): owner fields := the extension's name, the owner joins every signature's
     requirement set, an absent misc becomes {} *)
  Definition reload (s : sextension) : res sextension := bind (deserialize s) to_serial.
End ExtDefs.

Arguments polyfunc : clear implicits.
Arguments opdefsig : clear implicits.
Arguments aopdef : clear implicits.
Arguments avalue : clear implicits.
Arguments extension : clear implicits.
Arguments cmd : clear implicits.
Arguments sfunc : clear implicits.
Arguments spoly : clear implicits.
Arguments svalue : clear implicits.
Arguments sopdef : clear implicits.
Arguments sextension : clear implicits.

(* ---- several extensions and definition objects handed to add_* more than once ----
   The same Python object may be added to different extensions.  add_* mutates an unowned object (or
   one already owned by the receiving extension) in place, and stores a COPY when the object is owned
   by another extension (ext.py after the C10 fix); the caller's handle then keeps denoting the first
   owner's object.  Owners are compared by name here: adequate for extensions with distinct names, and
   value-equal to the code's behaviour otherwise (re-stamping with the same name is idempotent); WHICH
   object owns a definition when names coincide is the business of Section Heap below. *)
Section Shared.
  Context {T V M : Type}.
  Inductive obj := OType (t : atypedef) | OOp (o : aopdef T M) | OValue (v : avalue V).
  Record world := { w_exts : list (extension T V M); w_objs : list obj }.
  Definition obj_owner (o : obj) : option name :=
    match o with OType t => atd_owner t | OOp d => aod_owner d | OValue v => av_owner v end.
  Fixpoint update {A} (l : list A) (i : nat) (x : A) : list A :=
    match l, i with
    | [], _ => []
    | _ :: r, O => x :: r
    | y :: r, S k => y :: update r k x
    end.
  Definition add_obj (e : extension T V M) (o : obj) : extension T V M * obj :=
    match o with
    | OType t => let (e', t') := add_type_def e t in (e', OType t')
    | OOp d => let (e', d') := add_op_def e d in (e', OOp d')
    | OValue v => let (e', v') := add_extension_value e v in (e', OValue v')
    end.
  (* add object (snd ij) to extension (fst ij) *)
  Definition share_step (w : world) (ij : nat * nat) : world :=
    match nth_error (w_exts w) (fst ij), nth_error (w_objs w) (snd ij) with
    | Some e, Some o =>
        let copied := match obj_owner o with None => false | Some n => negb (N.eqb n (e_name e)) end in
        {| w_exts := update (w_exts w) (fst ij) (fst (add_obj e o));
           w_objs := if copied then w_objs w else update (w_objs w) (snd ij) (snd (add_obj e o)) |}
    | _, _ => w
    end.
  Definition share_run (w : world) (p : list (nat * nat)) : world := fold_left share_step p w.
End Shared.
Arguments obj : clear implicits.
Arguments world : clear implicits.

(* ---- the same world with object IDENTITY (seeded round 2) ----
   `op_def._extension is not self` compares Extension OBJECTS, not names: two Extension objects may carry
   the same name (an extension and its from_json(to_json()) copy, the next version of an extension, ...).
   Here an Extension object is its index in the world, a definition object is an address of a heap of
   cells, a cell is the object's fields plus its `_extension` pointer (an index), and the three
   dictionaries of an Extension object hold addresses.  The caller's handle j is address j for ever:
   add_* mutates the cell in place when it is unowned or owned by the receiving Extension object, and
   otherwise allocates a copy (dataclasses.replace) at a fresh address and stores that. *)
Section Heap.
  Context {T V M : Type}.
  Record cell := { c_obj : obj T V M; c_ext : option nat }.
  Record rext := { r_name : name; r_version : version; r_reqs : list name;
                   r_types : list (name * nat); r_values : list (name * nat);
                   r_ops : list (name * nat) }.
  Record heapw := { hw_exts : list rext; hw_heap : list cell }.
  Definition new_rext (n : name) (v : version) (reqs : list name) : rext :=
    {| r_name := n; r_version := v; r_reqs := canon reqs; r_types := []; r_values := []; r_ops := [] |}.
  (* the fields add_* reads of the receiving extension *)
  Definition hdr_of (x : rext) : extension T V M :=
    {| e_name := r_name x; e_version := r_version x; e_reqs := r_reqs x;
       e_types := []; e_values := []; e_ops := [] |}.
  (* what add_* writes into the object it stores *)
  Definition stamp (x : rext) (o : obj T V M) : obj T V M := snd (add_obj (hdr_of x) o).
  Definition obj_name (o : obj T V M) : name :=
    match o with OType t => atd_name t | OOp d => aod_name d | OValue v => av_name v end.
  (* self.types / self.operations / self.values [o.name] = <address a> *)
  Definition store (x : rext) (o : obj T V M) (a : nat) : rext :=
    match o with
    | OType _ => {| r_name := r_name x; r_version := r_version x; r_reqs := r_reqs x;
                    r_types := dset N.eqb (r_types x) (obj_name o) a;
                    r_values := r_values x; r_ops := r_ops x |}
    | OOp _ => {| r_name := r_name x; r_version := r_version x; r_reqs := r_reqs x;
                  r_types := r_types x; r_values := r_values x;
                  r_ops := dset N.eqb (r_ops x) (obj_name o) a |}
    | OValue _ => {| r_name := r_name x; r_version := r_version x; r_reqs := r_reqs x;
                     r_types := r_types x; r_values := dset N.eqb (r_values x) (obj_name o) a;
                     r_ops := r_ops x |}
    end.
  (* exts[fst ij].add_*(handle (snd ij)) *)
  Definition hstep (w : heapw) (ij : nat * nat) : heapw :=
    match nth_error (hw_exts w) (fst ij), nth_error (hw_heap w) (snd ij) with
    | Some x, Some c =>
        let copied := match c_ext c with None => false | Some k => negb (Nat.eqb k (fst ij)) end in
        let a := if copied then length (hw_heap w) else snd ij in
        let c' := {| c_obj := stamp x (c_obj c); c_ext := Some (fst ij) |} in
        {| hw_exts := update (hw_exts w) (fst ij) (store x (c_obj c) a);
           hw_heap := if copied then hw_heap w ++ [c'] else update (hw_heap w) (snd ij) c' |}
    | _, _ => w
    end.
  Definition hrun (w : heapw) (p : list (nat * nat)) : heapw := fold_left hstep p w.
  Definition new_heapw (hdrs : list (name * version * list name)) (objs : list (obj T V M)) : heapw :=
    {| hw_exts := map (fun h => new_rext (fst (fst h)) (snd (fst h)) (snd h)) hdrs;
       hw_heap := map (fun o => {| c_obj := o; c_ext := None |}) objs |}.

  (* what an Extension object looks like to a reader: its dictionaries dereferenced (an entry whose
     address is dangling or holds an object of another kind is dropped; there is none, see the proofs) *)
  Definition deref {A} (h : list cell) (pick : obj T V M -> option A) (d : list (name * nat))
    : list (name * A) :=
    flat_map (fun ka : name * nat =>
                match nth_error h (snd ka) with
                | Some c => match pick (c_obj c) with Some x => [(fst ka, x)] | None => [] end
                | None => []
                end) d.
  Definition pick_type (o : obj T V M) := match o with OType t => Some t | _ => None end.
  Definition pick_op (o : obj T V M) := match o with OOp d => Some d | _ => None end.
  Definition pick_value (o : obj T V M) := match o with OValue v => Some v | _ => None end.
  Definition view (h : list cell) (x : rext) : extension T V M :=
    {| e_name := r_name x; e_version := r_version x; e_reqs := r_reqs x;
       e_types := deref h pick_type (r_types x); e_values := deref h pick_value (r_values x);
       e_ops := deref h pick_op (r_ops x) |}.
  (* per operation held by an Extension object: key, the Extension object its definition reports
     (`get_extension()`, as an index), the requirement set of its signature *)
  Definition held_owners (h : list cell) (x : rext) : list (name * option nat * option (list name)) :=
    flat_map (fun ka : name * nat =>
                match nth_error h (snd ka) with
                | Some c => match c_obj c with
                            | OOp d => [(fst ka, c_ext c, option_map (@pf_reqs T) (sig_poly (aod_sig d)))]
                            | _ => []
                            end
                | None => []
                end) (r_ops x).
End Heap.
Arguments cell : clear implicits.
Arguments heapw : clear implicits.

(* ---- one Extension object over time: definitions are added, and in between the object is serialised
   (seeded round 4) ----
   `SSer`: `e.to_json()` — the document is an OUTPUT, the object is left alone (nothing in ext.py keeps
   anything from one call of `_to_serial` to the next).  `SLoad`: the document is written and the session
   goes on with the object `from_json` returns.  `session` lists the documents in the order they are written;
   a document that does not load ends the session. *)
Section Session.
  Context {T ST V SV M : Type}.
  Variables (ser_t : T -> ST) (deser_t : ST -> T) (ser_v : V -> SV) (deser_v : SV -> V).
  Inductive sstep := SAdd (c : cmd T V M) | SSer | SLoad.
  Fixpoint session (e : extension T V M) (p : list sstep) : list (res (sextension ST SV M)) :=
    match p with
    | [] => []
    | SAdd c :: r => session (step e c) r
    | SSer :: r => to_serial ser_t ser_v e :: session e r
    | SLoad :: r =>
        let d := to_serial ser_t ser_v e in
        d :: match bind d (deserialize deser_t deser_v) with
             | Ok e' => session e' r
             | Err _ => []
             end
    end.
  (* the seeded variant (C10-g), for the refutation only: `to_json` keeps its document in the object, `add_type_def`
     and `add_op_def` drop it, `add_extension_value` does not *)
  Fixpoint session_stale (e : extension T V M) (cache : option (res (sextension ST SV M))) (p : list sstep)
    : list (res (sextension ST SV M)) :=
    match p with
    | [] => []
    | SAdd c :: r => session_stale (step e c) (match c with AddValue _ => cache | _ => None end) r
    | SSer :: r | SLoad :: r =>
        let d := match cache with Some d => d | None => to_serial ser_t ser_v e end in
        d :: session_stale e (Some d) r
    end.
End Session.
Arguments sstep : clear implicits.

(* ---- payload instance used by the correspondence runs and the regenerated data: JSON trees
   (strings and float literals interned by the harness), identity codec ---- *)
Inductive json :=
| JNull | JBool (b : bool) | JInt (z : Z) | JFloat (repr : name) | JStr (s : name)
| JArr (l : list json) | JObj (kv : list (name * json)).
Fixpoint json_eqb (a b : json) {struct a} : bool :=
  match a, b with
  | JNull, JNull => true
  | JBool x, JBool y => Bool.eqb x y
  | JInt x, JInt y => Z.eqb x y
  | JFloat x, JFloat y => N.eqb x y
  | JStr x, JStr y => N.eqb x y
  | JArr l1, JArr l2 =>
      (fix arr (l1 l2 : list json) {struct l1} : bool :=
         match l1, l2 with
         | [], [] => true
         | x :: r, y :: s => json_eqb x y && arr r s
         | _, _ => false
         end) l1 l2
  | JObj l1, JObj l2 =>
      (fix obj (l1 l2 : list (name * json)) {struct l1} : bool :=
         match l1, l2 with
         | [], [] => true
         | (k, x) :: r, (k', y) :: s => N.eqb k k' && json_eqb x y && obj r s
         | _, _ => false
         end) l1 l2
  | _, _ => false
  end.
Definition jext := sextension json json json.
Definition jcmd := cmd json json json.
Definition jid (x : json) : json := x.
