(* Model of hugr.qsystem.result (QsysShot.to_register_bits / collate_tags, QsysResult.register_bitstrings /
   register_counts / collated_counts), result.py:48-271.  Tags are lists of code points (printable ASCII);
   a bit string is a list of bool rendered as '0'/'1'.  No proofs here. *)
From Coq Require Import ZArith List Bool Arith.
Import ListNotations.
From HV Require Import lib.PyDict lib.Harness.

Inductive prim := PInt (z : Z) | PBool (b : bool) | PFloat.
Inductive data := DPrim (p : prim) | DList (l : list data).
Definition tag := list Z.
Definition tag_eqb : tag -> tag -> bool := list_eqb Z.eqb.
Definition entry := (tag * data)%type.

Inductive res (A : Type) := Ok (a : A) | ValueError.
Arguments Ok {A}. Arguments ValueError {A}.
Definition bind {A B} (r : res A) (f : A -> res B) : res B :=
  match r with Ok a => f a | ValueError => ValueError end.
Fixpoint mapM {A B} (f : A -> res B) (l : list A) : res (list B) :=
  match l with
  | [] => Ok []
  | x :: r => bind (f x) (fun y => bind (mapM f r) (fun ys => Ok (y :: ys)))
  end.
Fixpoint foldM {A S} (f : S -> A -> res S) (l : list A) (s : S) : res S :=
  match l with [] => Ok s | x :: r => bind (f s x) (fun s' => foldM f r s') end.

(* REG_INDEX_PATTERN: a lower-case letter, word characters, '[', one or more digits, ']', end; ASCII classes *)
Open Scope Z_scope.
Definition is_lower (c : Z) := (97 <=? c) && (c <=? 122).
Definition is_upper (c : Z) := (65 <=? c) && (c <=? 90).
Definition is_digit (c : Z) := (48 <=? c) && (c <=? 57).
Definition is_word (c : Z) := is_lower c || is_upper c || is_digit c || (c =? 95).
Close Scope Z_scope.
Fixpoint span {A} (p : A -> bool) (l : list A) : list A * list A :=
  match l with
  | [] => ([], [])
  | x :: r => if p x then let '(a, b) := span p r in (x :: a, b) else ([], l)
  end.
Definition digits_value (ds : list Z) : N :=
  fold_left (fun acc d => (acc * 10 + Z.to_N (d - 48))%N) ds 0%N.
Definition parse_tag_n (t : tag) : option (tag * N) :=
  match t with
  | c :: r =>
      if is_lower c then
        let '(w, rest) := span is_word r in
        match rest with
        | 91%Z :: rest' =>                              (* '[' *)
            let '(ds, rest'') := span is_digit rest' in
            match ds, rest'' with
            | _ :: _, [93%Z] => Some (c :: w, digits_value ds)   (* ']' then end; int(digits) *)
            | _, _ => None
            end
        | _ => None
        end
      else None
  | [] => None
  end.

Definition parse_tag (t : tag) : option (tag * nat) :=
  match parse_tag_n t with Some (name, n) => Some (name, N.to_nat n) | None => None end.

(* _cast_primitive_bit *)
Definition cast (d : data) : res bool :=
  match d with
  | DPrim (PInt 0%Z) => Ok false
  | DPrim (PInt 1%Z) => Ok true
  | DPrim (PBool b) => Ok b
  | _ => ValueError
  end.

Fixpoint set_nth {A} (l : list A) (n : nat) (x : A) : list A :=
  match l, n with
  | [], _ => []
  | _ :: r, O => x :: r
  | a :: r, S k => a :: set_nth r k x
  end.

Definition regs := list (tag * list bool).            (* insertion-ordered dict: register -> bits *)

(* one iteration of the loop in to_register_bits *)
Definition write (rb : regs) (e : entry) : res regs :=
  let '(t, d) := e in
  match parse_tag t with
  | Some (name, idx) =>
      let cur := match dget tag_eqb rb name with Some l => l | None => repeat false (S idx) end in
      let cur' := if length cur <=? idx then cur ++ repeat false (idx - length cur + 1) else cur in
      bind (cast d) (fun b => Ok (dset tag_eqb rb name (set_nth cur' idx b)))
  | None =>
      match d with
      | DList vs => bind (mapM cast vs) (fun bs => Ok (dset tag_eqb rb t bs))
      | _ => bind (cast d) (fun b => Ok (dset tag_eqb rb t [b]))
      end
  end.
Definition to_register_bits (es : list entry) : res regs := foldM write es [].

(* collate_tags *)
Definition collate (es : list entry) : list (tag * list data) :=
  fold_left (fun d e => dset tag_eqb d (fst e)
                          (match dget tag_eqb d (fst e) with Some l => l | None => [] end ++ [snd e])) es [].
(* _flatten (recursion through nested lists, on explicit fuel = nesting depth bound) *)
Fixpoint flatten_fuel (fuel : nat) (l : list data) : list data :=
  match fuel with
  | O => l
  | S f => flat_map (fun d => match d with DList l' => flatten_fuel f l' | _ => [d] end) l
  end.
Fixpoint depth (d : data) : nat :=
  match d with DPrim _ => 0 | DList l => S (fold_right (fun x m => Nat.max (depth x) m) 0 l) end.
Definition flatten (l : list data) : list data := flatten_fuel (S (depth (DList l))) l.
Definition flat_bitstring (l : list data) : res (list bool) := mapM cast (flatten l).
Definition collated_shot (es : list entry) : res (list (tag * list bool)) :=
  mapM (fun td => bind (flat_bitstring (snd td)) (fun s => Ok (fst td, s))) (collate es).

(* QsysResult.register_bitstrings *)
Definition shot_dict := list (tag * list (list bool)).
Definition keys_eqb (a b : list tag) : bool := seteq_b tag_eqb a b.
Definition add_shot (strict_names strict_lengths : bool) (st : shot_dict * option (list tag)) (es : list entry)
  : res (shot_dict * option (list tag)) :=
  let '(sd, first) := st in
  bind (to_register_bits es) (fun bits =>
  let first' := match first with Some f => f | None => map fst bits end in
  bind (foldM (fun sd' rb =>
          let '(reg, s) := rb in
          match dget tag_eqb sd' reg with
          | Some ((s0 :: _) as l) =>
              if strict_lengths && negb (Nat.eqb (length s0) (length s)) then ValueError
              else Ok (dset tag_eqb sd' reg (l ++ [s]))
          | Some [] => Ok (dset tag_eqb sd' reg [s])
          | None => Ok (dset tag_eqb sd' reg [s])
          end) bits sd) (fun sd' =>
  if strict_names && negb (keys_eqb (map fst bits) first') then ValueError
  else Ok (sd', Some first'))).
Definition register_bitstrings (strict_names strict_lengths : bool) (shots : list (list entry)) : res shot_dict :=
  bind (foldM (add_shot strict_names strict_lengths) shots ([], None)) (fun st => Ok (fst st)).
