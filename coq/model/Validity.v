(* C01 — the HUGR validity rules as an executable predicate over a compact serial-level literal.

   Transcribed from hugr-core/src/hugr/validate.rs (validate_node / validate_port / validate_edge /
   validate_children / validate_children_dag, dominators) and hugr-core/src/ops/validate.rs (validity
   flags and children rules per container), together with the port layout of hugr-core/src/ops.rs
   (value ports, then the static port, then the "other" ports) and the loader of
   hugr-core/src/hugr/serialize.rs (a document is loaded by creating every node with the port counts
   of its operation and connecting the listed offsets; a missing offset means "the other port").

   The literal (vhugr) is what the harness extracts from a serialised HUGR document: per node the
   operation with the facts the rules read, the parent index, the edges with offsets.  Types are
   interned by the harness to N (structural equality of types = equality of ids; the interning follows
   Rust's normal forms: a sum whose rows are all empty is the unit sum of that size, extension sets are
   sets) and described by a side table; wherever Rust builds a type from rows (Type::new_sum,
   Type::new_function) the literal carries the id of that type and rule r_derived_types checks it against
   the table.  The interning itself is harness code in the trusted base.

   No proofs in this file. *)
From Coq Require Import NArith List Bool Arith.
Import ListNotations.
From HV Require Import lib.Harness.
Local Open Scope N_scope.

Definition tyid := N.
Definition row := list tyid.
Definition row_eqb : row -> row -> bool := list_eqb N.eqb.
Definition rows_eqb : list row -> list row -> bool := list_eqb row_eqb.

(* side table, indexed by type id *)
Inductive tyinfo :=
| TSum (copy : bool) (rows : list row)        (* copy is checked against the rows by r_table *)
| TFn (ins outs : row) (reqs : N)             (* function types are always copyable; reqs = interned set *)
| TAtom (copy : bool).                        (* qubit, usize, opaque, alias, variables (bound C/A) *)

(* constants; ty = the type the value has (declared for sums/extension values, derived for tuples and
   functions; r_const checks the derivation) *)
Inductive value :=
| VSum (ty : tyid) (tag : N) (vs : list value)
| VTuple (ty : tyid) (vs : list value)
| VExt (ty : tyid)
| VFun (ty : tyid) (sub : N).                 (* sub = index of the nested HUGR in v_subs *)

Inductive vop :=
| Module
| FuncDefn (fsig : N) (ins outs : row)        (* fsig = interned polymorphic signature; ins/outs = its body *)
| FuncDecl (fsig : N)
| AliasDecl
| AliasDefn
| Const (v : value)
| Input (tys : row)
| Output (tys : row)
| Call (fsig : N) (ins outs : row)            (* ins/outs = the instantiation *)
| CallIndirect (ins outs : row) (fnty : tyid) (* fnty = Type::new_function(signature) *)
| LoadConst (ty : tyid)
| LoadFunc (fsig : N) (ins outs : row) (fnty : tyid)   (* ins/outs = the instantiation *)
| DFG (ins outs : row)
| CFG (ins outs : row)
| Block (ins : row) (sum_rows : list row) (others : row) (sumty : tyid)
| ExitB (outs : row)
| Conditional (sum_rows : list row) (others outs : row) (sumty : tyid)
| Case (ins outs : row)
| TailLoop (just_in just_out rest : row) (ctlty : tyid)  (* ctlty = Sum [just_in; just_out] *)
| Tag (tag : N) (variants : list row) (sumty : tyid)
| ExtOp (ins outs : row).                     (* extension / opaque operation (leaf) *)

Record vnode := { n_op : vop; n_parent : N }.
(* offsets: None = "the other port" (hugr-rs leaves the offset of order edges out) *)
Record edge := { e_src : N; e_soff : option N; e_dst : N; e_doff : option N }.
Record graph := { g_nodes : list vnode; g_edges : list edge }.
Record vhugr := { v_tys : list tyinfo; v_main : graph; v_subs : list graph }.

(* ------------------------------------------------------------------ small helpers *)
Definition nthN {A} (l : list A) (i : N) : option A := nth_error l (N.to_nat i).
Definition lenN {A} (l : list A) : N := N.of_nat (length l).
Fixpoint index_from {A} (l : list A) (i : N) : list (N * A) :=
  match l with [] => [] | x :: r => (i, x) :: index_from r (i + 1) end.
Definition indexed {A} (l : list A) := index_from l 0.
Fixpoint countb {A} (f : A -> bool) (l : list A) : N :=
  match l with [] => 0 | x :: r => (if f x then 1 else 0) + countb f r end.
Definition memN (x : N) (l : list N) : bool := existsb (N.eqb x) l.
Definition optN_eqb := option_eqb N.eqb.

Definition op_of (g : graph) (i : N) : option vop := option_map n_op (nthN (g_nodes g) i).
Definition parent_of (g : graph) (i : N) : option N :=
  if i =? 0 then None else option_map n_parent (nthN (g_nodes g) i).
Definition children (g : graph) (p : N) : list N :=
  flat_map (fun x => if (negb (fst x =? 0)) && (n_parent (snd x) =? p) then [fst x] else []) (indexed (g_nodes g)).

(* ------------------------------------------------------------------ types *)
Definition ty_copy (tys : list tyinfo) (t : tyid) : bool :=
  match nthN tys t with
  | Some (TSum c _) => c
  | Some (TFn _ _ _) => true
  | Some (TAtom c) => c
  | None => false
  end.
Definition is_sum_of (tys : list tyinfo) (t : tyid) (rows : list row) : bool :=
  match nthN tys t with Some (TSum _ rs) => rows_eqb rs rows | _ => false end.
Definition is_fn_of (tys : list tyinfo) (t : tyid) (ins outs : row) : bool :=
  match nthN tys t with Some (TFn i o _) => row_eqb i ins && row_eqb o outs | _ => false end.

(* the table is consistent: ids in range, the copyable flag of a sum is the meet of its members' *)
Definition r_table (tys : list tyinfo) : bool :=
  let n := lenN tys in
  forallb (fun ti => match ti with
                     | TSum c rows => forallb (forallb (fun t => t <? n)) rows &&
                                      Bool.eqb c (forallb (forallb (ty_copy tys)) rows)
                     | TFn i o _ => forallb (fun t => t <? n) i && forallb (fun t => t <? n) o
                     | TAtom _ => true
                     end) tys.

(* ------------------------------------------------------------------ operations: signatures and ports *)
(* dataflow signature (OpTrait::dataflow_signature) *)
Definition df_sig (o : vop) : option (row * row) :=
  match o with
  | Input tys => Some ([], tys)
  | Output tys => Some (tys, [])
  | Call _ i o => Some (i, o)
  | CallIndirect i o f => Some (f :: i, o)
  | LoadConst t => Some ([], [t])
  | LoadFunc _ _ _ f => Some ([], [f])
  | DFG i o => Some (i, o)
  | CFG i o => Some (i, o)
  | Conditional _ others outs s => Some (s :: others, outs)
  | TailLoop ji jo rest _ => Some (ji ++ rest, jo ++ rest)
  | Tag t vs s => Some (match nthN vs t with Some r => r | None => [] end, [s])
  | ExtOp i o => Some (i, o)
  | _ => None
  end.
(* DataflowParent::inner_signature *)
Definition inner_sig (o : vop) : option (row * row) :=
  match o with
  | DFG i o => Some (i, o)
  | FuncDefn _ i o => Some (i, o)
  | Case i o => Some (i, o)
  | TailLoop ji jo rest c => Some (ji ++ rest, c :: rest)
  | Block i _ others s => Some (i, s :: others)
  | _ => None
  end.

Inductive pkind := KValue (t : tyid) | KConst (t : tyid) | KFunc (sig : N) | KOrder | KCF.
Definition pkind_eqb (a b : pkind) : bool :=
  match a, b with
  | KValue x, KValue y => x =? y
  | KConst x, KConst y => x =? y
  | KFunc x, KFunc y => x =? y
  | KOrder, KOrder => true
  | KCF, KCF => true
  | _, _ => false
  end.
Definition value_ty (v : value) : tyid :=
  match v with VSum t _ _ => t | VTuple t _ => t | VExt t => t | VFun t _ => t end.

Definition static_in (o : vop) : option pkind :=
  match o with
  | Call f _ _ => Some (KFunc f)
  | LoadFunc f _ _ _ => Some (KFunc f)
  | LoadConst t => Some (KConst t)
  | _ => None
  end.
Definition static_out (o : vop) : option pkind :=
  match o with
  | FuncDefn f _ _ => Some (KFunc f)
  | FuncDecl f => Some (KFunc f)
  | Const v => Some (KConst (value_ty v))
  | _ => None
  end.
(* other ports: kind and count (OpTrait::other_input/other_output/non_df_port_count) *)
Definition other_in (o : vop) : option pkind * N :=
  match o with
  | Block _ _ _ _ => (Some KCF, 1)
  | ExitB _ => (Some KCF, 1)
  | Input _ => (None, 0)
  | _ => match df_sig o with Some _ => (Some KOrder, 1) | None => (None, 0) end
  end.
Definition other_out (o : vop) : option pkind * N :=
  match o with
  | Block _ rows _ _ => (Some KCF, lenN rows)
  | ExitB _ => (Some KCF, 0)
  | Output _ => (None, 0)
  | _ => match df_sig o with Some _ => (Some KOrder, 1) | None => (None, 0) end
  end.

Definition val_in (o : vop) : row := match df_sig o with Some (i, _) => i | None => [] end.
Definition val_out (o : vop) : row := match df_sig o with Some (_, o) => o | None => [] end.
Definition b2N (b : bool) : N := if b then 1 else 0.
Definition is_some {A} (x : option A) : bool := match x with Some _ => true | None => false end.

(* number of value + static ports: the order/control-flow ports start here *)
Definition base_in (o : vop) : N := lenN (val_in o) + b2N (is_some (static_in o)).
Definition base_out (o : vop) : N := lenN (val_out o) + b2N (is_some (static_out o)).
Definition count_in (o : vop) : N := base_in o + snd (other_in o).
Definition count_out (o : vop) : N := base_out o + snd (other_out o).

Definition kind_in (o : vop) (off : N) : option pkind :=
  let vs := val_in o in
  if off <? lenN vs then option_map KValue (nthN vs off)
  else if is_some (static_in o) && (off =? lenN vs) then static_in o
  else if off <? count_in o then fst (other_in o) else None.
Definition kind_out (o : vop) (off : N) : option pkind :=
  let vs := val_out o in
  if off <? lenN vs then option_map KValue (nthN vs off)
  else if is_some (static_out o) && (off =? lenN vs) then static_out o
  else if off <? count_out o then fst (other_out o) else None.

(* OpType::other_port: where an edge without offset attaches *)
Definition other_port_in (o : vop) : option N :=
  match other_in o with (Some _, n) => if 1 <=? n then Some (base_in o) else None | _ => None end.
Definition other_port_out (o : vop) : option N :=
  match other_out o with (Some _, n) => if 1 <=? n then Some (lenN (val_out o)) else None | _ => None end.

(* ------------------------------------------------------------------ resolved edges *)
Record redge := { r_src : N; r_so : N; r_dst : N; r_do : N; r_kind : pkind (* kind at the source *) }.

Definition resolve (g : graph) (e : edge) : option redge :=
  match op_of g (e_src e), op_of g (e_dst e) with
  | Some so, Some do_ =>
      match (match e_soff e with Some x => Some x | None => other_port_out so end),
            (match e_doff e with Some x => Some x | None => other_port_in do_ end) with
      | Some a, Some b =>
          match kind_out so a with
          | Some k => Some {| r_src := e_src e; r_so := a; r_dst := e_dst e; r_do := b; r_kind := k |}
          | None => None
          end
      | _, _ => None
      end
  | _, _ => None
  end.
Definition redges (g : graph) : list redge :=
  flat_map (fun e => match resolve g e with Some r => [r] | None => [] end) (g_edges g).

(* ------------------------------------------------------------------ rule 1: index sanity *)
(* node 0 is the root (its own parent); every other parent is an earlier node; edge endpoints exist *)
Definition r_index (g : graph) : bool :=
  match g_nodes g with
  | [] => false
  | r :: _ => (n_parent r =? 0) &&
      forallb (fun x => (fst x =? 0) || (n_parent (snd x) <? fst x)) (indexed (g_nodes g)) &&
      forallb (fun e => (e_src e <? lenN (g_nodes g)) && (e_dst e <? lenN (g_nodes g))) (g_edges g)
  end.

(* ------------------------------------------------------------------ rule 2: permitted parent/child pairs *)
Definition dataflow_child (o : vop) : bool :=
  match o with
  | Input _ | Output _ | DFG _ _ | CFG _ _ | Call _ _ _ | CallIndirect _ _ _ | LoadConst _
  | LoadFunc _ _ _ _ | Conditional _ _ _ _ | TailLoop _ _ _ _ | Tag _ _ _ | ExtOp _ _
  | Const _ | FuncDefn _ _ _ | AliasDecl | AliasDefn => true
  | _ => false
  end.
Definition scoped_defn (o : vop) : bool :=
  match o with Const _ | FuncDefn _ _ _ | AliasDecl | AliasDefn => true | _ => false end.
Definition allowed_child (p c : vop) : bool :=
  match p with
  | Module => scoped_defn c || match c with FuncDecl _ => true | _ => false end
  | DFG _ _ | FuncDefn _ _ _ | Case _ _ | TailLoop _ _ _ _ | Block _ _ _ _ => dataflow_child c
  | CFG _ _ => scoped_defn c || match c with Block _ _ _ _ | ExitB _ => true | _ => false end
  | Conditional _ _ _ _ => match c with Case _ _ => true | _ => false end
  | _ => false
  end.
Definition r_child_tags (g : graph) : bool :=
  forallb (fun x => (fst x =? 0) ||
                    match op_of g (n_parent (snd x)) with
                    | Some p => allowed_child p (n_op (snd x))
                    | None => false
                    end) (indexed (g_nodes g)).

(* ------------------------------------------------------------------ rule 3: first / second child *)
Definition is_input o := match o with Input _ => true | _ => false end.
Definition is_output o := match o with Output _ => true | _ => false end.
Definition is_block o := match o with Block _ _ _ _ => true | _ => false end.
Definition is_exit o := match o with ExitB _ => true | _ => false end.
Definition is_dfparent (o : vop) : bool := is_some (inner_sig o).
Definition is_cfg o := match o with CFG _ _ => true | _ => false end.
Definition is_cond o := match o with Conditional _ _ _ _ => true | _ => false end.
Definition is_funcdefn o := match o with FuncDefn _ _ _ => true | _ => false end.

Definition child_ops (g : graph) (p : N) : list vop :=
  flat_map (fun x => if negb (fst x =? 0) && (n_parent (snd x) =? p) then [n_op (snd x)] else []) (indexed (g_nodes g)).

(* the check for one node with operation o whose children have operations cs (in order) *)
Definition fs_check (o : vop) (cs : list vop) : bool :=
  if is_dfparent o then
    match cs with
    | a :: b :: rest => is_input a && is_output b &&
                        forallb (fun c => negb (is_input c) && negb (is_output c)) rest
    | _ => false
    end
  else if is_cfg o then
    match cs with
    | a :: b :: rest => is_block a && is_exit b && forallb (fun c => negb (is_exit c)) rest
    | _ => false
    end
  else if is_cond o then negb (match cs with [] => true | _ => false end)
  else true.
Definition r_first_second (g : graph) : bool :=
  forallb (fun x => fs_check (n_op (snd x)) (child_ops g (fst x))) (indexed (g_nodes g)).

(* ------------------------------------------------------------------ rule 4: I/O rows = container's signature *)
Definition r_io_rows (g : graph) : bool :=
  forallb (fun x =>
    let o := n_op (snd x) in
    let cs := child_ops g (fst x) in
    match inner_sig o with
    | Some (i, oo) =>
        match cs with
        | Input a :: Output b :: _ => row_eqb a i && row_eqb b oo
        | _ => false
        end
    | None =>
        match o with
        | CFG i oo =>
            match cs with
            | Block bi _ _ _ :: ExitB eo :: _ => row_eqb bi i && row_eqb eo oo
            | _ => false
            end
        | Conditional rows others outs _ =>
            (lenN cs =? lenN rows) &&
            forallb (fun rc => match snd rc with
                               | Case ci co => row_eqb ci (fst rc ++ others) && row_eqb co outs
                               | _ => false
                               end) (combine rows cs)
        | _ => true
        end
    end) (indexed (g_nodes g)).

(* ------------------------------------------------------------------ rule 5: derived types agree with the table *)
Definition r_derived_types (tys : list tyinfo) (g : graph) : bool :=
  forallb (fun n =>
    match n_op n with
    | CallIndirect i o f => is_fn_of tys f i o
    | LoadFunc _ i o f => is_fn_of tys f i o
    | Block _ rows _ s => is_sum_of tys s rows
    | Conditional rows _ _ s => is_sum_of tys s rows
    | TailLoop ji jo _ c => is_sum_of tys c [ji; jo]
    | Tag t vs s => is_sum_of tys s vs && (t <? lenN vs)
    | _ => true
    end) (g_nodes g).

(* ------------------------------------------------------------------ rule 6: port counts = signature *)
(* the loader gives every node exactly the ports of its operation, so the rule reads: every edge attaches
   to a port its operation has; the root has no edges *)
Definition r_port_counts (g : graph) : bool :=
  forallb (fun e =>
    match op_of g (e_src e), op_of g (e_dst e) with
    | Some so, Some do_ =>
        match (match e_soff e with Some x => Some x | None => other_port_out so end),
              (match e_doff e with Some x => Some x | None => other_port_in do_ end) with
        | Some a, Some b => (a <? count_out so) && (b <? count_in do_)
        | _, _ => false
        end
    | _, _ => false
    end) (g_edges g).
Definition r_root_no_edges (g : graph) : bool :=
  forallb (fun e => negb (e_src e =? 0) && negb (e_dst e =? 0)) (g_edges g).

(* ------------------------------------------------------------------ rule 7: same kind and type at both ends *)
Definition r_edge_kinds (g : graph) : bool :=
  forallb (fun e =>
    match resolve g e with
    | Some r => match op_of g (r_dst r) with
                | Some do_ => match kind_in do_ (r_do r) with
                              | Some k => pkind_eqb (r_kind r) k
                              | None => false
                              end
                | None => false
                end
    | None => false
    end) (g_edges g).

(* ------------------------------------------------------------------ rules 8, 9: connectedness and linearity *)
Definition links_into (es : list redge) (n off : N) : N :=
  countb (fun r => (r_dst r =? n) && (r_do r =? off)) es.
Definition links_from (es : list redge) (n off : N) : N :=
  countb (fun r => (r_src r =? n) && (r_so r =? off)) es.
Fixpoint upto (n : nat) : list N :=
  match n with O => [] | S k => upto k ++ [N.of_nat k] end.

(* every value / static input port (of a non-root node) has exactly one link *)
Definition r_inputs_once (g : graph) : bool :=
  let es := redges g in
  forallb (fun x => (fst x =? 0) ||
     forallb (fun off => links_into es (fst x) off =? 1) (upto (N.to_nat (base_in (n_op (snd x))))))
    (indexed (g_nodes g)).
(* non-copyable value outputs and control-flow successors are used exactly once *)
Definition r_linear_once (tys : list tyinfo) (g : graph) : bool :=
  let es := redges g in
  forallb (fun x => (fst x =? 0) ||
     let o := n_op (snd x) in
     forallb (fun ot => ty_copy tys (snd ot) || (links_from es (fst x) (fst ot) =? 1)) (indexed (val_out o)) &&
     match o with
     | Block _ rows _ _ => forallb (fun off => links_from es (fst x) off =? 1) (upto (length rows))
     | _ => true
     end) (indexed (g_nodes g)).

(* ------------------------------------------------------------------ rule 10: dataflow regions are acyclic *)
(* Kahn's algorithm on fuel: in each round the siblings without a predecessor among the remaining ones
   are removed; a DAG on k nodes is emptied in at most k rounds *)
Fixpoint kahn (fuel : nat) (es : list (N * N)) (alive : list N) : list N :=
  match fuel with
  | O => alive
  | S f =>
      match alive with
      | [] => []
      | _ => kahn f es (filter (fun c => existsb (fun e => (snd e =? c) && memN (fst e) alive) es) alive)
      end
  end.
Definition region_acyclic (g : graph) (es : list redge) (p : N) : bool :=
  let cs := children g p in
  let inner := flat_map (fun r => if memN (r_src r) cs && memN (r_dst r) cs then [(r_src r, r_dst r)] else []) es in
  match kahn (length cs) inner cs with [] => true | _ => false end.
Definition r_acyclic (g : graph) : bool :=
  let es := redges g in
  forallb (fun x => negb (is_dfparent (n_op (snd x))) || region_acyclic g es (fst x)) (indexed (g_nodes g)).

(* ------------------------------------------------------------------ dominators of a CFG region (fuel) *)
Definition is_cf k := match k with KCF => true | _ => false end.
Definition cf_succs (es : list redge) (b : N) : list N :=
  flat_map (fun r => if (r_src r =? b) && is_cf (r_kind r) then [r_dst r] else []) es.
(* blocks reachable from the frontier without passing through `avoid` *)
Fixpoint reach (fuel : nat) (es : list redge) (avoid : option N) (seen frontier : list N) : list N :=
  match fuel with
  | O => seen
  | S f =>
      match frontier with
      | [] => seen
      | _ =>
        let next := flat_map (fun b => cf_succs es b) frontier in
        let fresh := fold_left (fun acc t => if memN t acc || memN t seen || optN_eqb (Some t) avoid then acc else t :: acc)
                               next [] in
        reach f es avoid (fresh ++ seen) fresh
      end
  end.
(* a dominates b (petgraph simple_fast from the entry = first child): b is reachable from the entry, and
   not without passing through a *)
Definition dominates (g : graph) (es : list redge) (cfg a b : N) : bool :=
  match children g cfg with
  | [] => false
  | entry :: _ =>
      let fuel := S (length (children g cfg)) in
      memN b (reach fuel es None [entry] [entry]) &&
      ((a =? b) || (a =? entry) || negb (memN b (reach fuel es (Some a) [entry] [entry])))
  end.

(* ------------------------------------------------------------------ rules 11-16: non-local edges *)
Inductive ecode := ELocal | EOk | ENonCopyable | ENoRelation | EIntoFunc | EMissingOrder | ENonCFG | ENotDominated.
Definition ecode_eqb (a b : ecode) : bool :=
  match a, b with
  | ELocal, ELocal | EOk, EOk | ENonCopyable, ENonCopyable | ENoRelation, ENoRelation
  | EIntoFunc, EIntoFunc | EMissingOrder, EMissingOrder | ENonCFG, ENonCFG | ENotDominated, ENotDominated => true
  | _, _ => false
  end.
Definition is_static k := match k with KConst _ | KFunc _ => true | _ => false end.
Definition has_order_edge (es : list redge) (a b : N) : bool :=
  existsb (fun r => (r_src r =? a) && (r_dst r =? b) && match r_kind r with KOrder => true | _ => false end) es.

(* walk up from the target's parent; fuel = number of nodes *)
Fixpoint walk (fuel : nat) (g : graph) (es : list redge) (static : bool) (src fp : N) (fpp : option N)
              (anc : N) (entered : bool) : ecode :=
  match fuel with
  | O => ENoRelation
  | S f =>
      match parent_of g anc with
      | None => ENoRelation
      | Some ap =>
          let entered := entered || (negb static && match op_of g anc with Some o => is_funcdefn o | None => false end) in
          if ap =? fp then
            if entered then EIntoFunc
            else if negb static && negb (has_order_edge es src anc) then EMissingOrder else EOk
          else if optN_eqb (Some ap) fpp && negb static then
            if negb (match op_of g ap with Some o => is_cfg o | None => false end) then ENonCFG
            else if entered then EIntoFunc
            else if dominates g es ap fp anc then EOk else ENotDominated
          else walk f g es static src fp fpp ap entered
      end
  end.
Definition classify (tys : list tyinfo) (g : graph) (es : list redge) (r : redge) : ecode :=
  match parent_of g (r_src r), parent_of g (r_dst r) with
  | Some fp, Some tp =>
      if fp =? tp then ELocal
      else
        let static := is_static (r_kind r) in
        if negb static && negb (match r_kind r with KValue t => ty_copy tys t | _ => false end) then ENonCopyable
        else walk (length (g_nodes g)) g es static (r_src r) fp (parent_of g fp) tp false
  | _, _ => ENoRelation
  end.
Definition no_code (tys : list tyinfo) (g : graph) (c : ecode) : bool :=
  let es := redges g in forallb (fun r => negb (ecode_eqb (classify tys g es r) c)) es.
Definition r_nonlocal_copyable tys g := no_code tys g ENonCopyable.
Definition r_nonlocal_relation tys g := no_code tys g ENoRelation && no_code tys g ENonCFG.
Definition r_no_edge_into_func tys g := no_code tys g EIntoFunc.
Definition r_ext_order_edge tys g := no_code tys g EMissingOrder.
Definition r_dominance tys g := no_code tys g ENotDominated.

(* ------------------------------------------------------------------ rule 17: control-flow edges carry the successor's row *)
Definition r_cfg_edges (g : graph) : bool :=
  forallb (fun r =>
    negb (is_cf (r_kind r)) ||
    match op_of g (r_src r), op_of g (r_dst r) with
    | Some (Block _ rows others _), Some d =>
        match nthN rows (r_so r), (match d with Block i _ _ _ => Some i | ExitB o => Some o | _ => None end) with
        | Some rw, Some tgt => row_eqb (rw ++ others) tgt &&
                               optN_eqb (parent_of g (r_src r)) (parent_of g (r_dst r))
        | _, _ => false
        end
    | _, _ => false
    end) (redges g).

(* ------------------------------------------------------------------ rule 18: constants inhabit their type *)
Fixpoint value_ok (tys : list tyinfo) (subs : list graph) (v : value) : bool :=
  match v with
  | VSum t tag vs =>
      match nthN tys t with
      | Some (TSum _ rows) => match nthN rows tag with
                              | Some rw => row_eqb (map value_ty vs) rw
                              | None => false
                              end
      | _ => false
      end && forallb (value_ok tys subs) vs
  | VTuple t vs => is_sum_of tys t [map value_ty vs] && forallb (value_ok tys subs) vs
  | VExt t => t <? lenN tys
  | VFun t k =>
      match nthN subs k with
      | Some sg => match g_nodes sg with
                   | {| n_op := DFG i o |} :: _ => is_fn_of tys t i o
                   | {| n_op := FuncDefn _ i o |} :: _ => is_fn_of tys t i o
                   | _ => false
                   end
      | None => false
      end
  end.
Definition r_const (tys : list tyinfo) (subs : list graph) (g : graph) : bool :=
  forallb (fun n => match n_op n with Const v => value_ok tys subs v | _ => true end) (g_nodes g).

(* ------------------------------------------------------------------ all rules *)
Definition rules (tys : list tyinfo) (subs : list graph) (g : graph) : list bool :=
  [ r_index g;                    (*  0 *)
    r_child_tags g;               (*  1 *)
    r_first_second g;             (*  2 *)
    r_io_rows g;                  (*  3 *)
    r_derived_types tys g;        (*  4 *)
    r_port_counts g;              (*  5 *)
    r_root_no_edges g;            (*  6 *)
    r_edge_kinds g;               (*  7 *)
    r_inputs_once g;              (*  8 *)
    r_linear_once tys g;          (*  9 *)
    r_acyclic g;                  (* 10 *)
    r_nonlocal_copyable tys g;    (* 11 *)
    r_nonlocal_relation tys g;    (* 12 *)
    r_no_edge_into_func tys g;    (* 13 *)
    r_ext_order_edge tys g;       (* 14 *)
    r_dominance tys g;            (* 15 *)
    r_cfg_edges g;                (* 16 *)
    r_const tys subs g ].         (* 17 *)

Definition valid_graph (tys : list tyinfo) (subs : list graph) (g : graph) : bool :=
  forallb (fun b : bool => b) (rules tys subs g).

Definition valid (h : vhugr) : bool :=
  r_table (v_tys h) && valid_graph (v_tys h) (v_subs h) (v_main h) &&
  forallb (valid_graph (v_tys h) (v_subs h)) (v_subs h).

(* indices of the rules that fail on the main graph (18 = the table, 19 = a nested function constant) *)
Definition failing_rules (h : vhugr) : list N :=
  flat_map (fun x : N * bool => if snd x then [] else [fst x])
    (indexed (rules (v_tys h) (v_subs h) (v_main h) ++
              [r_table (v_tys h); forallb (valid_graph (v_tys h) (v_subs h)) (v_subs h)])).
