(* C17 — sequences of schema-defining rebuilds in ONE process.  No proofs here.

   Sources mirrored:
   - hugr/_serialization/tys.py `model_rebuild(classes, config)`: for every ConfiguredBaseModel of the class map
     `update_model_config(config)` (dict.update of the class's own model_config) and `model_rebuild(force)`.
   - SerialHugr._pydantic_rebuild / TestingHugr._pydantic_rebuild: class map = dict(ops_classes) (all classes of
     ops.py and tys.py) + the root itself.  The other root and the classes of extension.py are NOT in the map.
   - scripts/generate_schema.py `write_schema`: rebuild the root with the configuration, then
     models_json_schema([root, Extension, Package]); pydantic reads `additionalProperties` of a definition from
     the configuration its class carries when the schema is generated.
   A published file therefore holds, for every class, the definition under the configuration the class carried:
   the rebuild's own for the classes of its class map, and for the root of the OTHER family (the testing files
   hold SerialHugr, reached from Package.modules) whatever that root's own rebuilds last gave it. *)
From Coq Require Import List Bool String Arith.
Import ListNotations.
From HV Require Import lib.Harness model.Schema.
Open Scope string_scope.

Inductive family := FHugr | FTesting.
Definition family_eqb (a b : family) : bool :=
  match a, b with FHugr, FHugr => true | FTesting, FTesting => true | _, _ => false end.
Definition families : list family := [FHugr; FTesting].
Definition root_name (f : family) : string := match f with FHugr => "SerialHugr" | FTesting => "TestingHugr" end.

(* one schema-defining rebuild  Root._pydantic_rebuild(config, force=True);  true = generate_schema.py's strict
   configuration (strict=True, extra="forbid"), false = its lax one (strict=False, extra="allow") *)
Definition step := (family * bool)%type.

(* classes that always receive a configuration together *)
Inductive group := GOps | GRoot (f : family) | GExt.
Definition cfg := option bool.                       (* None: the import-time configuration *)
Definition state := group -> cfg.
Definition init : state := fun _ => None.
Definition in_class_map (f : family) (g : group) : bool :=
  match g with GOps => true | GRoot f' => family_eqb f f' | GExt => false end.
Definition rebuild (st : state) (s : step) : state :=
  fun g => if in_class_map (fst s) g then Some (snd s) else st g.
Definition run_steps (st : state) (h : list step) : state := fold_left rebuild h st.

(* ---- the file a (root, configuration) rebuild defines in a given state, assembled from the published files *)
Definition set_key (k : string) (v : json) (o : obj) : obj :=
  map (fun kv => if fst kv =? k then (k, v) else kv) o.
Definition def_of (root : json) (n : string) : option json := lookup n (defs_of root).
Definition set_def (n : string) (v : json) (root : json) : json :=
  match root with
  | JObj kvs => match lookup "$defs" kvs with
                | Some (JObj ds) => JObj (set_key "$defs" (JObj (set_key n v ds)) kvs)
                | _ => root
                end
  | _ => root
  end.
(* definitions of OTHER families' roots held by the file of (f, c): taken from that family's own file under the
   configuration its root last received (nothing to replace while it is still in its import-time state) *)
Definition subst_of (pub : family -> bool -> json) (st : state) (f : family) (c : bool) : list (string * json) :=
  flat_map (fun f' =>
    if family_eqb f f' then [] else
    match st (GRoot f') with
    | None => []
    | Some c' => match def_of (pub f c) (root_name f'), def_of (pub f' c') (root_name f') with
                 | Some _, Some d => [(root_name f', d)]
                 | _, _ => []
                 end
    end) families.
Definition expected (pub : family -> bool -> json) (st : state) (f : family) (c : bool) : json :=
  fold_left (fun r nd => set_def (fst nd) (snd nd) r) (subst_of pub st f c) (pub f c).

(* one process: the schema written after every step equals (norm + schema_equiv) the expected one *)
Fixpoint run_ok (pub : family -> bool -> json) (st : state) (r : list (step * json)) : bool :=
  match r with
  | [] => true
  | (s, g) :: r' =>
      let st' := rebuild st s in
      schema_equiv (norm (expected pub st' (fst s) (snd s))) (norm g) && run_ok pub st' r'
  end.

(* coverage of a set of runs: every ordered pair of (root, configuration) occurs as two consecutive steps *)
Definition step_eqb (a b : step) : bool := family_eqb (fst a) (fst b) && Bool.eqb (snd a) (snd b).
Definition all_steps : list step := [(FTesting, true); (FTesting, false); (FHugr, true); (FHugr, false)].
Fixpoint has_transition (a b : step) (h : list step) : bool :=
  match h with
  | x :: ((y :: _) as r) => (step_eqb a x && step_eqb b y) || has_transition a b r
  | _ => false
  end.
Definition transitions_covered (hs : list (list step)) : bool :=
  forallb (fun a => forallb (fun b => existsb (has_transition a b) hs) all_steps) all_steps.
Definition singles_covered (hs : list (list step)) : bool :=
  forallb (fun a => existsb (fun h => match h with [x] => step_eqb a x | _ => false end) hs) all_steps.
