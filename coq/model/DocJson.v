(* C03 — the JSON text of the documents: rendering of the serial document of model/SerialHugr.v as a JSON
   tree of model/Schema.v, i.e. what `SerialHugr.model_dump_json()` writes for the value `Hugr._to_serial()`
   built (hugr-py/src/hugr/_serialization/serial_hugr.py: fields version, nodes, edges, metadata, encoder;
   ops.BaseOp: every operation object carries `parent`; Edge = ((node, offset|null), (node, offset|null))),
   and of a package (hugr/package.py Package._to_serial: modules, extensions).
   Operations and metadata dicts are abstract: `op_fields o` are the members of the encoded operation object
   without `parent`, `md_fields m` the members of a metadata dict.
   Also: the hand-written shapes of the schema definitions SerialHugr and Package the theorems of
   proofs/DocJsonP.v are proved against, and the boolean comparison of a schema file's definition with a shape
   (evaluated on the regenerated constants in proofs/DocJsonSchemasP.v).  No proofs in this file. *)
From Coq Require Import List Bool ZArith String Arith.
Import ListNotations.
From HV Require Import lib.Harness model.Schema model.SchemaStrip model.SerialHugr.
Open Scope string_scope.

Section DocJson.
  Variables sop md : Type.
  Variable op_fields : sop -> obj.
  Variable md_fields : md -> obj.
  Variable encoder : option string.       (* to_json() sets "hugr-py v<version>"; package modules have null *)

  Definition nat_json (n : nat) : json := JNum (Z.of_nat n).
  Definition port_json (p : sport) : json :=
    JArr [nat_json (fst p); match snd p with Some k => nat_json k | None => JNull end].
  Definition edge_json (e : sedge) : json := JArr [port_json (fst e); port_json (snd e)].
  (* the operation object: `parent` is the first field of every serial operation class *)
  Definition node_obj (o : sop) (parent : nat) : json := JObj (("parent", nat_json parent) :: op_fields o).
  Definition node_json (n : snode sop) : json := node_obj (s_op n) (s_parent n).
  Definition md_json (m : option md) : json := match m with Some x => JObj (md_fields x) | None => JNull end.
  Definition meta_json (m : option (list (option md))) : json :=
    match m with Some l => JArr (map md_json l) | None => JNull end.
  Definition str_opt_json (s : option string) : json := match s with Some x => JStr x | None => JNull end.

  Definition doc_json (s : serial sop md) : json :=
    JObj [("version", JStr "live");
          ("nodes", JArr (map node_json (s_nodes s)));
          ("edges", JArr (map edge_json (s_edges s)));
          ("metadata", meta_json (s_meta s));
          ("encoder", str_opt_json encoder)].
End DocJson.
Arguments node_obj {sop}. Arguments node_json {sop}. Arguments doc_json {sop md}.
Arguments md_json {md}. Arguments meta_json {md}.

(* Package._to_serial().model_dump_json(): the modules' documents (encoder unset) and the extension documents *)
Definition pkg_json {sop md} (op_fields : sop -> obj) (md_fields : md -> obj)
    (mods : list (serial sop md)) (exts : list json) : json :=
  JObj [("modules", JArr (map (doc_json op_fields md_fields None) mods)); ("extensions", JArr exts)].

(* ------------------------------------------------------------------ expected shapes of the definitions *)
(* written WITHOUT annotations (title, description, default): the comparison with the published file erases them
   (model/SchemaStrip.v), so an edit of a documentation string in the file does not concern these shapes *)
Definition sch_type (t : string) : json := JObj [("type", JStr t)].
Definition sch_int : json := sch_type "integer".
Definition sch_optint : json := JObj [("anyOf", JArr [sch_int; sch_type "null"])].
Definition sch_port : json :=
  JObj [("maxItems", JNum 2); ("minItems", JNum 2); ("prefixItems", JArr [sch_int; sch_optint]); ("type", JStr "array")].
Definition sch_edge : json :=
  JObj [("maxItems", JNum 2); ("minItems", JNum 2); ("prefixItems", JArr [sch_port; sch_port]); ("type", JStr "array")].
Definition sch_array (items : json) : json := JObj [("items", items); ("type", JStr "array")].
Definition sch_version : json := sch_type "string".
Definition sch_nodes : json := sch_array (entry "OpType").
Definition sch_edges : json := sch_array sch_edge.
Definition sch_mditem : json := JObj [("anyOf", JArr [sch_type "object"; sch_type "null"])].
Definition sch_meta : json := JObj [("anyOf", JArr [sch_array sch_mditem; sch_type "null"])].
Definition sch_encoder : json := JObj [("anyOf", JArr [sch_type "string"; sch_type "null"])].
Definition shape_SerialHugr_members : obj :=
  [("additionalProperties", JBool false);
   ("properties", JObj [("version", sch_version); ("nodes", sch_nodes); ("edges", sch_edges);
                        ("metadata", sch_meta); ("encoder", sch_encoder)]);
   ("required", JArr [JStr "version"; JStr "nodes"; JStr "edges"]);
   ("type", JStr "object")].
Definition shape_SerialHugr : json := JObj shape_SerialHugr_members.

Definition sch_modules : json := sch_array (entry "SerialHugr").
Definition sch_extensions : json := sch_array (entry "Extension").
Definition shape_Package_members : obj :=
  [("properties", JObj [("modules", sch_modules); ("extensions", sch_extensions)]);
   ("required", JArr [JStr "modules"]); ("type", JStr "object")].
Definition shape_Package : json := JObj shape_Package_members.

(* what is compared: "additionalProperties": true and annotations erased *)
Definition canon (s : json) : json := strip (norm s).
(* definition `name` of the schema file `root` is the shape, up to canon and schema_equiv (key order, order of
   `required`, "additionalProperties": true, annotations) *)
Definition def_matches (root : json) (name : string) (shape : json) : bool :=
  match resolve root (ref_prefix ++ name) with
  | Some s => schema_equiv (canon s) (canon shape)
  | None => false
  end.
(* schema_equiv is reflexive on the file (it is on every file without duplicate keys and unknown keywords;
   evaluated rather than proved) *)
Definition self_equiv (root : json) : bool := schema_equiv (canon root) (canon root).
