(* Model of Hugr._to_serial / Hugr._constrain_offset / Hugr._from_serial (hugr-py/src/hugr/hugr/base.py)
   over the API-level HUGR the public queries show: node table with holes, per node the operation,
   parent, ordered children, metadata and recorded port counts; links in `links()` order with offset
   -1 (AOrder) for the order port.
   Operations and metadata are abstract (Section variables): `enc` is <Op>._to_serial without the
   parent field, `dec` is the serial class's deserialize, `ndp` is ops._num_dataflow_ports.
   KeyError / failed assertions are the value None.  No proofs in this file. *)
From Coq Require Import List Bool Arith.
Import ListNotations.

Inductive dir := DIn | DOut.
Inductive aoff := AOrder | APort (k : nat).          (* API port offset: -1 | k *)
Definition port := (nat * aoff)%type.                (* node index, offset *)
Definition link := (port * port)%type.               (* (out port, in port) *)
Definition sport := (nat * option nat)%type.         (* wire: node position, offset | null *)
Definition sedge := (sport * sport)%type.

Fixpoint mapM {A B} (f : A -> option B) (l : list A) : option (list B) :=
  match l with
  | [] => Some []
  | x :: r => match f x with
              | None => None
              | Some y => match mapM f r with None => None | Some ys => Some (y :: ys) end
              end
  end.
Fixpoint index_of (x : nat) (l : list nat) : option nat :=
  match l with
  | [] => None
  | y :: r => if x =? y then Some 0 else option_map S (index_of x r)
  end.
Fixpoint set_nth {A} (l : list A) (i : nat) (x : A) : list A :=
  match l, i with
  | [], _ => []
  | _ :: r, 0 => x :: r
  | y :: r, S j => y :: set_nth r j x
  end.

Section Serial.
  Variables op sop md : Type.
  Variable enc : op -> sop.
  Variable dec : sop -> op.
  Variable ndp : op -> dir -> option nat.
  Variable md_nil : md.                     (* the empty dict *)
  Variable md_is_nil : md -> bool.          (* `not node.metadata` *)

  Record node := { n_op : op; n_parent : option nat; n_children : list nat; n_md : md;
                   n_nin : nat; n_nout : nat }.
  Record hugr := { h_nodes : list (option node); h_root : nat; h_links : list link }.

  Record snode := { s_op : sop; s_parent : nat }.
  Record serial := { s_nodes : list snode; s_edges : list sedge; s_meta : option (list (option md)) }.

  Definition get_node (h : hugr) (i : nat) : option node :=
    match nth_error (h_nodes h) i with Some (Some n) => Some n | _ => None end.

  (* ---- Hugr._to_serial ---- *)
  (* `for node in self`: live indices in increasing order *)
  Fixpoint live_from (l : list (option node)) (i : nat) : list nat :=
    match l with
    | [] => []
    | Some _ :: r => i :: live_from r (S i)
    | None :: r => live_from r (S i)
    end.
  Definition live (h : hugr) : list nat := live_from (h_nodes h) 0.
  (* rekey = {node.idx: pos for pos, node in enumerate(self)}; a missing key is a KeyError *)
  Definition rekey (h : hugr) (i : nat) : option nat := index_of i (live h).

  Definition num_ports (n : node) (d : dir) : nat := match d with DIn => n_nin n | DOut => n_nout n end.
  (* _constrain_offset: the order port comes after all value and static ports of the operation
     (falling back to the recorded count when the operation has no dataflow port count) *)
  Definition constrain (h : hugr) (p : port) (d : dir) : option nat :=
    match snd p with
    | APort k => Some k
    | AOrder => match get_node h (fst p) with
                | None => None
                | Some n => Some (match ndp (n_op n) d with Some c => c | None => num_ports n d end)
                end
    end.
  Definition ser_link (h : hugr) (l : link) : option sedge :=
    match constrain h (fst l) DOut, constrain h (snd l) DIn, rekey h (fst (fst l)), rekey h (fst (snd l)) with
    | Some a, Some b, Some s, Some d => Some ((s, Some a), (d, Some b))
    | _, _, _, _ => None
    end.
  (* the root is serialized as its own parent *)
  Definition ser_node (h : hugr) (i : nat) : option snode :=
    match get_node h i with
    | None => None
    | Some n => match rekey h (match n_parent n with Some p => p | None => i end) with
                | None => None
                | Some p' => Some {| s_op := enc (n_op n); s_parent := p' |}
                end
    end.
  (* metadata=[node.metadata if node.metadata else None for node in live_nodes] *)
  Fixpoint meta_of (l : list (option node)) : list (option md) :=
    match l with
    | [] => []
    | Some n :: r => (if md_is_nil (n_md n) then None else Some (n_md n)) :: meta_of r
    | None :: r => meta_of r
    end.
  Definition to_serial (h : hugr) : option serial :=
    match mapM (ser_node h) (live h), mapM (ser_link h) (h_links h) with
    | Some ns, Some es => Some {| s_nodes := ns; s_edges := es; s_meta := Some (meta_of (h_nodes h)) |}
    | _, _ => None
    end.

  (* ---- Hugr._from_serial ---- *)
  Definition get_meta (s : serial) (idx : nat) : md :=
    match s_meta s with
    | None | Some [] => md_nil
    | Some l => match nth_error l idx with
                | Some (Some m) => m                 (* `serial.metadata[idx] or {}` *)
                | _ => md_nil
                end
    end.
  Definition new_node (o : op) (p : option nat) (m : md) : node :=
    {| n_op := o; n_parent := p; n_children := []; n_md := m; n_nin := 0; n_nout := 0 |}.
  Definition add_child (n : node) (c : nat) : node :=
    {| n_op := n_op n; n_parent := n_parent n; n_children := n_children n ++ [c]; n_md := n_md n;
       n_nin := n_nin n; n_nout := n_nout n |}.
  (* the node loop: _add_node appends (no free indices), then appends the node to its parent's
     children (KeyError when the parent does not exist yet); a node that names itself as parent
     becomes the root *)
  Fixpoint load_nodes (s : serial) (sn : list snode) (ns : list node) (root : nat) : option (list node * nat) :=
    match sn with
    | [] => Some (ns, root)
    | x :: r =>
        let idx := length ns in
        let m := get_meta s idx in
        if s_parent x =? idx then load_nodes s r (ns ++ [new_node (dec (s_op x)) None m]) idx
        else
          let ns1 := ns ++ [new_node (dec (s_op x)) (Some (s_parent x)) m] in
          match nth_error ns1 (s_parent x) with
          | None => None
          | Some pn => load_nodes s r (set_nth ns1 (s_parent x) (add_child pn idx)) root
          end
    end.
  (* get_offset: the order port of a dataflow node is serialized after its other ports; hugr-rs leaves
     out its offset.  outer None = KeyError, inner None = the edge is skipped *)
  Definition get_offset (ns : list node) (i : nat) (off : option nat) (d : dir) : option (option aoff) :=
    match nth_error ns i with
    | None => None
    | Some n => Some (match ndp (n_op n) d, off with
                      | Some c, None => Some AOrder
                      | Some c, Some k => if k =? c then Some AOrder else Some (APort k)
                      | None, None => None
                      | None, Some k => Some (APort k)
                      end)
    end.
  Definition bump (n : node) (d : dir) (o : aoff) : node :=
    match o with
    | AOrder => n
    | APort k =>
        {| n_op := n_op n; n_parent := n_parent n; n_children := n_children n; n_md := n_md n;
           n_nin := match d with DIn => Nat.max (n_nin n) (S k) | DOut => n_nin n end;
           n_nout := match d with DOut => Nat.max (n_nout n) (S k) | DIn => n_nout n end |}
    end.
  Definition bump_at (ns : list node) (i : nat) (d : dir) (o : aoff) : list node :=
    match nth_error ns i with Some n => set_nth ns i (bump n d o) | None => ns end.
  Fixpoint load_links (es : list sedge) (ns : list node) (ls : list link) : option (list node * list link) :=
    match es with
    | [] => Some (ns, ls)
    | ((sn, so), (dn, do_)) :: r =>
        match get_offset ns sn so DOut, get_offset ns dn do_ DIn with
        | Some (Some a), Some (Some b) =>
            load_links r (bump_at (bump_at ns sn DOut a) dn DIn b) (ls ++ [((sn, a), (dn, b))])
        | Some _, Some _ => load_links r ns ls
        | _, _ => None
        end
    end.
  Definition from_serial (s : serial) : option hugr :=
    match s_nodes s with
    | [] => None                                     (* assert serial.nodes *)
    | _ => match load_nodes s (s_nodes s) [] 0 with
           | None => None
           | Some (ns, root) =>
               match load_links (s_edges s) ns [] with
               | None => None
               | Some (ns', ls) => Some {| h_nodes := map Some ns'; h_root := root; h_links := ls |}
               end
           end
    end.
End Serial.

Arguments n_op {op md}. Arguments n_parent {op md}. Arguments n_children {op md}. Arguments n_md {op md}.
Arguments n_nin {op md}. Arguments n_nout {op md}.
Arguments h_nodes {op md}. Arguments h_root {op md}. Arguments h_links {op md}.
Arguments s_op {sop}. Arguments s_parent {sop}.
Arguments s_nodes {sop md}. Arguments s_edges {sop md}. Arguments s_meta {sop md}.
Arguments get_node {op md}. Arguments live {op md}. Arguments live_from {op md}. Arguments rekey {op md}.
Arguments to_serial {op sop md}. Arguments from_serial {op sop md}.
