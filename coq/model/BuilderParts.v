(* C13 (seeded round 5) — which guarded fields the builders leave unset when a container is left unfinished.
   model/BuilderErr.v has `serialise` over operations given as lists of guarded fields; this file says which
   operations a builder creates for one "part" of a program and which of their guarded fields the calls made so
   far have recorded, mirroring hugr-py:
     build/dfg.py   DfBase.__init__ / new_nested: Input, Output(_types = None) under the container
                    DfBase.set_outputs: wires the Output node (Output._set_in_types) AND parent_op._set_out_types
                    Function.declare_outputs: parent_op._set_out_types ONLY - the Output node stays incomplete
                    until set_outputs is called (declaring announces a row, it does not build it)
     build/cond_loop.py  Conditional._init_impl creates EVERY Case(_outputs = None) + Output node at once (add_case
                    only hands the builder out); Case.set_outputs -> _update_outputs records
                    Conditional._outputs when the first case is finished
                    TailLoop.set_loop_outputs: Output + TailLoop._just_outputs
     build/cfg.py   Cfg: CFG(_outputs = None) + ExitBlock(_cfg_outputs = None), both recorded by the first exit
                    branch; Block.set_block_outputs: DataflowBlock._sum, _other_outputs + Output
     ops.py         _PartialOp (Noop, MakeTuple, UnpackTuple, CallIndirect) and LoadConst: the type is recorded
                    when the operation is wired up by a builder (add_op / load), not by Hugr.add_node
   A program's position and nesting of the parts does not matter to Hugr._to_serial (every node is serialised):
   the model is a flat list of parts.  No proofs here. *)
From Coq Require Import List Bool.
Import ListNotations.
From HV Require Import lib.Harness model.Tracked model.BuilderErr.

(* a case of a Conditional: never requested / requested by add_case but outputs not set / outputs set *)
Inductive cstate := CNotRequested | CRequested | CFinished.
(* operations whose type is filled in by wiring *)
Inductive pop := PNoop | PMakeTuple | PUnpackTuple | PCallIndirect | PLoadConst.

Inductive part :=
| PFunc (declared finished : bool)        (* define_function / Function; declare_outputs called; set_outputs called *)
| PDfg (finished : bool)                  (* add_nested / Dfg; set_outputs called *)
| PCond (cases : list cstate)             (* add_conditional over a Sum with one variant per list element *)
| PCfg (blocks : list bool) (exit : bool) (* add_cfg; per block (entry first): outputs set; an exit branch was made *)
| PLoop (finished : bool)                 (* add_tail_loop; set_loop_outputs called *)
| POp (o : pop) (wired : bool).           (* added by a builder with its inputs wired / by Hugr.add_node *)

Definition is_finished (c : cstate) : bool := match c with CFinished => true | _ => false end.
Definition is_requested (c : cstate) : bool := match c with CRequested => true | _ => false end.

Section Parts.
  Variable T : Type.
  (* a guarded field: recorded (the row itself is immaterial to _check_complete) or still None *)
  Definition fld (b : bool) : option (row T) := if b then Some [] else None.

  Definition case_fields (c : cstate) : list (opfields T) :=
    match c with
    | CNotRequested                                     (* the Case node exists from the start *)
    | CRequested => [[fld false]; [fld false]]          (* Case._outputs, Output._types *)
    | CFinished => [[fld true]; [fld true]]
    end.
  Definition block_fields (b : bool) : list (opfields T) :=
    [[fld b; fld b]; [fld b]].                            (* DataflowBlock._sum, ._other_outputs; Output._types *)

  Definition part_fields (p : part) : list (opfields T) :=
    match p with
    | PFunc declared finished =>
        [[fld (declared || finished)];                     (* FuncDefn._outputs: declare_outputs or set_outputs *)
         [fld finished]]                                   (* Output._types: set_outputs only *)
    | PDfg finished => [[fld finished]; [fld finished]]    (* DFG._outputs, Output._types *)
    | PCond cases =>
        [fld (existsb is_finished cases)]                  (* Conditional._outputs: the first finished case *)
        :: flat_map case_fields cases
    | PCfg blocks exit =>
        [fld exit] :: [fld exit]                           (* CFG._outputs, ExitBlock._cfg_outputs *)
        :: flat_map block_fields blocks
    | PLoop finished => [[fld finished]; [fld finished]]   (* TailLoop._just_outputs, Output._types *)
    | POp _ wired => [[fld wired]]
    end.

  (* Hugr._to_serial / to_json / Package(...).to_json, to_bytes, to_str: every operation is serialised *)
  Definition serialise_parts (ps : list part) : res unit := serialise T (flat_map part_fields ps).
End Parts.
