(* C02 o C05 -- the abstract operation layer of model/SerialHugr.v (Section variables enc / dec / ndp and the
   reader's contract vports / sports / has_order) instantiated with the concrete operations and codec of
   model/CodecOps.v (property C05).  Parametric in the payload H / SH of function-valued constants, exactly
   like the C05 models; proofs/ComposeOpsP.v closes the payload at nesting depth 0 and at any depth.

     c_enc o      <Op>._to_serial without the parent field: the serial class with its parent slot at 0
                  (SerialHugr.ser_node stores the parent beside it; [set_parent] puts it back, see
                  [sop_of_snode])
     c_dec s      the serial class's deserialize()
     c_ndp o d    hugr/ops.py:_num_dataflow_ports, transcribed from the Python match statement
                  (proofs/ComposeOpsP.v: it is C05's CodecDoc.num_df_ports, the function C05's correspondence
                  ties to the code)
     reader_ports hugr-core/src/ops.rs (value_port_count / static_port / other_port) and the dataflow_signature
                  of each operation, on the ENCODED operation -- the same table as harness/props/c02.py
                  reader_ports, which is what run/C02Run.v instantiates vports / sports / has_order with
   No proofs in this file. *)
From Coq Require Import NArith List Bool Arith.
Import ListNotations.
From HV Require Import lib.Harness model.Types model.SerialTypes model.Codec model.CodecVals model.CodecOps
  model.SerialHugr.

Section ComposeOps.
  Variables H SH : Type.
  Variable h_enc : H -> SH.
  Variable h_dec : SH -> H.
  Variable h_ok : H -> bool.

  Definition c_enc (o : op H) : sop SH := op_to_serial H SH h_enc o 0%N.
  Definition c_dec (s : sop SH) : op H := op_deserialize H SH h_dec s.

  (* the parent field of a serial operation *)
  Definition set_parent (s : sop SH) (p : N) : sop SH :=
    match s with
    | SModule _ => SModule p
    | SFuncDefn _ nm sig => SFuncDefn p nm sig
    | SFuncDecl _ nm sig => SFuncDecl p nm sig
    | SConst _ v => SConst p v
    | SDataflowBlock _ i oo rows d => SDataflowBlock p i oo rows d
    | SExitBlock _ os => SExitBlock p os
    | SInput _ ts => SInput p ts
    | SOutput _ ts => SOutput p ts
    | SCall _ sig ta inst => SCall p sig ta inst
    | SCallIndirect _ sig => SCallIndirect p sig
    | SLoadConstant _ t => SLoadConstant p t
    | SLoadFunction _ sig ta inst => SLoadFunction p sig ta inst
    | SDFG _ sig => SDFG p sig
    | SConditional _ oi os rows d => SConditional p oi os rows d
    | SCase _ sig => SCase p sig
    | STailLoop _ ji jo rest d => STailLoop p ji jo rest d
    | SCFG _ sig => SCFG p sig
    | SExtensionOp _ e nm sig descr args => SExtensionOp p e nm sig descr args
    | STag _ tag rows => STag p tag rows
    | SAliasDecl _ nm b => SAliasDecl p nm b
    | SAliasDefn _ nm t => SAliasDefn p nm t
    end.
  (* a node of a SerialHugr document as the serial class the JSON document lists *)
  Definition sop_of_snode (x : snode (sop SH)) : sop SH := set_parent (s_op x) (N.of_nat (s_parent x)).

  (* ---- ops._num_dataflow_ports ----
       match op:
         case Call():                 sig, static_inputs = op.instantiation, 1
         case LoadConst() | LoadFunc(): sig, static_inputs = op.outer_signature(), 1
         case DataflowOp():           sig, static_inputs = op.outer_signature(), 0
         case _:                      return None
     DataflowOp subclasses among the serialised kinds: Input, Output, Custom / ExtOp (AsExtOp), Tag, DFG, CFG,
     LoadConst, Conditional, TailLoop, CallIndirect, LoadFunc.  (input row, output row, static inputs) *)
  Definition df_sig (o : op H) : option (list ty * list ty * nat) :=
    match o with
    | OCall _ inst _ => Some (ft_in inst, ft_out inst, 1)
    | OLoadConst t => Some ([], [t], 1)
    | OLoadFunc _ inst _ => Some ([], [func_as_ty inst], 1)
    | OInput ts => Some ([], ts, 0)
    | OOutput ts => Some (ts, [], 0)
    | OCallIndirect sig => Some (func_as_ty sig :: ft_in sig, ft_out sig, 0)
    | ODFG i os _ => Some (i, os, 0)
    | OConditional s oi os => Some (s :: oi, os, 0)
    | OTailLoop ji rest jo _ => Some (ji ++ rest, jo ++ rest, 0)
    | OCFG i os => Some (i, os, 0)
    | OCustom _ sig _ _ _ => Some (ft_in sig, ft_out sig, 0)
    | OExtOp d sig _ => let f := sig_or_empty (extop_sig d sig) in Some (ft_in f, ft_out f, 0)
    | OTag tag s => match nth_error (rows_of s) (N.to_nat tag) with
                    | Some r => Some (r, [s], 0)
                    | None => None                      (* the tag names no variant: no signature, see [tag_ok] *)
                    end
    | OModule | OFuncDefn _ _ _ _ | OFuncDecl _ _ | OConst _ | ODataflowBlock _ _ _ _ | OExitBlock _
    | OCase _ _ | OAliasDecl _ _ | OAliasDefn _ _ => None
    end.
  Definition c_ndp (o : op H) (d : dir) : option nat :=
    match df_sig o with
    | Some (i, os, st) => Some match d with DIn => length i + st | DOut => length os end
    | None => None
    end.

  (* ---- the reader's contract, on the encoded operation:
     (has an order port, (value inputs, static inputs), (value outputs, static outputs)) ---- *)
  Definition reader_ports (s : sop SH) : bool * (nat * nat) * (nat * nat) :=
    match s with
    | SInput _ ts => (true, (0, 0), (length ts, 0))
    | SOutput _ ts => (true, (length ts, 0), (0, 0))
    | SDFG _ sig | SCFG _ sig | SExtensionOp _ _ _ sig _ _ =>
        (true, (length (sf_input sig), 0), (length (sf_output sig), 0))
    | SConditional _ oi os _ _ => (true, (1 + length oi, 0), (length os, 0))
    | STailLoop _ ji jo rest _ => (true, (length ji + length rest, 0), (length jo + length rest, 0))
    | SCall _ _ _ inst => (true, (length (sf_input inst), 1), (length (sf_output inst), 0))
    | SCallIndirect _ sig => (true, (1 + length (sf_input sig), 0), (length (sf_output sig), 0))
    | SLoadConstant _ _ | SLoadFunction _ _ _ _ => (true, (0, 1), (1, 0))
    | STag _ tag vs => match nth_error vs (N.to_nat tag) with
                       | Some r => (true, (length r, 0), (1, 0))
                       | None => (false, (0, 0), (0, 0))           (* variants[tag]: the reader fails *)
                       end
    | SConst _ _ | SFuncDefn _ _ _ | SFuncDecl _ _ _ => (false, (0, 0), (0, 1))
    | SModule _ | SAliasDecl _ _ _ | SAliasDefn _ _ _ | SCase _ _ | SDataflowBlock _ _ _ _ _ | SExitBlock _ _ =>
        (false, (0, 0), (0, 0))
    end.
  Definition c_has_order (o : op H) : bool := fst (fst (reader_ports (c_enc o))).
  Definition c_vports (o : op H) (d : dir) : nat :=
    match d with DIn => fst (snd (fst (reader_ports (c_enc o)))) | DOut => fst (snd (reader_ports (c_enc o))) end.
  Definition c_sports (o : op H) (d : dir) : nat :=
    match d with DIn => snd (snd (fst (reader_ports (c_enc o)))) | DOut => snd (snd (reader_ports (c_enc o))) end.

  (* ---- which operations the composed theorems speak about ----
     C05's OpOK (the encoding returns and the object is one its constructor can have built), as a boolean.
     tag_ok: the tag of a Tag operation names one of its variants.  ops.Tag(5, Sum([[]])) can be constructed; it has no
     signature (outer_signature() raises IndexError) and, since fix f60e9c0, `_num_dataflow_ports` answers None for it
     as [df_sig] does -- such an operation simply has no order port, the theorems need no premise about it *)
  Definition tag_ok (o : op H) : bool :=
    match o with OTag tag s => N.to_nat tag <? length (rows_of s) | _ => true end.
  Definition cop_ok_b (o : op H) : bool := op_ok H h_ok o.
End ComposeOps.
