(* C01 (third pass) — the builder model widened beyond Dfg / add_nested.

   model/Builder.v stays as it is (its theorems keep compiling); this file re-uses its graph store, environment,
   wiring (`wire_up`, `_ancestral_sibling`, order edge) and serialisation, and extends the statement language:

     TOp / TLoad / TNested / TOrder    as SOp / SLoad / SNested / SOrder of Builder.v
     TLoop      add_tail_loop(just, rest) ... set_loop_outputs(sum, *rest)
                [dfg.py add_tail_loop, TailLoop.new_nested, cond_loop.py TailLoop.set_outputs,
                 ops.TailLoop._set_out_types: (sum, other) = get_first_sum(types); just_ins, just_outs = sum.variant_rows;
                 assert just_ins == self.just_inputs]
     TCond      add_conditional(cond, *args) ... add_case(i) ... set_outputs, in any case order; add_if / add_else is
                the same call sequence with case order [1; 0]
                [dfg.py add_conditional, add_if; cond_loop.py Conditional.new_nested / _init_impl (all Case nodes with
                 their Input/Output are created up front), add_case (ConditionalError: out of range / built twice),
                 Case.set_outputs -> Conditional._update_outputs (first case fixes the outputs, later cases must
                 agree), __exit__ (all cases built)]
     TInsert    a program built separately on its own Hugr (Dfg(...), TailLoop(...), Conditional(...) roots) and then
                inserted: insert_nested / insert_tail_loop / insert_conditional, all of which are
                DfBase._insert_nested_impl: mapping = hugr.insert_hugr(builder.hugr, parent_node);
                _wire_up(mapping[builder.parent_node], args)
                [hugr/base.py insert_hugr: nodes in index order through add_node with the mapped parent, then every
                 link through add_link with mapped end nodes and unchanged offsets]
     TCallInd   add_op(CallIndirect(), f, *args): _PartialOp completed from the type of the first wire
     roots      QDfg (Dfg(...)), QLoop (TailLoop(just, rest)), QCond (Conditional(sum, others))

   Set-outputs dispatch: DfBase.set_outputs wires the Output node, completes it, and calls
   parent_op._set_out_types(types) on whatever operation the container node holds (DFG, Case, TailLoop).

   Incomplete operations are placeholders that are always overwritten before serialisation: Output [], DFG ins [],
   Case ins [], Conditional rows others [] s, ExtOp [] [], CallIndirect [] [] 0 (no out ports yet), and for an
   incomplete ops.TailLoop(just_inputs, rest) (whose _just_outputs is None: it has no output row yet)
   `TailLoop (just_inputs ++ rest) [] [] (len just_inputs)`: the same input row, no outputs, and the split point kept
   in the (not yet meaningful) control-type slot; _set_out_types recovers just_inputs / rest from it.

   The interpreter of harness/progs.py keeps ONE wire dictionary and ONE statement dictionary for the whole program,
   including separately built sub-programs: the environment is threaded through exec_prog as well (a wire bound
   inside an inserted program keeps naming the node index of the INNER Hugr, as the OutPort object does).

   Errors of the Python code are values as in Builder.v; assertion failures / ConditionalError / IncompleteOp at
   serialisation are all EIncomplete (error identities are not observable: a raising program is not compared).
   OUTSIDE this model: Cfg, Function/Module roots, call / load_function / define_function, TrackedDfg.
   No proofs in this file. *)
From Coq Require Import NArith List Bool Arith.
Import ListNotations.
From HV Require Import lib.Harness model.Validity model.Builder.
Local Open Scope N_scope.

Inductive stmt2 :=
| TOp (id : sid) (o : opspec) (args res : list wid)
| TLoad (id : sid) (v : value) (cp : cparent) (res : wid)
| TNested (id : sid) (args : list wid) (body : region2) (res : list wid)
| TOrder (src dst : nref)
| TLoop (id : sid) (just rest : list wid) (body : region2) (res : list wid)
| TCond (id : sid) (cond : wid) (args : list wid) (cases : cases2) (res : list wid)
| TInsert (id : sid) (sub : prog2) (args res : list wid)
| TCallInd (id : sid) (args res : list wid)
with region2 := Reg (ins : list wid) (body : stmts2) (outs : list wid)
with stmts2 := TNil | TCons (s : stmt2) (r : stmts2)
(* the cases in the order the program builds them, each with its case index *)
with cases2 := CNil | CCons (i : N) (r : region2) (rest : cases2)
with prog2 :=
| QDfg (ins : row) (body : region2)
| QLoop (just rest : row) (body : region2)
| QCond (rows : list row) (others : row) (sumty : tyid) (cases : cases2).

(* ------------------------------------------------------------------ operations *)
(* ops.DFG / Case / TailLoop ._set_out_types (parent_op._set_out_types(self._output_op().types)) *)
Definition set_out_types2 (tys : list tyinfo) (o : vop) (outs : row) : res vop :=
  match o with
  | DFG i _ => Ok (DFG i outs)
  | Case i _ => Ok (Case i outs)
  | TailLoop jall _ _ n =>
      (* the INCOMPLETE TailLoop op (see TLoop below): just_inputs = firstn n jall, rest = skipn n jall.
         (sum_, other) = get_first_sum(types); just_ins, just_outs = sum_.variant_rows; assert just_ins == just_inputs *)
      let ji := firstn (N.to_nat n) jall in
      match outs with
      | t :: _ =>
          match nthN tys t with
          | Some (TSum _ [a; b]) => if row_eqb a ji then Ok (TailLoop ji b (skipn (N.to_nat n) jall) t) else Err EIncomplete
          | _ => Err EIncomplete
          end
      | [] => Err EIncomplete
      end
  | other => Ok other
  end.

(* DfBase.set_outputs (and the overriding Dfg / Case / TailLoop .set_outputs, whose extra steps are port-count
   bookkeeping and assertions already made by _set_out_types) *)
Definition set_outputs2 (tys : list tyinfo) (st : store) (b : dfb) (ws : list (N * N)) : res store :=
  x <- wire_up st (b_out b) ws ;;
  st1 <- set_op (fst x) (b_out b) (Output (snd x)) ;;
  match s_op st1 (b_parent b) with
  | Some po => po' <- set_out_types2 tys po (snd x) ;; set_op st1 (b_parent b) po'
  | None => Err EKey
  end.

(* CallIndirect._set_in_types: func_sig, *_ = types; assert isinstance(func_sig, FunctionType) *)
Definition completed_callind (tys : list tyinfo) (ins : row) : res vop :=
  match ins with
  | f :: _ => match nthN tys f with
              | Some (TFn i o _) => Ok (CallIndirect i o f)
              | _ => Err EIncomplete
              end
  | [] => Err EIncomplete
  end.

(* ------------------------------------------------------------------ Conditional *)
(* Conditional._init_impl: for case_id in range(n_cases): Case.new_nested(ops.Case(nth_inputs(case_id)), hugr, root);
   _case_builders.append((new_case, False)) *)
Fixpoint make_cases (st : store) (cond : N) (rows : list row) (others : row) : res (store * list (dfb * bool)) :=
  match rows with
  | [] => Ok (st, [])
  | r :: rest =>
      c <- add_node st (Case (r ++ others) []) cond ;;
      io <- init_io (fst c) (snd c) (r ++ others) ;;
      x <- make_cases (fst io) cond rest others ;;
      Ok (fst x, (snd io, false) :: snd x)
  end.

(* self._output_op().types of a builder whose outputs have been set *)
Definition out_types (st : store) (b : dfb) : res row :=
  match s_op st (b_out b) with
  | Some (Output ts) => Ok ts
  | _ => Err EKey
  end.

(* Conditional._update_outputs: the first case to be completed fixes the outputs of the Conditional, the others
   must agree (ConditionalError "Mismatched case outputs") *)
Definition update_outputs (st : store) (cond : N) (cur : option row) (ts : row) : res (store * option row) :=
  match cur with
  | None =>
      match s_op st cond with
      | Some (Conditional rows others _ s) => st' <- set_op st cond (Conditional rows others ts s) ;; Ok (st', Some ts)
      | _ => Err EKey
      end
  | Some o => if row_eqb o ts then Ok (st, cur) else Err EIncomplete
  end.

(* all cases built (Conditional.__exit__; for a Conditional that is not used as a context manager an unbuilt case
   or an empty sum leaves an incomplete operation and serialisation raises IncompleteOp) *)
Definition cases_done (bs : list (dfb * bool)) (cur : option row) : bool :=
  forallb (fun x : dfb * bool => snd x) bs && is_some cur.

(* ------------------------------------------------------------------ Hugr.insert_hugr *)
(* mapping: inner node index -> new node (a list indexed by the inner index: the loop visits the inner nodes in
   index order).  The Python code inserts not-yet-inserted ancestors first; the builders only ever produce
   stores whose parents have smaller indices, for any other store the lookup fails (EKey). *)
Fixpoint insert_nodes (st : store) (parent : N) (mapping : list N) (l : list vnode) (i : N) : res (store * list N) :=
  match l with
  | [] => Ok (st, mapping)
  | nd :: r =>
      p <- (if i =? 0 then Ok parent
            else match nthN mapping (n_parent nd) with Some q => Ok q | None => Err EKey end) ;;
      a <- add_node st (n_op nd) p ;;
      insert_nodes (fst a) parent (mapping ++ [snd a]) r (i + 1)
  end.
Fixpoint insert_links (st : store) (mapping : list N) (l : list edge) : res store :=
  match l with
  | [] => Ok st
  | e :: r =>
      match nthN mapping (e_src e), nthN mapping (e_dst e) with
      | Some s, Some d => st1 <- add_link st s (e_soff e) d (e_doff e) ;; insert_links st1 mapping r
      | _, _ => Err EKey
      end
  end.
Definition insert_hugr (st : store) (inner : store) (parent : N) : res (store * list N) :=
  x <- insert_nodes st parent [] (s_nodes inner) 0 ;;
  st1 <- insert_links (fst x) (snd x) (s_links inner) ;;
  Ok (st1, snd x).

(* ------------------------------------------------------------------ the builders *)
Definition env0 : env := {| e_wires := []; e_stmts := [] |}.

Section Exec2.
  Variable tys : list tyinfo.

  Fixpoint exec_stmt2 (s : stmt2) (b : dfb) (st : store) (e : env) {struct s} : res (store * env) :=
    match s with
    | TOp id o args rs =>
        ws <- get_wires e args ;;
        a <- add_node st (initial_op o) (b_parent b) ;;
        x <- wire_up (fst a) (snd a) ws ;;
        op' <- completed_op tys o (snd x) ;;
        st' <- set_op (fst x) (snd a) op' ;;
        Ok (st', bind_outs (bind_stmt e id (snd a)) (snd a) rs)
    | TLoad id v cp r =>
        c <- add_node st (Const v) (match cp with CHere => b_parent b | CRoot => 0 end) ;;
        l <- add_node (fst c) (LoadConst (value_ty v)) (b_parent b) ;;
        st' <- add_link (fst l) (snd c) (Some 0) (snd l) (Some 0) ;;
        Ok (st', bind_outs (bind_stmt e id (snd l)) (snd l) [r])
    | TNested id args body rs =>
        ws <- get_wires e args ;;
        ts <- wire_types st ws ;;
        d <- add_node st (DFG ts []) (b_parent b) ;;
        io <- init_io (fst d) (snd d) ts ;;
        x <- wire_up (fst io) (snd d) ws ;;
        y <- exec_region2 body (snd io) (fst x) e ;;
        Ok (fst y, bind_outs (bind_stmt (snd y) id (snd d)) (snd d) rs)
    | TOrder src dst =>
        a <- node_of b e src ;;
        c <- node_of b e dst ;;
        st' <- add_order_link st a c ;;
        Ok (st', e)
    | TLoop id just rest body rs =>
        (* add_tail_loop: TailLoop(_wire_types(just), _wire_types(rest)); TailLoop.new_nested;
           _wire_up(tl.parent_node, just + rest) *)
        jw <- get_wires e just ;;
        rw <- get_wires e rest ;;
        jt <- wire_types st jw ;;
        rt <- wire_types st rw ;;
        d <- add_node st (TailLoop (jt ++ rt) [] [] (lenN jt)) (b_parent b) ;;
        io <- init_io (fst d) (snd d) (jt ++ rt) ;;
        x <- wire_up (fst io) (snd d) (jw ++ rw) ;;
        y <- exec_region2 body (snd io) (fst x) e ;;
        Ok (fst y, bind_outs (bind_stmt (snd y) id (snd d)) (snd d) rs)
    | TCond id cond args cs rs =>
        (* add_conditional: (sum_, other_inputs) = get_first_sum(_wire_types((cond_wire, *args)));
           Conditional.new_nested(sum_, other_inputs, hugr, parent_node); _wire_up(cond.parent_node, args) *)
        cw <- get_wire e cond ;;
        ws <- get_wires e args ;;
        ts <- wire_types st (cw :: ws) ;;
        match ts with
        | t :: others =>
            match nthN tys t with
            | Some (TSum _ rows) =>
                c <- add_node st (Conditional rows others [] t) (b_parent b) ;;
                mk <- make_cases (fst c) (snd c) rows others ;;
                x <- wire_up (fst mk) (snd c) (cw :: ws) ;;
                y <- exec_cases2 cs (snd c) (snd mk) None (fst x) e ;;
                let '(st', e', bs, cur) := y in
                if cases_done bs cur then Ok (st', bind_outs (bind_stmt e' id (snd c)) (snd c) rs)
                else Err EIncomplete
            | _ => Err EIncomplete
            end
        | [] => Err EIncomplete
        end
    | TInsert id sub args rs =>
        (* the program `sub` is built on its own Hugr first; then _insert_nested_impl *)
        y <- exec_prog2 sub e ;;
        ws <- get_wires (snd y) args ;;
        m <- insert_hugr st (fst y) (b_parent b) ;;
        match nthN (snd m) 0 with
        | Some r =>
            x <- wire_up (fst m) r ws ;;
            Ok (fst x, bind_outs (bind_stmt (snd y) id r) r rs)
        | None => Err EKey
        end
    | TCallInd id args rs =>
        ws <- get_wires e args ;;
        a <- add_node st (CallIndirect [] [] 0) (b_parent b) ;;
        x <- wire_up (fst a) (snd a) ws ;;
        op' <- completed_callind tys (snd x) ;;
        st' <- set_op (fst x) (snd a) op' ;;
        Ok (st', bind_outs (bind_stmt e id (snd a)) (snd a) rs)
    end
  with exec_region2 (r : region2) (b : dfb) (st : store) (e : env) {struct r} : res (store * env) :=
    match r with
    | Reg ins body outs =>
        y <- exec_stmts2 body b st (bind_outs e (b_in b) ins) ;;
        ws <- get_wires (snd y) outs ;;
        st' <- set_outputs2 tys (fst y) b ws ;;
        Ok (st', snd y)
    end
  with exec_stmts2 (l : stmts2) (b : dfb) (st : store) (e : env) {struct l} : res (store * env) :=
    match l with
    | TNil => Ok (st, e)
    | TCons s r => y <- exec_stmt2 s b st e ;; exec_stmts2 r b (fst y) (snd y)
    end
  with exec_cases2 (cs : cases2) (cond : N) (bs : list (dfb * bool)) (cur : option row) (st : store) (e : env)
         {struct cs} : res (store * env * list (dfb * bool) * option row) :=
    match cs with
    | CNil => Ok (st, e, bs, cur)
    | CCons i r rest =>
        (* add_case(i); the case body; Case.set_outputs -> _update_outputs *)
        match nthN bs i with
        | Some (cb, false) =>
            y <- exec_region2 r cb st e ;;
            ts <- out_types (fst y) cb ;;
            u <- update_outputs (fst y) cond cur ts ;;
            exec_cases2 rest cond (set_nth bs (N.to_nat i) (cb, true)) (snd u) (fst u) (snd y)
        | _ => Err EIncomplete
        end
    end
  with exec_prog2 (p : prog2) (e : env) {struct p} : res (store * env) :=
    match p with
    | QDfg ins body =>
        io <- init_io (new_store (DFG ins [])) 0 ins ;;
        exec_region2 body (snd io) (fst io) e
    | QLoop just rest body =>
        io <- init_io (new_store (TailLoop (just ++ rest) [] [] (lenN just))) 0 (just ++ rest) ;;
        exec_region2 body (snd io) (fst io) e
    | QCond rows others sumty cs =>
        mk <- make_cases (new_store (Conditional rows others [] sumty)) 0 rows others ;;
        y <- exec_cases2 cs 0 (snd mk) None (fst mk) e ;;
        let '(st', e', bs, cur) := y in
        if cases_done bs cur then Ok (st', e') else Err EIncomplete
    end.
End Exec2.

Definition run2 (tys : list tyinfo) (p : prog2) : res graph :=
  y <- exec_prog2 tys p env0 ;; Ok (to_serial (fst y)).

(* ------------------------------------------------------------------ the embedding of the first language *)
Fixpoint emb_stmt (s : stmt) : stmt2 :=
  match s with
  | SOp id o args rs => TOp id o args rs
  | SLoad id v cp r => TLoad id v cp r
  | SNested id args body rs => TNested id args (emb_region body) rs
  | SOrder src dst => TOrder src dst
  end
with emb_region (r : region) : region2 :=
  match r with Region ins body outs => Reg ins (emb_stmts body) outs end
with emb_stmts (l : stmts) : stmts2 :=
  match l with SNil => TNil | SCons s r => TCons (emb_stmt s) (emb_stmts r) end.
Definition emb (p : prog) : prog2 :=
  match p with PDfg ins body => QDfg ins (emb_region body) end.
