(* Constant values (hugr.val) and their serial models (_serialization/ops.py: CustomValue, FunctionValue,
   TupleValue, SumValue), both conversions.  A function-valued constant embeds a whole HUGR: the model is
   parametric in that payload (API form H, serial form SH) with its own encoder / decoder, see the Section
   variables; proofs/CodecValsP.v states the round trip under a round-trip hypothesis on the payload and
   model/CodecDoc.v closes the loop by induction on the nesting depth.  No proofs here. *)
From Coq Require Import NArith List Bool Arith.
Import ListNotations.
From HV Require Import lib.Harness model.Types model.SerialTypes model.Codec.

Section Vals.
  Variables H SH : Type.
  Variable h_enc : H -> SH.              (* Hugr._to_serial *)
  Variable h_dec : SH -> H.              (* Hugr._from_serial of the validated dict *)
  Variable h_nf : H -> H.                (* what a decoded payload looks like *)
  Variable h_type : H -> functype.       (* body.root_op().inner_signature() *)
  Variable h_ok : H -> bool.             (* the payload encodes and has a dataflow-parent root *)

  (* API layer.  val.Sum and its subclasses Some / None_ / Left / Right / UnitSum are one constructor: the
     subclasses only fill tag / typ / vals (see [valsugar]); val.Tuple has its own encoding.  The JSON payload
     of an extension constant is interned by the harness (canonical JSON text). *)
  Inductive value :=
  | VSum (tag : N) (typ : ty) (vals : list value)
  | VTuple (vals : list value)
  | VFunction (body : H)
  | VExtension (nm : name) (typ : ty) (payload : N) (exts : list name).

  (* serial layer, fields in declaration order *)
  Inductive svalue :=
  | SVCustom (extensions : list name) (typ : sty) (c : name) (v : N)     (* CustomValue; value = CustomConst(c, v) *)
  | SVFunction (hugr : SH)
  | SVTuple (vs : list svalue)
  | SVSum (tag : N) (typ : sty) (vs : list svalue).

  Section VInd.
    Variable P : value -> Prop.
    Hypothesis HS : forall tag typ vals, Forall P vals -> P (VSum tag typ vals).
    Hypothesis HT : forall vals, Forall P vals -> P (VTuple vals).
    Hypothesis HF : forall h, P (VFunction h).
    Hypothesis HE : forall n t p e, P (VExtension n t p e).
    Fixpoint value_ind2 (v : value) : P v :=
      let fix go (l : list value) : Forall P l :=
        match l with [] => Forall_nil _ | x :: r => Forall_cons x (value_ind2 x) (go r) end in
      match v with
      | VSum tag typ vals => HS tag typ vals (go vals)
      | VTuple vals => HT vals (go vals)
      | VFunction h => HF h
      | VExtension n t p e => HE n t p e
      end.
  End VInd.
  Section SVInd.
    Variable P : svalue -> Prop.
    Hypothesis HC : forall e t c v, P (SVCustom e t c v).
    Hypothesis HF : forall h, P (SVFunction h).
    Hypothesis HT : forall vs, Forall P vs -> P (SVTuple vs).
    Hypothesis HS : forall tag typ vs, Forall P vs -> P (SVSum tag typ vs).
    Fixpoint svalue_ind2 (v : svalue) : P v :=
      let fix go (l : list svalue) : Forall P l :=
        match l with [] => Forall_nil _ | x :: r => Forall_cons x (svalue_ind2 x) (go r) end in
      match v with
      | SVCustom e t c x => HC e t c x
      | SVFunction h => HF h
      | SVTuple vs => HT vs (go vs)
      | SVSum tag typ vs => HS tag typ vs (go vs)
      end.
  End SVInd.

  (* `_to_serial_root` *)
  Fixpoint value_to_serial (v : value) : svalue :=
    match v with
    | VSum tag typ vals => SVSum tag (ty_to_serial typ) (map value_to_serial vals)
    | VTuple vals => SVTuple (map value_to_serial vals)
    | VFunction h => SVFunction (h_enc h)
    | VExtension nm typ pl exts => SVCustom exts (ty_to_serial typ) nm pl
    end.
  (* `deserialize()` *)
  Fixpoint value_deserialize (s : svalue) : value :=
    match s with
    | SVCustom exts typ c v => VExtension c (ty_deserialize typ) v exts
    | SVFunction sh => VFunction (h_dec sh)
    | SVTuple vs => VTuple (map value_deserialize vs)                     (* val.Tuple of the values: type recomputed *)
    | SVSum tag typ vs => VSum tag (ty_deserialize typ) (map value_deserialize vs)
    end.
  Fixpoint value_nf (v : value) : value :=
    match v with
    | VSum tag typ vals => VSum tag (ty_nf typ) (map value_nf vals)
    | VTuple vals => VTuple (map value_nf vals)
    | VFunction h => VFunction (h_nf h)
    | VExtension nm typ pl exts => VExtension nm (ty_nf typ) pl exts
    end.

  Definition is_sum (t : ty) : bool := match t with TSum _ | TUnitSum _ => true | _ => false end.
  (* the encoding returns: SumValue.typ must be a sum type (pydantic), all types inside encode *)
  Fixpoint value_ok (v : value) : bool :=
    match v with
    | VSum _ typ vals => is_sum typ && ty_ok typ && forallb value_ok vals
    | VTuple vals => forallb value_ok vals
    | VFunction h => h_ok h
    | VExtension _ typ _ _ => ty_ok typ
    end.

  (* derived fact: type_() *)
  Fixpoint type_of (v : value) : ty :=
    match v with
    | VSum _ typ _ => typ
    | VTuple vals => TSum [map type_of vals]                               (* tys.Tuple of the value types *)
    | VFunction h => func_as_ty (h_type h)
    | VExtension _ typ _ _ => typ
    end.

  (* the sugar subclasses of val.Sum (val.py:103-288): what each constructor fills in *)
  Inductive valsugar :=
  | VgUnitSum (tag : N) (size : nat)          (* also Unit / TRUE / FALSE / bool_value *)
  | VgSome (vals : list value)
  | VgNone (tys : list ty)
  | VgLeft (vals : list value) (right_typ : list ty)
  | VgRight (left_typ : list ty) (vals : list value)
  | VgTuple (vals : list value).
  Definition sugar_val (s : valsugar) : value :=
    match s with
    | VgUnitSum tag n => VSum tag (TUnitSum n) []
    | VgSome vals => VSum 1 (TSum [[]; map type_of vals]) vals
    | VgNone tys => VSum 0 (TSum [[]; tys]) []
    | VgLeft vals rt => VSum 0 (TSum [map type_of vals; rt]) vals
    | VgRight lt vals => VSum 1 (TSum [lt; map type_of vals]) vals
    | VgTuple vals => VTuple vals
    end.
  (* the general form: val.Sum(tag, tys.Sum(rows), vals) *)
  Definition general_val (s : valsugar) : value :=
    match s with
    | VgUnitSum tag n => VSum tag (TSum (repeat [] n)) []
    | VgSome vals => VSum 1 (TSum [[]; map type_of vals]) vals
    | VgNone tys => VSum 0 (TSum [[]; tys]) []
    | VgLeft vals rt => VSum 0 (TSum [map type_of vals; rt]) vals
    | VgRight lt vals => VSum 1 (TSum [lt; map type_of vals]) vals
    | VgTuple vals => VSum 0 (TSum [map type_of vals]) vals
    end.
  (* Python == on values (val.Sum.__eq__: tag, typ, vals; a val.Tuple is a Sum with tag 0 and the tuple type):
     structural after this canonical rewriting *)
  Fixpoint value_canon (v : value) : value :=
    match v with
    | VSum tag typ vals => VSum tag (ty_canon typ) (map value_canon vals)
    | VTuple vals => VSum 0 (TSum [map (fun x => ty_canon (type_of x)) vals]) (map value_canon vals)
    | VFunction h => VFunction h
    | VExtension nm typ pl exts => VExtension nm (ty_canon typ) pl exts
    end.

  (* boolean equalities for the correspondence runs *)
  Variable h_eqb : H -> H -> bool.
  Variable sh_eqb : SH -> SH -> bool.
  Fixpoint value_eqb (a b : value) : bool :=
    let fix go (l m : list value) : bool :=
      match l, m with [], [] => true | p :: r, q :: s => value_eqb p q && go r s | _, _ => false end in
    match a, b with
    | VSum t x l, VSum t' y m => N.eqb t t' && ty_eqb x y && go l m
    | VTuple l, VTuple m => go l m
    | VFunction h, VFunction h' => h_eqb h h'
    | VExtension n t p e, VExtension n' t' p' e' => N.eqb n n' && ty_eqb t t' && N.eqb p p' && names_eqb e e'
    | _, _ => false
    end.
  Fixpoint svalue_eqb (a b : svalue) : bool :=
    let fix go (l m : list svalue) : bool :=
      match l, m with [], [] => true | p :: r, q :: s => svalue_eqb p q && go r s | _, _ => false end in
    match a, b with
    | SVCustom e t c v, SVCustom e' t' c' v' => names_eqb e e' && sty_eqb t t' && N.eqb c c' && N.eqb v v'
    | SVFunction h, SVFunction h' => sh_eqb h h'
    | SVTuple l, SVTuple m => go l m
    | SVSum t x l, SVSum t' y m => N.eqb t t' && sty_eqb x y && go l m
    | _, _ => false
    end.
End Vals.

Arguments VSum {H}. Arguments VTuple {H}. Arguments VFunction {H}. Arguments VExtension {H}.
Arguments SVCustom {SH}. Arguments SVFunction {SH}. Arguments SVTuple {SH}. Arguments SVSum {SH}.
Arguments VgUnitSum {H}. Arguments VgSome {H}. Arguments VgNone {H}. Arguments VgLeft {H}. Arguments VgRight {H}.
Arguments VgTuple {H}.
