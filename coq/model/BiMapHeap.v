(* Object-level model of hugr.utils.BiMap for C18: several maps and the caller's seed mappings living in
   one heap of mutable dict objects.  model/BiMapM.v describes one map by the VALUES of its two dicts; here
   a map is the pair of ADDRESSES of its two dict objects, so that "which dict object does the constructor
   keep" (utils.py:33-37: `self.fwd = dict(fwd)` is a NEW dict, `self.bck = {...}` is a NEW dict) is part of
   the model and sharing a dict object between a map and its seed / another map is expressible.
   No proofs here. *)
From Coq Require Import List Bool Arith.
Import ListNotations.
From HV Require Import lib.PyDict lib.Harness model.BiMapM.

Section Heap.
  Context {L R : Type} (leqb : L -> L -> bool) (reqb : R -> R -> bool).

  (* two stores: dicts keyed by L (the seeds and every map's fwd) and dicts keyed by R (every map's bck);
     an address is an index.  A forward dict can never be the same object as a backward dict (nothing ever
     assigns one to the other), which is why two stores are faithful. *)
  Record heap := { hf : list (list (L * R)); hb : list (list (R * L)) }.

  Fixpoint upd {A} (a : nat) (x : A) (l : list A) : list A :=
    match l, a with
    | [], _ => []
    | _ :: r, O => x :: r
    | y :: r, S a' => y :: upd a' x r
    end.
  Definition getF (h : heap) (a : nat) : list (L * R) := nth a (hf h) [].
  Definition getB (h : heap) (a : nat) : list (R * L) := nth a (hb h) [].
  Definition setF (h : heap) (a : nat) (d : list (L * R)) : heap := {| hf := upd a d (hf h); hb := hb h |}.
  Definition setB (h : heap) (a : nat) (d : list (R * L)) : heap := {| hf := hf h; hb := upd a d (hb h) |}.
  (* a new dict object: a fresh address *)
  Definition allocF (h : heap) (d : list (L * R)) : heap * nat := ({| hf := hf h ++ [d]; hb := hb h |}, length (hf h)).
  Definition allocB (h : heap) (d : list (R * L)) : heap * nat := ({| hf := hf h; hb := hb h ++ [d] |}, length (hb h)).

  (* a BiMap object: the addresses held in self.fwd / self.bck *)
  Record bmref := { fa : nat; ba : nat }.
  Definition deref (h : heap) (r : bmref) : @bimap L R := {| fwd := getF h (fa r); bck := getB h (ba r) |}.
  Definition store (h : heap) (r : bmref) (b : @bimap L R) : heap := setB (setF h (fa r) (fwd b)) (ba r) (bck b).

  (* every mutator reads and writes self.fwd and self.bck in place (utils.py:101-172); since the two live in
     different stores, "read both, compute the BiMapM step, write both back" is the same heap effect as the
     interleaved statements.  Whatever else holds address [fa r] sees the write. *)
  Definition h_step (h : heap) (r : bmref) (o : @op L R) : heap * out :=
    let '(b', res) := step leqb reqb (deref h r) o in (store h r b', res).

  (* utils.py:24-37.  [m] is the content of the mapping passed in (after `fwd or {}`); the object keeps
     `dict(fwd)` (a copy: fresh address) and the freshly built inverse. *)
  Definition h_init (h : heap) (m : list (L * R)) : option (heap * bmref) :=
    match init reqb m with
    | None => None                                  (* raise NotBijection *)
    | Some b =>
        let '(h1, a1) := allocF h (fwd b) in        (* self.fwd = dict(fwd) *)
        let '(h2, a2) := allocB h1 (bck b) in       (* self.bck = {v: k for k, v in fwd.items()} *)
        Some (h2, {| fa := a1; ba := a2 |})
    end.

  (* ---- a test world: [w_ns] seed dicts owned by the caller (addresses 0 .. w_ns-1 of hf) and a fixed
          number of variables ("slots") each holding a BiMap object or nothing yet ---- *)
  Record world := { w_heap : heap; w_ns : nat; w_slots : list (option bmref) }.

  Inductive src := SrcNone | SrcSeed (s : nat) | SrcMap (i : nat).
  Inductive wop :=
  | WNew (j : nat) (s : src)             (* slot_j = BiMap() / BiMap(seed_s) / BiMap(slot_i) *)
  | WOp (i : nat) (o : @op L R)          (* a mutator called on slot_i *)
  | WSeedSet (s : nat) (k : L) (v : R)   (* the caller does seed_s[k] = v *)
  | WSeedDel (s : nat) (k : L)           (* the caller does seed_s.pop(k, None) *)
  | WSeedClear (s : nat).                (* the caller does seed_s.clear() *)

  Definition slot (w : world) (i : nat) : option bmref :=
    match nth_error (w_slots w) i with Some (Some r) => Some r | _ => None end.

  (* content of the mapping handed to the constructor; None = the step is a no-op of the test driver
     (seed index out of range, source slot empty) *)
  Definition src_content (w : world) (s : src) : option (list (L * R)) :=
    match s with
    | SrcNone => Some []
    | SrcSeed s => if s <? w_ns w then Some (getF (w_heap w) s) else None
    | SrcMap i => match slot w i with Some r => Some (getF (w_heap w) (fa r)) | None => None end
                  (* a BiMap read as a Mapping: keys()/__getitem__/values()/items() all answer from self.fwd *)
    end.

  Definition wstep (w : world) (o : wop) : world * out :=
    match o with
    | WNew j s =>
        match src_content w s with
        | None => (w, Done)
        | Some m =>
            if j <? length (w_slots w) then
              match h_init (w_heap w) m with
              | None => (w, NotBijection)
              | Some (h', r) => ({| w_heap := h'; w_ns := w_ns w; w_slots := upd j (Some r) (w_slots w) |}, Done)
              end
            else (w, Done)
        end
    | WOp i o =>
        match slot w i with
        | None => (w, Done)
        | Some r => let '(h', res) := h_step (w_heap w) r o in
                    ({| w_heap := h'; w_ns := w_ns w; w_slots := w_slots w |}, res)
        end
    | WSeedSet s k v =>
        if s <? w_ns w
        then ({| w_heap := setF (w_heap w) s (dset leqb (getF (w_heap w) s) k v); w_ns := w_ns w; w_slots := w_slots w |}, Done)
        else (w, Done)
    | WSeedDel s k =>
        if s <? w_ns w
        then ({| w_heap := setF (w_heap w) s (ddel leqb (getF (w_heap w) s) k); w_ns := w_ns w; w_slots := w_slots w |}, Done)
        else (w, Done)
    | WSeedClear s =>
        if s <? w_ns w
        then ({| w_heap := setF (w_heap w) s []; w_ns := w_ns w; w_slots := w_slots w |}, Done)
        else (w, Done)
    end.
  Definition wrun (w : world) (ops : list wop) : world := fold_left (fun s o => fst (wstep s o)) ops w.

  (* the world a test starts from: the seeds' contents, [nm] empty slots *)
  Definition world0 (seeds : list (list (L * R))) (nm : nat) : world :=
    {| w_heap := {| hf := seeds; hb := [] |}; w_ns := length seeds; w_slots := repeat None nm |}.

  Definition seed_content (w : world) (s : nat) : list (L * R) := getF (w_heap w) s.
  Definition slot_value (w : world) (i : nat) : option (@bimap L R) :=
    match slot w i with Some r => Some (deref (w_heap w) r) | None => None end.
End Heap.
