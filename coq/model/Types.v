(* API-level data model of hugr.tys: types, type arguments, type parameters (tys.py), with the
   type-bound computation (C07).  Strings are interned by the harness to N.  No proofs here,
   apart from the induction principles every nested inductive needs. *)
From Coq Require Import NArith List Bool Arith.
Import ListNotations.
From HV Require Import lib.Harness.

Definition name := N.
Inductive bound := Copyable | Any.
Definition bound_eqb (a b : bound) : bool :=
  match a, b with Copyable, Copyable | Any, Any => true | _, _ => false end.

Inductive typaram :=
| PType (b : bound) | PNat (ub : option N) | PString | PList (p : typaram) | PTuple (ps : list typaram) | PExts.

(* what a type definition says about its bound (ext.py: ExplicitBound / FromParamsBound) *)
Inductive defbound := Explicit (b : bound) | FromParams (idx : list nat).
Record typedef := { td_ext : name; td_name : name; td_descr : name;
                    td_params : list typaram; td_bound : defbound }.

(* how a definition-backed type computes its bound: the generic ExtType.type_bound, or the override of
   the std Array / List / StaticArray subclasses, which read the element type at a fixed argument *)
Inductive extclass := Generic | ElemAt (i : nat).

Inductive ty :=
| TSum (rows : list (list ty))                 (* Sum and its sugar subclasses Tuple/Option/Either *)
| TUnitSum (n : nat)
| TVar (i : nat) (b : bound)
| TRowVar (i : nat) (b : bound)
| TUSize
| TQubit
| TAlias (nm : name) (b : bound)
| TFunc (i o : list ty) (reqs : list name)
| TPoly (ps : list typaram) (i o : list ty) (reqs : list name)
| TOpaque (ext id : name) (args : list tyarg) (b : bound)
| TExt (d : typedef) (args : list tyarg) (c : extclass)
with tyarg :=
| AType (t : ty) | ANat (n : N) | AString (s : name) | ASeq (l : list tyarg)
| AExts (es : list name) | AVar (i : nat) (p : typaram).

(* ---- induction principle through the nested lists ---- *)
Section Ind.
  Variables (P : ty -> Prop) (Q : tyarg -> Prop).
  Hypothesis HSum : forall rows, Forall (Forall P) rows -> P (TSum rows).
  Hypothesis HUnit : forall n, P (TUnitSum n).
  Hypothesis HVar : forall i b, P (TVar i b).
  Hypothesis HRow : forall i b, P (TRowVar i b).
  Hypothesis HUSize : P TUSize.
  Hypothesis HQubit : P TQubit.
  Hypothesis HAlias : forall n b, P (TAlias n b).
  Hypothesis HFunc : forall i o r, Forall P i -> Forall P o -> P (TFunc i o r).
  Hypothesis HPoly : forall ps i o r, Forall P i -> Forall P o -> P (TPoly ps i o r).
  Hypothesis HOpaque : forall e id args b, Forall Q args -> P (TOpaque e id args b).
  Hypothesis HExt : forall d args c, Forall Q args -> P (TExt d args c).
  Hypothesis HAType : forall t, P t -> Q (AType t).
  Hypothesis HANat : forall n, Q (ANat n).
  Hypothesis HAString : forall s, Q (AString s).
  Hypothesis HASeq : forall l, Forall Q l -> Q (ASeq l).
  Hypothesis HAExts : forall es, Q (AExts es).
  Hypothesis HAVar : forall i p, Q (AVar i p).

  Fixpoint ty_ind2 (t : ty) : P t :=
    let fix row (l : list ty) : Forall P l :=
      match l with [] => Forall_nil _ | x :: r => Forall_cons x (ty_ind2 x) (row r) end in
    let fix rows (l : list (list ty)) : Forall (Forall P) l :=
      match l with [] => Forall_nil _ | x :: r => Forall_cons x (row x) (rows r) end in
    let fix args (l : list tyarg) : Forall Q l :=
      match l with [] => Forall_nil _ | x :: r => Forall_cons x (tyarg_ind2 x) (args r) end in
    match t with
    | TSum rs => HSum rs (rows rs)
    | TUnitSum n => HUnit n
    | TVar i b => HVar i b
    | TRowVar i b => HRow i b
    | TUSize => HUSize
    | TQubit => HQubit
    | TAlias n b => HAlias n b
    | TFunc i o r => HFunc i o r (row i) (row o)
    | TPoly ps i o r => HPoly ps i o r (row i) (row o)
    | TOpaque e id a b => HOpaque e id a b (args a)
    | TExt d a c => HExt d a c (args a)
    end
  with tyarg_ind2 (a : tyarg) : Q a :=
    let fix args (l : list tyarg) : Forall Q l :=
      match l with [] => Forall_nil _ | x :: r => Forall_cons x (tyarg_ind2 x) (args r) end in
    match a with
    | AType t => HAType t (ty_ind2 t)
    | ANat n => HANat n
    | AString s => HAString s
    | ASeq l => HASeq l (args l)
    | AExts es => HAExts es
    | AVar i p => HAVar i p
    end.
End Ind.

(* ---- TypeBound.join (_serialization/tys.py:373-382) ---- *)
Definition join2 (res b : bound) : bound := match b with Any => Any | Copyable => res end.
Definition join (bs : list bound) : bound :=
  (fix go (res : bound) (l : list bound) : bound :=
     match l with
     | [] => res
     | Any :: _ => Any
     | b :: r => go (match res with Copyable => b | _ => res end) r
     end) Copyable bs.

Fixpoint mapO {A B} (f : A -> option B) (l : list A) : option (list B) :=
  match l with
  | [] => Some []
  | x :: r => match f x, mapO f r with Some y, Some ys => Some (y :: ys) | _, _ => None end
  end.

(* ---- type_bound for every class; None = the Python code raises ---- *)
Fixpoint tbound (t : ty) : option bound :=
  let fix row (l : list ty) : option (list bound) :=
    match l with
    | [] => Some []
    | x :: r => match tbound x, row r with Some b, Some bs => Some (b :: bs) | _, _ => None end
    end in
  let fix rows (l : list (list ty)) : option (list bound) :=
    match l with
    | [] => Some []
    | x :: r => match row x, rows r with Some b, Some bs => Some (b ++ bs) | _, _ => None end
    end in
  (* bounds of the type arguments at the given indices; a non-type argument is skipped, an index out of
     range raises IndexError *)
  let fix at_idx (l : list tyarg) (i : nat) : option (option bound) :=
    match l, i with
    | [], _ => None
    | AType t' :: _, O => match tbound t' with Some b => Some (Some b) | None => None end
    | _ :: _, O => Some None
    | _ :: r, S k => at_idx r k
    end in
  match t with
  | TSum rs => match rows rs with Some bs => Some (join bs) | None => None end   (* Sum.type_bound *)
  | TUnitSum _ => Some Copyable                       (* Sum.type_bound over empty rows *)
  | TVar _ b | TRowVar _ b | TAlias _ b => Some b
  | TUSize => Some Copyable
  | TQubit => Some Any
  | TFunc _ _ _ | TPoly _ _ _ _ => Some Copyable
  | TOpaque _ _ _ b => Some b
  | TExt d args Generic =>
      match td_bound d with
      | Explicit b => Some b
      | FromParams idx =>
          (fix go (l : list nat) (acc : list bound) : option bound :=
             match l with
             | [] => Some (join (rev acc))
             | i :: r => match at_idx args i with
                         | None => None
                         | Some (Some b) => go r (b :: acc)
                         | Some None => go r acc
                         end
             end) idx []
      end
  | TExt d args (ElemAt i) =>                         (* self.ty.type_bound(): asserts a TypeTypeArg *)
      match at_idx args i with Some (Some b) => Some b | _ => None end
  end.

(* StaticArray.__init__: join(ty.type_bound(), Copyable) != Copyable -> ValueError *)
Definition static_array_accepts (elem : ty) : option bool :=
  match tbound elem with Some b => Some (bound_eqb (join [b; Copyable]) Copyable) | None => None end.

(* ExtType._to_opaque: the bound written into the serialised form is the computed one *)
Definition to_opaque (t : ty) : option ty :=
  match t with
  | TExt d args c => match tbound t with Some b => Some (TOpaque (td_ext d) (td_name d) args b) | None => None end
  | _ => None
  end.

(* top-level versions of the local loops of [tbound], used to state unfolding lemmas *)
Definition at_idx (args : list tyarg) (i : nat) : option (option bound) :=
  match nth_error args i with
  | None => None
  | Some (AType t') => match tbound t' with Some b => Some (Some b) | None => None end
  | Some _ => Some None
  end.
Fixpoint from_params (args : list tyarg) (idx : list nat) (acc : list bound) : option bound :=
  match idx with
  | [] => Some (join (rev acc))
  | i :: r => match at_idx args i with
              | None => None
              | Some (Some b) => from_params args r (b :: acc)
              | Some None => from_params args r acc
              end
  end.

(* the std subclasses agree with their definitions: class ElemAt i is used only with a definition whose
   bound is FromParams [i] (Array, List), or Explicit Copyable with a copyable element (StaticArray, whose
   constructor enforces it) *)
Definition defbound_eqb (a b : defbound) : bool :=
  match a, b with
  | Explicit x, Explicit y => bound_eqb x y
  | FromParams x, FromParams y => list_eqb Nat.eqb x y
  | _, _ => false
  end.
Fixpoint classes_ok (t : ty) : bool :=
  let fix row (l : list ty) : bool := match l with [] => true | x :: r => classes_ok x && row r end in
  let fix rows (l : list (list ty)) : bool := match l with [] => true | x :: r => row x && rows r end in
  let fix args (l : list tyarg) : bool := match l with [] => true | x :: r => arg_ok x && args r end in
  match t with
  | TSum rs => rows rs
  | TFunc i o _ | TPoly _ i o _ => row i && row o
  | TOpaque _ _ a _ => args a
  | TExt d a c =>
      args a &&
      match c with
      | Generic => true
      | ElemAt i =>
          defbound_eqb (td_bound d) (FromParams [i]) ||
          (defbound_eqb (td_bound d) (Explicit Copyable) &&
           match at_idx a i with Some (Some Copyable) => true | _ => false end)
      end
  | _ => true
  end
with arg_ok (a : tyarg) : bool :=
  let fix args (l : list tyarg) : bool := match l with [] => true | x :: r => arg_ok x && args r end in
  match a with
  | AType t => classes_ok t
  | ASeq l => args l
  | _ => true
  end.

(* ---- additions for C07 (owner: C07 builder; additive only) ---- *)
(* bounds of all elements of all rows, in order (the generator expression in Sum.type_bound) *)
Definition row_bounds (l : list ty) : option (list bound) := mapO tbound l.
Fixpoint rows_bounds (l : list (list ty)) : option (list bound) :=
  match l with
  | [] => Some []
  | x :: r => match row_bounds x, rows_bounds r with Some b, Some bs => Some (b ++ bs) | _, _ => None end
  end.

(* the extension-type nodes (definition-backed or opaque) that `_to_serial` visits, in pre-order: each of
   them is written as a serial `Opaque` record carrying a bound *)
Fixpoint ser_exts (t : ty) : list ty :=
  let fix row (l : list ty) : list ty := match l with [] => [] | x :: r => ser_exts x ++ row r end in
  let fix rows (l : list (list ty)) : list ty := match l with [] => [] | x :: r => row x ++ rows r end in
  let fix args (l : list tyarg) : list ty := match l with [] => [] | x :: r => arg_exts x ++ args r end in
  match t with
  | TSum rs => rows rs
  | TFunc i o _ | TPoly _ i o _ => row i ++ row o
  | TOpaque _ _ a _ => t :: args a
  | TExt _ a _ => t :: args a
  | _ => []
  end
with arg_exts (a : tyarg) : list ty :=
  let fix args (l : list tyarg) : list ty := match l with [] => [] | x :: r => arg_exts x ++ args r end in
  match a with
  | AType t => ser_exts t
  | ASeq l => args l
  | _ => []
  end.
(* the `bound` fields of the serial Opaque records, in document order; ExtType._to_serial goes through
   _to_opaque, which calls type_bound() *)
Definition ser_bounds (t : ty) : option (list bound) := mapO tbound (ser_exts t).
