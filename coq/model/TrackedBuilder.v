(* C15 x C01 — from the explicit (plain-builder) programs of model/Tracked.v to the builder programs of
   model/Builder.v, for the fragment both models have: a Dfg root, add_op / add / extend of leaf operations
   (an operation with a fixed signature, a Tag, Noop / MakeTuple / UnpackTuple), one final set_outputs.

   model/Tracked.v names a wire (node name, out offset), node names by creation order (0 = Input, 1 = Output,
   k+2 = k-th added node) and knows nothing about types; model/Builder.v names wires by identifiers bound by
   the statements and nodes by their index in the graph store (0 = the root DFG, 1 = Input, 2 = Output, k+3).
   The translation: the wire (n, j) becomes the identifier `wenc (n, j)`; the statement of the k-th added node
   binds the identifiers of its outputs 0 .. op_out-1; the typed description of the operation (Builder.opspec)
   of the k-th added node is the k-th entry of a list `specs` given alongside the program (Tracked.v's `opd`
   carries only the identity of the operation object and its number of outputs).  Metadata does not reach the
   validity predicate and is dropped.
   No proofs here. *)
From Coq Require Import ZArith NArith List Bool Arith.
Import ListNotations.
From HV Require Import lib.Harness model.Validity model.Builder model.Tracked spec.TrackedS.
Local Open Scope N_scope.

(* an injective numbering of wires: (n + j)^2 + j *)
Definition wenc (w : wire) : wid := (fst w + snd w) * (fst w + snd w) + snd w.

(* the identifiers of outputs 0 .. k-1 of node n *)
Definition res_wires (n : N) (k : N) : list wid := map (fun j => wenc (n, N.of_nat j)) (seq 0 (N.to_nat k)).

Definition spec_at (specs : list opspec) (k : nat) : opspec := nth k specs ONoop.

(* the statements of the adds, and the arguments of the first set_outputs (what follows it is not translated:
   `frag` below demands that nothing follows).  k counts the nodes added so far. *)
Fixpoint to_stmts (specs : list opspec) (k : nat) (q : list pcmd) : stmts * list wid :=
  match q with
  | [] => (SNil, [])
  | PAdd op _ ws :: r =>
      let '(b, o) := to_stmts specs (S k) r in
      (SCons (SOp (2 + N.of_nat k) (spec_at specs k) (map wenc ws) (res_wires (2 + N.of_nat k) (op_out op))) b, o)
  | PSetOutputs ws :: _ => (SNil, map wenc ws)
  end.

Definition to_builder (ins : row) (specs : list opspec) (q : list pcmd) : prog :=
  let '(b, o) := to_stmts specs 0 q in
  PDfg ins (Region (res_wires NIN (lenN ins)) b o).

(* the fragment: adds, then exactly one set_outputs, which ends the program *)
Fixpoint frag (q : list pcmd) : bool :=
  match q with
  | [] => false
  | [PSetOutputs _] => true
  | PAdd _ _ _ :: r => frag r
  | PSetOutputs _ :: _ => false
  end.

(* the same on the tracked program: no set_*_outputs before the last command, which is one *)
Definition is_set_outputs (c : cmd) : bool :=
  match c with SetIndexedOutputs _ | SetTrackedOutputs => true | _ => false end.
Fixpoint tfrag (p : list cmd) : bool :=
  match p with
  | [] => false
  | [c] => is_set_outputs c
  | c :: r => negb (is_set_outputs c) && tfrag r
  end.

(* the explicit program of a tracked program (spec/TrackedS.v) *)
Definition explicit_prog (nin : N) (track : bool) (p : list cmd) : list pcmd := fst (fst (explicit nin track p)).

(* ------------------------------------------------------------------ the document of a Tracked.hugr *)
(* a link of the node/link log as an edge of the document: node names move up by one (the root is node 0) *)
Definition shift_link (l : link) : edge :=
  {| e_src := fst (fst l) + 1; e_soff := Some (snd (fst l)); e_dst := fst (snd l) + 1; e_doff := Some (snd (snd l)) |}.
Definition child (o : vop) : vnode := {| n_op := o; n_parent := 0 |}.
(* root DFG, Input, Output, then the added nodes in creation order, all children of the root; the links of the
   log in insertion order *)
Definition doc_of (ins outs : row) (ops : list vop) (h : hugr) : graph :=
  {| g_nodes := child (DFG ins outs) :: child (Input ins) :: child (Output outs) :: map child ops;
     g_edges := map shift_link (h_links h) |}.
