(* Structural equality of API-level types, and the normal form under which the specification compares types:
   an extension type is identified with the opaque type it serialises to (ExtType._to_opaque), and a unit sum
   with the general sum of empty rows (tys.Sum.__eq__ compares variant_rows; hugr-core normalises likewise).
   Definitions only; proofs are in proofs/ValuesP.v. *)
From Coq Require Import NArith List Bool Arith.
Import ListNotations.
From HV Require Import lib.Harness model.Types.

Fixpoint typaram_eqb (a b : typaram) : bool :=
  let fix ps (l m : list typaram) : bool :=
    match l, m with [], [] => true | x :: r, y :: s => typaram_eqb x y && ps r s | _, _ => false end in
  match a, b with
  | PType x, PType y => bound_eqb x y
  | PNat x, PNat y => option_eqb N.eqb x y
  | PString, PString => true
  | PList x, PList y => typaram_eqb x y
  | PTuple x, PTuple y => ps x y
  | PExts, PExts => true
  | _, _ => false
  end.
Definition typedef_eqb (a b : typedef) : bool :=
  N.eqb (td_ext a) (td_ext b) && N.eqb (td_name a) (td_name b) && N.eqb (td_descr a) (td_descr b) &&
  list_eqb typaram_eqb (td_params a) (td_params b) && defbound_eqb (td_bound a) (td_bound b).
Definition extclass_eqb (a b : extclass) : bool :=
  match a, b with Generic, Generic => true | ElemAt i, ElemAt j => Nat.eqb i j | _, _ => false end.

Fixpoint ty_eqb (a b : ty) {struct a} : bool :=
  let fix row (l m : list ty) : bool :=
    match l, m with [] , [] => true | x :: r, y :: s => ty_eqb x y && row r s | _, _ => false end in
  let fix rows (l m : list (list ty)) : bool :=
    match l, m with [], [] => true | x :: r, y :: s => row x y && rows r s | _, _ => false end in
  let fix args (l m : list tyarg) : bool :=
    match l, m with [], [] => true | x :: r, y :: s => tyarg_eqb x y && args r s | _, _ => false end in
  match a, b with
  | TSum x, TSum y => rows x y
  | TUnitSum n, TUnitSum m => Nat.eqb n m
  | TVar i x, TVar j y | TRowVar i x, TRowVar j y => Nat.eqb i j && bound_eqb x y
  | TUSize, TUSize | TQubit, TQubit => true
  | TAlias n x, TAlias m y => N.eqb n m && bound_eqb x y
  | TFunc i o r, TFunc i' o' r' => row i i' && row o o' && list_eqb N.eqb r r'
  | TPoly ps i o r, TPoly ps' i' o' r' => list_eqb typaram_eqb ps ps' && row i i' && row o o' && list_eqb N.eqb r r'
  | TOpaque e id x b, TOpaque e' id' y b' => N.eqb e e' && N.eqb id id' && args x y && bound_eqb b b'
  | TExt d x c, TExt d' y c' => typedef_eqb d d' && args x y && extclass_eqb c c'
  | _, _ => false
  end
with tyarg_eqb (a b : tyarg) {struct a} : bool :=
  let fix args (l m : list tyarg) : bool :=
    match l, m with [], [] => true | x :: r, y :: s => tyarg_eqb x y && args r s | _, _ => false end in
  match a, b with
  | AType x, AType y => ty_eqb x y
  | ANat x, ANat y => N.eqb x y
  | AString x, AString y => N.eqb x y
  | ASeq x, ASeq y => args x y
  | AExts x, AExts y => list_eqb N.eqb x y
  | AVar i p, AVar j q => Nat.eqb i j && typaram_eqb p q
  | _, _ => false
  end.

Fixpoint tnorm (t : ty) : ty :=
  let fix row (l : list ty) : list ty := match l with [] => [] | x :: r => tnorm x :: row r end in
  let fix rows (l : list (list ty)) : list (list ty) := match l with [] => [] | x :: r => row x :: rows r end in
  let fix args (l : list tyarg) : list tyarg := match l with [] => [] | x :: r => anorm x :: args r end in
  match t with
  | TSum rs => TSum (rows rs)
  | TUnitSum n => TSum (repeat [] n)
  | TFunc i o r => TFunc (row i) (row o) r
  | TPoly ps i o r => TPoly ps (row i) (row o) r
  | TOpaque e id a b => TOpaque e id (args a) b
  | TExt d a c => TOpaque (td_ext d) (td_name d) (args a) (match tbound t with Some b => b | None => Any end)
  | _ => t
  end
with anorm (a : tyarg) : tyarg :=
  let fix args (l : list tyarg) : list tyarg := match l with [] => [] | x :: r => anorm x :: args r end in
  match a with
  | AType t => AType (tnorm t)
  | ASeq l => ASeq (args l)
  | _ => a
  end.

Definition same_tyb (a b : ty) : bool := ty_eqb (tnorm a) (tnorm b).
