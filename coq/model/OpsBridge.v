(* Bridge between the two operation models of the framework:
     C05  model/CodecOps.v  [CodecOps.op H]: the 21 serialised kinds + ExtOp + the sugar tags, with the derived
          facts [op_facts] an operation reports (signature rows BY ENCODED FORM, output count, static port type);
     C06  model/Ops.v       [Ops.op V]: every class of hugr.ops with outer/inner signature, port kinds, num_out,
          held against the typing relation of spec/OpsS.v.
   Both are written over the SAME type model (model/Types.v: ty / tyarg / typaram); they differ in the records
   used for function types (functype / polytype vs functy / polyfunc), in the operation type, in the constant
   payload (C05: the value model of model/CodecVals.v; C06: a parameter V with a typing function) and in what
   an answer looks like (C05: optional encoded rows; C06: [result] values over [ty]).
   This file only defines the translation and the two ways of reading C06's answers as C05 facts.  No proofs. *)
From Coq Require Import ZArith NArith List Bool Arith.
Import ListNotations.
From HV Require Import lib.Harness model.Types model.SerialTypes model.Codec model.CodecVals model.CodecOps.
From HV Require Import model.Ops spec.OpsS.
(* from here on the unqualified names op / OCall / variant_rows ... are those of model/Ops.v; the C05 ones are
   written CodecOps.op / CodecOps.OCall / Codec.variant_rows *)

(* ---- function types: two records over the same rows ---- *)
Definition fn (f : functype) : functy := mkF (ft_in f) (ft_out f) (ft_reqs f).
Definition pl (p : polytype) : polyfunc := mkP (pt_params p) (fn (pt_body p)).
Definition fn_inv (f : functy) : functype := FT (f_in f) (f_out f) (f_reqs f).
Definition pl_inv (p : polyfunc) : polytype := PT (p_params p) (fn_inv (p_body p)).

(* the C06 operations without a C05 counterpart *)
Definition c06_only {W} (o : op W) : bool :=
  match o with
  | OMakeTuple _ | OUnpackTuple _ | ONoop _ => true
  | OOutput None | ODFG _ None _ | OCFG _ None | OBlock _ None _ _ | OBlock _ _ None _ | OExit None
  | OLoadConst None | OConditional _ _ None | OCase _ None | OTailLoop _ _ None _ | OFuncDefn _ _ _ None
  | OCallIndirect None => true
  | OTag z _ => (z <? 0)%Z
  | _ => false
  end.

Section Bridge.
  Variable H : Type.                       (* payload of function-valued constants (C05) *)
  Variable h_type : H -> functype.         (* its root's inner signature *)

  (* C06's constant payload is C05's value model, typed by C05's [type_of] (val.Value.type_()) *)
  Definition V := value H.
  Definition vt (v : V) : result ty := Ret (type_of H h_type v).
  Definition ct (v : V) : option ty := Some (type_of H h_type v).

  (* ---- the translation.  Total: every C05 operation kind has a C06 counterpart (C06 additionally has
     MakeTuple / UnpackTuple / Noop as classes of their own -- C05 sees them through .ext_op as ExtOp -- and the
     partial operations a builder still has to complete: optional fields None). ---- *)
  Definition to_c06 (o : CodecOps.op H) : op V :=
    match o with
    | CodecOps.OModule => OModule
    | CodecOps.OFuncDefn nm i ps os => OFuncDefn nm i ps (Some os)
    | CodecOps.OFuncDecl nm sig => OFuncDecl nm (pl sig)
    | CodecOps.OConst v => OConst v
    | CodecOps.ODataflowBlock i s oo d => OBlock i (Some s) (Some oo) d
    | CodecOps.OExitBlock os => OExit (Some os)
    | CodecOps.OInput ts => OInput ts
    | CodecOps.OOutput ts => OOutput (Some ts)
    | CodecOps.OCall sig inst ta => OCall (pl sig) (fn inst) ta
    | CodecOps.OCallIndirect sig => OCallIndirect (Some (fn sig))
    | CodecOps.OLoadConst t => OLoadConst (Some t)
    | CodecOps.OLoadFunc sig inst ta => OLoadFunc (pl sig) (fn inst) ta
    | CodecOps.ODFG i os d => ODFG i (Some os) d
    | CodecOps.OConditional s oi os => OConditional s oi (Some os)
    | CodecOps.OCase i os => OCase i (Some os)
    | CodecOps.OTailLoop ji rest jo d => OTailLoop ji rest (Some jo) d
    | CodecOps.OCFG i os => OCFG i (Some os)
    | CodecOps.OCustom nm sig descr e args => OCustom e nm descr (fn sig) args
    | CodecOps.OExtOp d sig args => OExtOp (od_ext d) (od_name d) (option_map pl (od_poly d)) (option_map fn sig) args
    | CodecOps.OTag tag s => OTag (Z.of_N tag) s
    | CodecOps.OAliasDecl nm b => OAliasDecl nm b
    | CodecOps.OAliasDefn nm t => OAliasDefn nm t
    end.

  (* the converse, where there is one: complete operations other than MakeTuple / UnpackTuple / Noop with a
     non-negative tag.  (An ExtOp's description is not part of C06's model: the empty name 0 is put back.) *)
  Definition of_c06 (o : op V) : option (CodecOps.op H) :=
    match o with
    | OModule => Some CodecOps.OModule
    | OFuncDefn nm i ps (Some os) => Some (CodecOps.OFuncDefn nm i ps os)
    | OFuncDecl nm sig => Some (CodecOps.OFuncDecl nm (pl_inv sig))
    | OConst v => Some (CodecOps.OConst v)
    | OBlock i (Some s) (Some oo) d => Some (CodecOps.ODataflowBlock i s oo d)
    | OExit (Some os) => Some (CodecOps.OExitBlock os)
    | OInput ts => Some (CodecOps.OInput ts)
    | OOutput (Some ts) => Some (CodecOps.OOutput ts)
    | OCall sig inst ta => Some (CodecOps.OCall (pl_inv sig) (fn_inv inst) ta)
    | OCallIndirect (Some sig) => Some (CodecOps.OCallIndirect (fn_inv sig))
    | OLoadConst (Some t) => Some (CodecOps.OLoadConst t)
    | OLoadFunc sig inst ta => Some (CodecOps.OLoadFunc (pl_inv sig) (fn_inv inst) ta)
    | ODFG i (Some os) d => Some (CodecOps.ODFG i os d)
    | OConditional s oi (Some os) => Some (CodecOps.OConditional s oi os)
    | OCase i (Some os) => Some (CodecOps.OCase i os)
    | OTailLoop ji rest (Some jo) d => Some (CodecOps.OTailLoop ji rest jo d)
    | OCFG i (Some os) => Some (CodecOps.OCFG i os)
    | OCustom e nm descr sig args => Some (CodecOps.OCustom nm (fn_inv sig) descr e args)
    | OExtOp e nm dsig sig args =>
        Some (CodecOps.OExtOp {| od_ext := e; od_name := nm; od_descr := 0%N; od_poly := option_map pl_inv dsig |}
                              (option_map fn_inv sig) args)
    | OTag z s => if (z <? 0)%Z then None else Some (CodecOps.OTag (Z.to_N z) s)
    | OAliasDecl nm b => Some (CodecOps.OAliasDecl nm b)
    | OAliasDefn nm t => Some (CodecOps.OAliasDefn nm t)
    | _ => None
    end.
  (* ---- what C06's model reports for an operation, in C06's own vocabulary ---- *)
  Definition static_kind (r : result kind) : option kind :=
    match r with
    | Ret (ConstKind t) => Some (ConstKind t)
    | Ret (FunctionKind p) => Some (FunctionKind p)
    | _ => None
    end.
  Definition first_some {A} (a b : option A) : option A := match a with Some _ => a | None => b end.
  (* the static port sits right after the value ports (which are those of the dataflow signature, none if
     the operation has no dataflow signature): incoming for Call / LoadConst / LoadFunc, outgoing for Const /
     FuncDefn / FuncDecl *)
  Definition c06_static (o : op V) : option kind :=
    let '(ni, no) := match df_sig o with Ret f => (zlen (f_in f), zlen (f_out f)) | Raise _ => (0, 0)%Z end in
    first_some (static_kind (port_kind vt o In ni)) (static_kind (port_kind vt o Out no)).
  Record reports := { r_outer : result functy;       (* df_sig: outer_signature(), for Call the instantiation *)
                      r_inner : result functy;       (* inner_signature() *)
                      r_num_out : result Z;          (* num_out *)
                      r_static : option kind }.      (* kind of the static port, if the operation has one *)
  Definition c06_reports (o : op V) : reports :=
    {| r_outer := df_sig o; r_inner := inner_sig o; r_num_out := num_out o; r_static := c06_static o |}.

  (* ... and the same according to the SPECIFICATION (spec/OpsS.v), no model function involved *)
  Record assigned := { a_sig : option rows; a_inner : option rows; a_num_out : option nat; a_static : option kind }.
  Definition c06_assigned (o : op V) : assigned :=
    {| a_sig := spec_sig o; a_inner := spec_inner_sig o; a_num_out := spec_num_out o;
       a_static := first_some (static_port ct o In) (static_port ct o Out) |}.

  (* ---- reading C06 answers as C05 facts: rows by encoded form up to Python equality ([enc]), a function
     kind as C05 records it ([poly_enc]: the body's encoded rows and requirements) ---- *)
  Definition enc_rows (r : list ty * list ty) : list sty * list sty := (encs (fst r), encs (snd r)).
  Definition enc_sig (r : result functy) : option (list sty * list sty) :=
    match r with Ret f => Some (enc_rows (f_in f, f_out f)) | Raise _ => None end.
  Definition enc_kind (k : kind) : option sty :=
    match k with
    | ConstKind t => Some (enc t)
    | FunctionKind p => Some (poly_enc (pl_inv p))
    | _ => None
    end.
  Definition obind {A B} (o : option A) (f : A -> option B) : option B := match o with Some a => f a | None => None end.
  Definition enc_reports (r : reports) : facts :=
    {| f_outer := enc_sig (r_outer r); f_inner := enc_sig (r_inner r);
       f_num_out := match r_num_out r with Ret z => Some (Z.to_N z) | Raise _ => None end;
       f_static := obind (r_static r) enc_kind |}.
  Definition enc_assigned (a : assigned) : facts :=
    {| f_outer := option_map enc_rows (a_sig a); f_inner := option_map enc_rows (a_inner a);
       f_num_out := option_map N.of_nat (a_num_out a); f_static := obind (a_static a) enc_kind |}.

  (* where the two models answer alike: C05's [op_facts] fills the places where the code raises with defaults
     (a block over a non-sum: 0 successors; an extension operation with neither a cached signature nor a
     monomorphic declared scheme: the empty signature), C06's model raises there.  Both are excluded by C05's
     own guard [op_ok] (the object could not have been encoded). *)
  Definition bridge_ok (o : CodecOps.op H) : bool :=
    match o with
    | CodecOps.ODataflowBlock _ s _ _ => has_rows s
    | CodecOps.OExtOp d sig _ => match extop_sig d sig with Some _ => true | None => false end
    | _ => true
    end.
  (* the specification assigns an output count to every operation except a Tag whose tag is not a variant *)
  Definition tag_in_range (o : CodecOps.op H) : bool :=
    match o with
    | CodecOps.OTag tag s => match nth_error (rows_of s) (N.to_nat tag) with Some _ => true | None => false end
    | _ => true
    end.

  (* ---- agreement of answers up to the encoding (= up to Python equality of types) ---- *)
  Definition ty_same (a b : ty) : Prop := enc a = enc b.
  Definition row_same (a b : list ty) : Prop := encs a = encs b.
  Definition rows_same (a b : rows) : Prop := enc_rows a = enc_rows b.
  Definition kind_same (a b : kind) : Prop :=
    match a, b with
    | ValueKind x, ValueKind y | ConstKind x, ConstKind y => ty_same x y
    | FunctionKind p, FunctionKind q =>
        p_params p = p_params q /\ row_same (f_in (p_body p)) (f_in (p_body q)) /\
        row_same (f_out (p_body p)) (f_out (p_body q)) /\ f_reqs (p_body p) = f_reqs (p_body q)
    | CFKind, CFKind | OrderKind, OrderKind => True
    | _, _ => False
    end.
  Definition pspec_same (a b : pspec) : Prop :=
    match a, b with
    | Port k, Port k' => kind_same k k'
    | NoPort, NoPort | Unspecified, Unspecified => True
    | _, _ => False
    end.

  (* replacing the constant payload (used by the run module: C06's cases carry the constant's type) *)
  Definition op_mapV {W} (f : V -> W) (o : op V) : op W :=
    match o with
    | OInput ts => OInput ts | OOutput ts => OOutput ts
    | OCustom e n d s a => OCustom e n d s a | OExtOp e n d s a => OExtOp e n d s a
    | OMakeTuple ts => OMakeTuple ts | OUnpackTuple ts => OUnpackTuple ts | ONoop t => ONoop t
    | OTag z s => OTag z s | ODFG i o d => ODFG i o d | OCFG i o => OCFG i o
    | OBlock i s oo d => OBlock i s oo d | OExit os => OExit os
    | OConst v => OConst (f v)
    | OLoadConst t => OLoadConst t | OConditional s oi os => OConditional s oi os | OCase i os => OCase i os
    | OTailLoop a b c d => OTailLoop a b c d | OFuncDefn n i ps os => OFuncDefn n i ps os
    | OFuncDecl n s => OFuncDecl n s | OModule => OModule
    | OCall s i a => OCall s i a | OCallIndirect s => OCallIndirect s | OLoadFunc s i a => OLoadFunc s i a
    | OAliasDecl n b => OAliasDecl n b | OAliasDefn n t => OAliasDefn n t
    end.
End Bridge.

Arguments to_c06 {H}. Arguments of_c06 {H}. Arguments bridge_ok {H}. Arguments tag_in_range {H}.
Arguments op_mapV {H W}.
