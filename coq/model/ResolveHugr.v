(* C11, second pass — `Hugr.resolve_extensions` on the whole HUGR (hugr-py/src/hugr/hugr/base.py), over the
   API-level HUGR record of model/SerialHugr.v (C02: node table with holes, per node the operation, parent,
   ordered children, metadata, recorded port counts; links in `links()` order; root), instantiated with C11's
   operation model (model/Resolve.v) extended by the operations that can hold a HUGR of their own: constants
   with function values (`ops.Const(val.Function(body))`, possibly inside sum / tuple values).

   `resolve_extensions` replaces the `Custom` operations of the nodes of the HUGR it is called on and nothing else;
   (the free choice of the description of a resolved operation is the oracle [keep] of model/Resolve.v);
   the HUGRs inside constants are part of the frame (they are in the model because the dump, the serialised
   document and the frame statement speak about them).  No proofs in this file. *)
From Coq Require Import NArith List Bool Arith.
Import ListNotations.
From HV Require Import lib.Harness model.Types model.Resolve model.SerialHugr.

(* metadata dicts are interned by the harness; 0 = {} *)
Definition md := N.
Definition md_is_nil (m : md) : bool := N.eqb m 0.

(* ---- operations of a node ---- *)
Inductive hop :=
| HOp (o : op)                    (* ops.Custom / ops.ExtOp (model/Resolve.v) *)
| HOther (k : N) (din dout : option nat) (outs : list (option ty))
                                  (* any other operation without a HUGR inside: its interned serial form, what
                                     `_num_dataflow_ports` gives for it, what `Hugr.port_type` shows for its out ports *)
| HConst (v : cval)               (* ops.Const *)
with cval :=
| VFunc (body : hugr hop md)      (* val.Function *)
| VSum (k : N) (vs : list cval)   (* val.Sum and its subclasses: interned (kind, tag, type), the element values *)
| VLeaf (k : N).                  (* val.Extension: interned serial form *)

Definition hugrT := hugr hop md.
Definition nodeT := node hop md.

(* ---- the node table with one field rewritten ---- *)
Section Map.
  Context {A B M : Type}.
  Variable f : A -> B.
  Definition map_node (n : node A M) : node B M :=
    {| n_op := f (n_op n); n_parent := n_parent n; n_children := n_children n; n_md := n_md n;
       n_nin := n_nin n; n_nout := n_nout n |}.
  Definition map_hugr (h : hugr A M) : hugr B M :=
    {| h_nodes := map (option_map map_node) (h_nodes h); h_root := h_root h; h_links := h_links h |}.
End Map.

(* ---- the loop body of Hugr.resolve_extensions: only `Custom` operations are replaced.  A `Const` node is not
   touched, whatever its value holds: the HUGR of a function value keeps its opaque operations (hugr-core's
   resolve_value_exts descends into them; hugr-py does not, and the property speaks of the operations of the HUGR
   being resolved only) ---- *)
Definition resolve_hop (reg : registry) (keep : descr_choice) (o : hop) : hop :=
  match o with
  | HOp o => HOp (resolve_op reg keep o)                             (* isinstance(op, Custom): op.resolve(registry) *)
  | HConst _ => o
  | HOther _ _ _ _ => o
  end.

(* ---- Hugr.resolve_extensions as the loop it is: `for node in self: self[node].op = ...` ---- *)
Definition with_op (n : nodeT) (o : hop) : nodeT :=
  {| n_op := o; n_parent := n_parent n; n_children := n_children n; n_md := n_md n;
     n_nin := n_nin n; n_nout := n_nout n |}.
(* self[node].op = o *)
Definition set_op (h : hugrT) (i : nat) (o : hop) : hugrT :=
  match get_node h i with
  | Some n => {| h_nodes := set_nth (h_nodes h) i (Some (with_op n o)); h_root := h_root h; h_links := h_links h |}
  | None => h
  end.
Definition resolve_step (reg : registry) (keep : descr_choice) (h : hugrT) (i : nat) : hugrT :=
  match get_node h i with
  | Some n => set_op h i (resolve_hop reg keep (n_op n))
  | None => h
  end.
(* iteration is over the live indices in increasing order; assigning `op` fields does not change them *)
Definition resolve_extensions (reg : registry) (keep : descr_choice) (h : hugrT) : hugrT :=
  fold_left (resolve_step reg keep) (live h) h.

(* ---- the serialised document ---- *)
(* serial operations: an Extension operation is a [custom] over serial types (written OCustom, as in
   model/Resolve.v), a Const holds a serial value, a FunctionValue holds the serial document of its body *)
Inductive sop :=
| SOp (o : op)
| SOther (k : N)
| SConst (v : sval)
with sval :=
| SVFunc (d : serial sop md)
| SVSum (k : N) (vs : list sval)
| SVLeaf (k : N).
Definition serialT := serial sop md.

(* ops._num_dataflow_ports *)
Definition hop_ndp (o : hop) (d : dir) : option nat :=
  match o with
  | HOp o => match outer_signature o with
             | Some f => Some (length (match d with DIn => ft_in f | DOut => ft_out f end))
             | None => None
             end
  | HOther _ din dout _ => match d with DIn => din | DOut => dout end
  | HConst _ => None
  end.

(* an operation that raises when serialised makes the whole call raise *)
Definition seq_snode {S} (n : snode (option S)) : option (snode S) :=
  match s_op n with Some o => Some {| s_op := o; s_parent := s_parent n |} | None => None end.
Definition seq_serial {S M} (s : serial (option S) M) : option (serial S M) :=
  match omap seq_snode (s_nodes s) with
  | Some ns => Some {| s_nodes := ns; s_edges := s_edges s; s_meta := s_meta s |}
  | None => None
  end.

(* <Op>._to_serial without the parent field; None = it raises.  The body of a function value is serialised by
   Hugr._to_serial (model/SerialHugr.v: to_serial), written here over the node table paired with the encoded
   operations so that the recursion is structural (proofs/ResolveHugrP.v: ser_val_func_eq states it as
   `to_serial ser_hop hop_ndp md_is_nil body`). *)
Fixpoint ser_hop (o : hop) : option sop :=
  match o with
  | HOp o => option_map SOp (ser_op o)
  | HOther k _ _ _ => Some (SOther k)
  | HConst v => option_map SConst (ser_val v)
  end
with ser_val (v : cval) : option sval :=
  match v with
  | VFunc b =>
      match to_serial (@snd hop (option sop)) (fun p => hop_ndp (fst p)) md_is_nil
                      (map_hugr (fun o => (o, ser_hop o)) b) with
      | Some d => option_map SVFunc (seq_serial d)
      | None => None
      end
  | VSum k vs => option_map (SVSum k) (omap ser_val vs)
  | VLeaf k => Some (SVLeaf k)
  end.

(* Hugr._to_serial of the whole HUGR (the document `to_json` writes, without its header) *)
Definition hugr_doc (h : hugrT) : option serialT :=
  match to_serial ser_hop hop_ndp md_is_nil h with
  | Some d => seq_serial d
  | None => None
  end.

(* ---- Hugr.port_type of an out port: the operation's signature row for Custom / ExtOp *)
Definition op_out_type (o : hop) (k : nat) : option ty :=
  match o with
  | HOp o => match outer_signature o with Some f => nth_error (ft_out f) k | None => None end
  | HOther _ _ _ outs => match nth_error outs k with Some t => t | None => None end
  | HConst _ => None
  end.
Definition port_type (h : hugrT) (i k : nat) : option ty :=
  match get_node h i with Some n => op_out_type (n_op n) k | None => None end.
