(* Model of the error branches of the hugr-py builders (C13): the decision each refusing call takes,
   as a function of the part of the builder state it reads.
     build/dfg.py   DfBase._wire_up_port / _ancestral_sibling (NoSiblingAncestor), _get_dataflow_type and
                    _fn_sig (ValueError), Dfg.add with integers (ValueError, in model/Tracked.v: dfg_add),
                    Function.set_outputs (declared outputs, ValueError)
     build/cfg.py   Block._wire_up_port (NotInSameCfg), Cfg.branch_exit (MismatchedExit)
     build/cond_loop.py  Conditional.add_case / _update_outputs / __exit__, If.add_else (ConditionalError)
     __enter__/__exit__ of DfBase, Cfg, Conditional under Python's `with` statement (with_stmt, with_nest)
     ops.py         _CallOrLoad.__init__ (NoConcreteFunc), _check_complete (IncompleteOp)
     build/tracked_dfg.py  tracked_wire (IndexError, in model/Tracked.v)
   Types are an abstract set with decidable equality (Python's == on hugr.tys objects).  No proofs here. *)
From Coq Require Import ZArith NArith List Bool Arith.
Import ListNotations.
From HV Require Import lib.Harness model.Tracked.

Inductive eclass :=
| NoSiblingAncestor | NotInSameCfg | ConditionalError | MismatchedExit | ValueError
| NoConcreteFunc | IndexError | IncompleteOp | InvalidPort
| OutOfFuel.            (* artefact of the model's loops; shown never to occur on parent-first tables *)

Inductive res (S : Type) := Ok (s : S) | Err (e : eclass).
Arguments Ok {S}. Arguments Err {S}.
Definition rbind {A B} (r : res A) (f : A -> res B) : res B := match r with Ok a => f a | Err e => Err e end.

(* ------------------------------------------------------------------ hierarchy *)
Definition ptable := list (option nat).          (* node index -> parent index (None: no parent) *)
Definition parent_of (pt : ptable) (n : nat) : option nat :=
  match nth_error pt n with Some p => p | None => None end.
Definition onat_eqb (a b : option nat) : bool :=
  match a, b with Some x, Some y => Nat.eqb x y | None, None => true | _, _ => false end.

Inductive search := Found (n : nat) | NotFound | Fuel.

(* _ancestral_sibling(h, src, tgt): while (tgt_parent := h[tgt].parent) is not None:
       if tgt_parent == src_parent: return tgt;  tgt = tgt_parent *)
Fixpoint anc_sib (fuel : nat) (pt : ptable) (src_parent : option nat) (tgt : nat) : search :=
  match fuel with
  | O => Fuel
  | S f => match parent_of pt tgt with
           | None => NotFound
           | Some tp => if onat_eqb (Some tp) src_parent then Found tgt else anc_sib f pt src_parent tp
           end
  end.
Definition ancestral_sibling (pt : ptable) (src tgt : nat) : search :=
  anc_sib (S (length pt)) pt (parent_of pt src) tgt.

(* kind of the source port, as far as the builders look at it *)
Inductive pkind := KValue | KFunction | KConst | KOrder | KControl | KInvalid.

(* _get_dataflow_type: Hugr.port_type is None (or the order port has no type) -> ValueError *)
Definition dataflow_type (k : pkind) : res unit :=
  match k with KValue => Ok tt | _ => Err ValueError end.

(* DfBase._wire_up_port; Ok carries the state-order edge added for an inter-graph wire, if any *)
Definition wire_up_dfg (pt : ptable) (src tgt : nat) (k : pkind) : res (option (nat * nat)) :=
  match ancestral_sibling pt src tgt with
  | Fuel => Err OutOfFuel
  | NotFound => Err NoSiblingAncestor
  | Found a => rbind (dataflow_type k) (fun _ => Ok (if Nat.eqb a tgt then None else Some (src, a)))
  end.

(* Block._wire_up_port: on NoSiblingAncestor walk up from the source's parent looking for the CFG node:
     while cfg_node != src_parent:
         if src_parent is None or src_parent == self.hugr.root: raise NotInSameCfg
         src_parent = self.hugr[src_parent].parent *)
Fixpoint cfg_walk (fuel : nat) (pt : ptable) (cfg root : nat) (sp : option nat) : search :=
  match fuel with
  | O => Fuel
  | S f => if onat_eqb (Some cfg) sp then Found cfg
           else match sp with
                | None => NotFound
                | Some p => if Nat.eqb p root then NotFound else cfg_walk f pt cfg root (parent_of pt p)
                end
  end.
Definition wire_up_block (pt : ptable) (root cfg src tgt : nat) (k : pkind) : res (option (nat * nat)) :=
  match ancestral_sibling pt src tgt with
  | Fuel => Err OutOfFuel
  | Found a => rbind (dataflow_type k) (fun _ => Ok (if Nat.eqb a tgt then None else Some (src, a)))
  | NotFound => match cfg_walk (S (S (length pt))) pt cfg root (parent_of pt src) with
                | Fuel => Err OutOfFuel
                | NotFound => Err NotInSameCfg
                | Found _ => rbind (dataflow_type k) (fun _ => Ok None)
                end
  end.

(* DfBase._fn_sig: the port kind of func.out(0) must be FunctionKind; port_kind itself raises InvalidPort
   for operations without such a port *)
Definition fn_sig (k : pkind) : res unit :=
  match k with KFunction => Ok tt | KInvalid => Err InvalidPort | _ => Err ValueError end.

(* _CallOrLoad.__init__ *)
Definition call_or_load (nparams : nat) (inst : bool) (ntargs : nat) : res unit :=
  if Nat.eqb nparams 0 then Ok tt
  else if negb inst then Err NoConcreteFunc
  else if negb (Nat.eqb nparams ntargs) then Err NoConcreteFunc
  else Ok tt.
(* DfBase.call / load_function *)
Definition dfg_call (k : pkind) (nparams : nat) (inst : bool) (ntargs : nat) : res unit :=
  rbind (fn_sig k) (fun _ => call_or_load nparams inst ntargs).

(* ------------------------------------------------------------------ builders as context managers *)
(* Python's `with cm: body`: cm.__exit__ is always called when the body is left.  With an exception in flight
   it receives it, and the exception is SUPPRESSED iff __exit__ returns a true value; an exception raised by
   __exit__ itself replaces the one in flight.  `inflight`: the exception with which the body ended (None: it
   completed); `exit`: what __exit__ does (Err: raises; Ok b: returns b). *)
Definition with_stmt (inflight : option eclass) (exit : res bool) : option eclass :=
  match exit with
  | Err e' => Some e'
  | Ok suppress => match inflight with
                   | None => None
                   | Some e => if suppress then None else Some e
                   end
  end.
(* DfBase.__exit__ (Dfg, Function, Case, If, Else, Block, TailLoop) and Cfg.__exit__: `return None` *)
Definition plain_exit : res bool := Ok false.
(* a call inside n nested `with` blocks of such builders *)
Fixpoint with_plain (n : nat) (fl : option eclass) : option eclass :=
  match n with O => fl | S k => with_stmt (with_plain k fl) plain_exit end.
(* the context managers around a call: a builder whose __exit__ has nothing to check / the Conditional *)
Inductive ctxk := CxPlain | CxCond.

Section Rows.
  Variable T : Type.
  Variable teqb : T -> T -> bool.
  Definition row := list T.
  Definition row_eqb : row -> row -> bool := list_eqb teqb.

  (* ---------------------------------------------------------------- Conditional *)
  Record cond := mkCond { c_built : list bool; c_outs : option row }.

  Fixpoint set_true (l : list bool) (n : nat) : list bool :=
    match l, n with
    | [], _ => []
    | _ :: r, O => true :: r
    | b :: r, S n' => b :: set_true r n'
    end.

  (* Conditional.add_case (after the D18 repair: a negative index is out of range) *)
  Definition add_case (c : cond) (i : Z) : res cond :=
    if ((i <? 0) || (Z.of_nat (length (c_built c)) <=? i))%Z then Err ConditionalError
    else if nth (Z.to_nat i) (c_built c) false then Err ConditionalError
    else Ok (mkCond (set_true (c_built c) (Z.to_nat i)) (c_outs c)).

  (* Conditional._update_outputs, called by Case.set_outputs after the wires were connected *)
  Definition update_outputs (c : cond) (r : row) : res cond :=
    match c_outs c with
    | None => Ok (mkCond (c_built c) (Some r))
    | Some r0 => if row_eqb r r0 then Ok c else Err ConditionalError
    end.

  (* Conditional.__exit__ *)
  Definition cond_exit (c : cond) : res cond :=
    if forallb (fun b : bool => b) (c_built c) then Ok c else Err ConditionalError.

  (* add_if = add_conditional + add_case(1); If.add_else = add_case(0) on the parent conditional
     (ConditionalError when the If has no parent conditional) *)
  Definition add_else (parent : option cond) : res cond :=
    match parent with None => Err ConditionalError | Some c => add_case c 0%Z end.

  Inductive cond_op := OAddCase (i : Z) | OSetOutputs (r : row) | OExit.
  Definition cond_step (c : cond) (o : cond_op) : res cond :=
    match o with
    | OAddCase i => add_case c i
    | OSetOutputs r => update_outputs c r
    | OExit => cond_exit c
    end.
  (* a session in which the caller catches every exception and goes on: the state after a refused call
     is the state before it *)
  Fixpoint cond_run (c : cond) (os : list cond_op) : list (option eclass) * cond :=
    match os with
    | [] => ([], c)
    | o :: r => match cond_step c o with
                | Ok c' => let '(l, fin) := cond_run c' r in (None :: l, fin)
                | Err e => let '(l, fin) := cond_run c r in (Some e :: l, fin)
                end
    end.

  (* the body of a `with` block: the calls in sequence, NOT caught; the first exception ends the body.
     Result: the state when the body was left and the exception in flight *)
  Fixpoint cond_body (c : cond) (os : list cond_op) : cond * option eclass :=
    match os with
    | [] => (c, None)
    | o :: r => match cond_step c o with
                | Ok c' => cond_body c' r
                | Err e => (c, Some e)
                end
    end.
  (* Conditional.__exit__: raises when a case is unbuilt, else `return None` whatever is in flight *)
  Definition cond_ctx_exit (c : cond) : res bool :=
    match cond_exit c with Ok _ => Ok false | Err e => Err e end.
  Definition ctx_exit (c : cond) (k : ctxk) : res bool :=
    match k with CxPlain => plain_exit | CxCond => cond_ctx_exit c end.
  (* `with k1: with k2: ... body` (contexts outermost first; their exits run innermost first and do not
     change the conditional) *)
  Fixpoint with_nest (c : cond) (ctxs : list ctxk) (body : list cond_op) : cond * option eclass :=
    match ctxs with
    | [] => cond_body c body
    | k :: r => let '(c', fl) := with_nest c r body in (c', with_stmt fl (ctx_exit c' k))
    end.
  (* a statement of a session: a body inside zero or more contexts; the caller catches what leaves it *)
  Record cond_stmt := mkStmt { s_ctx : list ctxk; s_body : list cond_op }.
  Definition plain_stmt (o : cond_op) : cond_stmt := mkStmt [] [o].
  Fixpoint stmt_run (c : cond) (ss : list cond_stmt) : list (option eclass) * cond :=
    match ss with
    | [] => ([], c)
    | s :: r => let '(c', fl) := with_nest c (s_ctx s) (s_body s) in
                let '(l, fin) := stmt_run c' r in (fl :: l, fin)
    end.

  (* ---------------------------------------------------------------- Cfg.branch_exit *)
  Definition branch_exit (exit : option row) (out : row) : res (option row) :=
    match exit with
    | Some r0 => if row_eqb r0 out then Ok exit else Err MismatchedExit
    | None => Ok (Some out)
    end.
  Fixpoint exit_run (exit : option row) (outs : list row) : list (option eclass) * option row :=
    match outs with
    | [] => ([], exit)
    | o :: r => match branch_exit exit o with
                | Ok e' => let '(l, fin) := exit_run e' r in (None :: l, fin)
                | Err e => let '(l, fin) := exit_run exit r in (Some e :: l, fin)
                end
    end.

  (* ---------------------------------------------------------------- Function.set_outputs *)
  Definition fn_set_outputs (declared : option row) (given : row) : res unit :=
    match declared with
    | Some d => if row_eqb given d then Ok tt else Err ValueError
    | None => Ok tt
    end.

  (* ---------------------------------------------------------------- serialisation of incomplete ops *)
  (* an operation is a list of the fields _check_complete guards (None: not set during building) *)
  Definition opfields := list (option row).
  Definition check_complete (o : opfields) : res unit :=
    if forallb (fun f : option row => match f with Some _ => true | None => false end) o then Ok tt
    else Err IncompleteOp.
  Fixpoint serialise (nodes : list opfields) : res unit :=
    match nodes with
    | [] => Ok tt
    | o :: r => rbind (check_complete o) (fun _ => serialise r)
    end.
End Rows.

Arguments mkCond {T}. Arguments c_built {T}. Arguments c_outs {T}.
Arguments OAddCase {T}. Arguments OSetOutputs {T}. Arguments OExit {T}.
Arguments mkStmt {T}. Arguments s_ctx {T}. Arguments s_body {T}. Arguments plain_stmt {T}.

(* ------------------------------------------------------------------ integers as wires *)
(* plain builders (Dfg.add, model/Tracked.v dfg_add): ValueError; tracked builder: IndexError *)
Definition plain_add_decision (args : list arg) : res unit :=
  match all_wires args with Some _ => Ok tt | None => Err ValueError end.
Definition tracked_index_decision (tr : tracked) (i : Z) : res wire :=
  match tracked_wire tr i with Some w => Ok w | None => Err IndexError end.
