(* C17 — which regenerated constant is the file of which (family, configuration).  No proofs here. *)
From Coq Require Import List Bool String.
Import ListNotations.
From HV Require Import lib.Harness model.Schema model.SchemaSeq gen.Schemas.

Definition published (f : family) (strict : bool) : json :=
  match f, strict with
  | FHugr, false => published_hugr | FHugr, true => published_hugr_strict
  | FTesting, false => published_testing | FTesting, true => published_testing_strict
  end.
Definition generated (f : family) (strict : bool) : json :=
  match f, strict with
  | FHugr, false => generated_hugr | FHugr, true => generated_hugr_strict
  | FTesting, false => generated_testing | FTesting, true => generated_testing_strict
  end.
