(* The 21 serialised operation kinds (hugr.ops / _serialization/ops.py), both conversions, the derived
   facts (signature rows, output count) and the sugar tag operations.  Parametric in the payload of
   function-valued constants like model/CodecVals.v.  No proofs here. *)
From Coq Require Import NArith List Bool Arith.
Import ListNotations.
From HV Require Import lib.Harness model.Types model.SerialTypes model.Codec model.CodecVals.

(* an operation definition as far as ExtOp needs it (ext.OpDef: extension name, name, description, the
   declared type scheme if there is one) *)
Record opdef := { od_ext : name; od_name : name; od_descr : name; od_poly : option polytype }.

Section Ops.
  Variables H SH : Type.
  Variable h_enc : H -> SH.
  Variable h_dec : SH -> H.
  Variable h_nf : H -> H.
  Variable h_type : H -> functype.
  Variable h_ok : H -> bool.

  (* API layer: the attributes of each class as its constructor leaves them *)
  Inductive op :=
  | OModule
  | OFuncDefn (f_name : name) (inputs : list ty) (params : list typaram) (outputs : list ty)
  | OFuncDecl (f_name : name) (signature : polytype)
  | OConst (v : value H)
  | ODataflowBlock (inputs : list ty) (sum : ty) (other_outputs : list ty) (extension_delta : list name)
  | OExitBlock (cfg_outputs : list ty)
  | OInput (types : list ty)
  | OOutput (types : list ty)
  | OCall (signature : polytype) (instantiation : functype) (type_args : list tyarg)
  | OCallIndirect (signature : functype)
  | OLoadConst (typ : ty)
  | OLoadFunc (signature : polytype) (instantiation : functype) (type_args : list tyarg)
  | ODFG (inputs outputs : list ty) (extension_delta : list name)
  | OConditional (sum : ty) (other_inputs outputs : list ty)
  | OCase (inputs outputs : list ty)
  | OTailLoop (just_inputs rest just_outputs : list ty) (extension_delta : list name)
  | OCFG (inputs outputs : list ty)
  | OCustom (op_name : name) (signature : functype) (description : name) (extension : name) (args : list tyarg)
  | OExtOp (def : opdef) (signature : option functype) (args : list tyarg)   (* ExtOp and every AsExtOp through .ext_op *)
  | OTag (tag : N) (sum : ty)                                                (* Tag and Some/Left/Right/Continue/Break *)
  | OAliasDecl (alias : name) (bnd : bound)
  | OAliasDefn (alias : name) (definition : ty).

  (* serial layer: parent first, then the fields in declaration order *)
  Inductive sop :=
  | SModule (parent : N)
  | SFuncDefn (parent : N) (nm : name) (signature : spoly)
  | SFuncDecl (parent : N) (nm : name) (signature : spoly)
  | SConst (parent : N) (v : svalue SH)
  | SDataflowBlock (parent : N) (inputs other_outputs : list sty) (sum_rows : list (list sty)) (extension_delta : list name)
  | SExitBlock (parent : N) (cfg_outputs : list sty)
  | SInput (parent : N) (types : list sty)
  | SOutput (parent : N) (types : list sty)
  | SCall (parent : N) (func_sig : spoly) (type_args : list starg) (instantiation : sfunc)
  | SCallIndirect (parent : N) (signature : sfunc)
  | SLoadConstant (parent : N) (datatype : sty)
  | SLoadFunction (parent : N) (func_sig : spoly) (type_args : list starg) (instantiation : sfunc)
  | SDFG (parent : N) (signature : sfunc)
  | SConditional (parent : N) (other_inputs outputs : list sty) (sum_rows : list (list sty)) (extension_delta : list name)
  | SCase (parent : N) (signature : sfunc)
  | STailLoop (parent : N) (just_inputs just_outputs rest : list sty) (extension_delta : list name)
  | SCFG (parent : N) (signature : sfunc)
  | SExtensionOp (parent : N) (extension nm : name) (signature : sfunc) (description : name) (args : list starg)
  | STag (parent : N) (tag : N) (variants : list (list sty))
  | SAliasDecl (parent : N) (nm : name) (bnd : bound)
  | SAliasDefn (parent : N) (nm : name) (definition : sty).

  Definition rows_of (t : ty) : list (list ty) := match variant_rows t with Some r => r | None => [] end.
  Definition row_ser := map ty_to_serial.
  Definition rows_ser := map (map ty_to_serial).
  Definition row_des := map ty_deserialize.
  Definition rows_des := map (map ty_deserialize).
  Definition mkfunc (i o : list ty) : functype := FT i o [].

  (* ExtOp.to_custom_op: the cached signature, else the body of a monomorphic declared scheme (else ValueError) *)
  Definition extop_sig (d : opdef) (sig : option functype) : option functype :=
    match sig with
    | Some f => Some f
    | None => match od_poly d with
              | Some p => match pt_params p with [] => Some (pt_body p) | _ => None end
              | None => None
              end
    end.
  Definition sig_or_empty (o : option functype) : functype := match o with Some f => f | None => FT [] [] [] end.

  (* `_to_serial(parent)` *)
  Definition op_to_serial (o : op) (parent : N) : sop :=
    match o with
    | OModule => SModule parent
    | OFuncDefn nm i ps os => SFuncDefn parent nm (poly_to_serial (PT ps (mkfunc i os)))
    | OFuncDecl nm sig => SFuncDecl parent nm (poly_to_serial sig)
    | OConst v => SConst parent (value_to_serial H SH h_enc v)
    | ODataflowBlock i s oo d => SDataflowBlock parent (row_ser i) (row_ser oo) (rows_ser (rows_of s)) d
    | OExitBlock os => SExitBlock parent (row_ser os)
    | OInput ts => SInput parent (row_ser ts)
    | OOutput ts => SOutput parent (row_ser ts)
    | OCall sig inst ta => SCall parent (poly_to_serial sig) (map arg_to_serial ta) (func_to_serial inst)
    | OCallIndirect sig => SCallIndirect parent (func_to_serial sig)
    | OLoadConst t => SLoadConstant parent (ty_to_serial t)
    | OLoadFunc sig inst ta => SLoadFunction parent (poly_to_serial sig) (map arg_to_serial ta) (func_to_serial inst)
    | ODFG i os d => SDFG parent (func_to_serial (FT i os d))
    | OConditional s oi os => SConditional parent (row_ser oi) (row_ser os) (rows_ser (rows_of s)) []
    | OCase i os => SCase parent (func_to_serial (mkfunc i os))
    | OTailLoop ji rest jo d => STailLoop parent (row_ser ji) (row_ser jo) (row_ser rest) d
    | OCFG i os => SCFG parent (func_to_serial (mkfunc i os))
    | OCustom nm sig descr e args => SExtensionOp parent e nm (func_to_serial sig) descr (map arg_to_serial args)
    | OExtOp d sig args =>
        SExtensionOp parent (od_ext d) (od_name d) (func_to_serial (sig_or_empty (extop_sig d sig))) (od_descr d)
                     (map arg_to_serial args)
    | OTag tag s => STag parent tag (rows_ser (rows_of s))
    | OAliasDecl nm b => SAliasDecl parent nm b
    | OAliasDefn nm t => SAliasDefn parent nm (ty_to_serial t)
    end.

  (* _CallOrLoad.__init__: a monomorphic signature fixes instantiation and type arguments *)
  Definition call_attrs (sig : polytype) (inst : functype) (ta : list tyarg) : functype * list tyarg :=
    match pt_params sig with [] => (pt_body sig, []) | _ => (inst, ta) end.
  Definition call_wf (sig : polytype) (inst : functype) (ta : list tyarg) : bool :=
    match pt_params sig with
    | [] => functype_eqb inst (pt_body sig) && match ta with [] => true | _ => false end
    | ps => Nat.eqb (length ps) (length ta)
    end.

  (* `deserialize()`; the parent is kept by the document, not by the operation *)
  Definition op_deserialize (s : sop) : op :=
    match s with
    | SModule _ => OModule
    | SFuncDefn _ nm sig =>
        let p := poly_deserialize sig in OFuncDefn nm (ft_in (pt_body p)) (pt_params p) (ft_out (pt_body p))
    | SFuncDecl _ nm sig => OFuncDecl nm (poly_deserialize sig)
    | SConst _ v => OConst (value_deserialize H SH h_dec v)
    | SDataflowBlock _ i oo rows d => ODataflowBlock (row_des i) (TSum (rows_des rows)) (row_des oo) d
    | SExitBlock _ os => OExitBlock (row_des os)
    | SInput _ ts => OInput (row_des ts)
    | SOutput _ ts => OOutput (row_des ts)
    | SCall _ sig ta inst =>
        let p := poly_deserialize sig in
        let '(i, a) := call_attrs p (func_deserialize inst) (map arg_deserialize ta) in OCall p i a
    | SCallIndirect _ sig => OCallIndirect (func_deserialize sig)
    | SLoadConstant _ t => OLoadConst (ty_deserialize t)
    | SLoadFunction _ sig ta inst =>
        let p := poly_deserialize sig in
        let '(i, a) := call_attrs p (func_deserialize inst) (map arg_deserialize ta) in OLoadFunc p i a
    | SDFG _ sig => let f := func_deserialize sig in ODFG (ft_in f) (ft_out f) (ft_reqs f)
    | SConditional _ oi os rows _ => OConditional (TSum (rows_des rows)) (row_des oi) (row_des os)
    | SCase _ sig => let f := func_deserialize sig in OCase (ft_in f) (ft_out f)
    | STailLoop _ ji jo rest d => OTailLoop (row_des ji) (row_des rest) (row_des jo) d
    | SCFG _ sig => let f := func_deserialize sig in OCFG (ft_in f) (ft_out f)
    | SExtensionOp _ e nm sig descr args => OCustom nm (func_deserialize sig) descr e (map arg_deserialize args)
    | STag _ tag rows => OTag tag (TSum (rows_des rows))
    | SAliasDecl _ nm b => OAliasDecl nm b
    | SAliasDefn _ nm t => OAliasDefn nm (ty_deserialize t)
    end.

  (* when `_to_serial` returns and the object is one its constructor can have built *)
  Definition has_rows (t : ty) : bool := match variant_rows t with Some _ => true | None => false end.
  Definition op_ok (o : op) : bool :=
    match o with
    | OConst v => value_ok H h_ok v
    | ODataflowBlock _ s _ _ | OConditional s _ _ | OTag _ s => has_rows s
    | OCall sig inst ta | OLoadFunc sig inst ta => call_wf sig inst ta
    | OExtOp d sig _ => match extop_sig d sig with Some _ => true | None => false end
    | _ => true
    end.

  (* normal form of a decoded operation: sum types in general form, extension types opaque, an extension
     operation as the opaque Custom operation *)
  Definition sum_nf (t : ty) : ty := TSum (map (map ty_nf) (rows_of t)).
  Definition row_nf := map ty_nf.
  Definition op_nf (o : op) : op :=
    match o with
    | OModule => OModule
    | OFuncDefn nm i ps os => OFuncDefn nm (row_nf i) ps (row_nf os)
    | OFuncDecl nm sig => OFuncDecl nm (poly_nf sig)
    | OConst v => OConst (value_nf H h_nf v)
    | ODataflowBlock i s oo d => ODataflowBlock (row_nf i) (sum_nf s) (row_nf oo) d
    | OExitBlock os => OExitBlock (row_nf os)
    | OInput ts => OInput (row_nf ts)
    | OOutput ts => OOutput (row_nf ts)
    | OCall sig inst ta => OCall (poly_nf sig) (func_nf inst) (map arg_nf ta)
    | OCallIndirect sig => OCallIndirect (func_nf sig)
    | OLoadConst t => OLoadConst (ty_nf t)
    | OLoadFunc sig inst ta => OLoadFunc (poly_nf sig) (func_nf inst) (map arg_nf ta)
    | ODFG i os d => ODFG (row_nf i) (row_nf os) d
    | OConditional s oi os => OConditional (sum_nf s) (row_nf oi) (row_nf os)
    | OCase i os => OCase (row_nf i) (row_nf os)
    | OTailLoop ji rest jo d => OTailLoop (row_nf ji) (row_nf rest) (row_nf jo) d
    | OCFG i os => OCFG (row_nf i) (row_nf os)
    | OCustom nm sig descr e args => OCustom nm (func_nf sig) descr e (map arg_nf args)
    | OExtOp d sig args =>
        OCustom (od_name d) (func_nf (sig_or_empty (extop_sig d sig))) (od_descr d) (od_ext d) (map arg_nf args)
    | OTag tag s => OTag tag (sum_nf s)
    | OAliasDecl nm b => OAliasDecl nm b
    | OAliasDefn nm t => OAliasDefn nm (ty_nf t)
    end.

  (* ---- derived facts, types by encoded form up to Python equality (a UnitSum equals its general form) ---- *)
  Definition enc (t : ty) : sty := sty_canon (ty_to_serial t).
  Definition encs := map enc.
  Record facts := { f_outer : option (list sty * list sty);      (* outer_signature(): input row, output row *)
                    f_inner : option (list sty * list sty);      (* inner_signature() *)
                    f_num_out : option N;                        (* num_out *)
                    f_static : option sty }.                     (* type on the static port (Const / function ops) *)
  Definition sig2 (i o : list ty) := Some (encs i, encs o).
  Definition nlen {A} (l : list A) : N := N.of_nat (length l).
  Definition poly_enc (p : polytype) : sty :=
    SFunctionType (map sty_canon (sf_input (func_to_serial (pt_body p)))) (map sty_canon (sf_output (func_to_serial (pt_body p))))
                  (ft_reqs (pt_body p)).
  Definition op_facts (o : op) : facts :=
    match o with
    | OModule | OAliasDecl _ _ | OAliasDefn _ _ => {| f_outer := None; f_inner := None; f_num_out := Some 0%N; f_static := None |}
    | OFuncDefn _ i ps os =>
        {| f_outer := None; f_inner := sig2 i os; f_num_out := Some 1%N; f_static := Some (poly_enc (PT ps (mkfunc i os))) |}
    | OFuncDecl _ sig => {| f_outer := None; f_inner := None; f_num_out := Some 1%N; f_static := Some (poly_enc sig) |}
    | OConst v => {| f_outer := None; f_inner := None; f_num_out := Some 1%N; f_static := Some (enc (type_of H h_type v)) |}
    | ODataflowBlock i s oo _ =>
        {| f_outer := None; f_inner := sig2 i (s :: oo); f_num_out := Some (nlen (rows_of s)); f_static := None |}
    | OExitBlock _ => {| f_outer := None; f_inner := None; f_num_out := Some 0%N; f_static := None |}
    | OInput ts => {| f_outer := sig2 [] ts; f_inner := None; f_num_out := Some (nlen ts); f_static := None |}
    | OOutput ts => {| f_outer := sig2 ts []; f_inner := None; f_num_out := Some 0%N; f_static := None |}
    | OCall sig inst _ =>
        {| f_outer := sig2 (ft_in inst) (ft_out inst); f_inner := None; f_num_out := Some (nlen (ft_out inst));   (* repaired code: the instantiation, fix 5176e0c *)
           f_static := Some (poly_enc sig) |}
    | OCallIndirect sig =>
        {| f_outer := sig2 (func_as_ty sig :: ft_in sig) (ft_out sig); f_inner := None; f_num_out := Some (nlen (ft_out sig));
           f_static := None |}
    | OLoadConst t => {| f_outer := sig2 [] [t]; f_inner := None; f_num_out := Some 1%N; f_static := Some (enc t) |}
    | OLoadFunc sig inst _ =>
        {| f_outer := sig2 [] [func_as_ty inst]; f_inner := None; f_num_out := Some 1%N; f_static := Some (poly_enc sig) |}
    | ODFG i os _ => {| f_outer := sig2 i os; f_inner := sig2 i os; f_num_out := Some (nlen os); f_static := None |}
    | OConditional s oi os => {| f_outer := sig2 (s :: oi) os; f_inner := None; f_num_out := Some (nlen os); f_static := None |}
    | OCase i os => {| f_outer := None; f_inner := sig2 i os; f_num_out := Some 0%N; f_static := None |}
    | OTailLoop ji rest jo _ =>
        {| f_outer := sig2 (ji ++ rest) (jo ++ rest); f_inner := sig2 (ji ++ rest) (TSum [ji; jo] :: rest);
           f_num_out := Some (nlen jo + nlen rest)%N; f_static := None |}
    | OCFG i os => {| f_outer := sig2 i os; f_inner := None; f_num_out := Some (nlen os); f_static := None |}
    | OCustom _ sig _ _ _ => {| f_outer := sig2 (ft_in sig) (ft_out sig); f_inner := None; f_num_out := Some (nlen (ft_out sig)); f_static := None |}
    | OExtOp d sig _ =>
        let f := sig_or_empty (extop_sig d sig) in
        {| f_outer := sig2 (ft_in f) (ft_out f); f_inner := None; f_num_out := Some (nlen (ft_out f)); f_static := None |}
    | OTag tag s =>
        {| f_outer := match nth_error (rows_of s) (N.to_nat tag) with Some r => sig2 r [s] | None => None end;
           f_inner := None; f_num_out := Some 1%N; f_static := None |}
    end.

  (* the sugar tag operations (ops.py:559-611): each constructor only fixes tag and sum type *)
  Inductive tagsugar := TgSome (tys : list ty) | TgRight (l r : list ty) | TgLeft (l r : list ty)
                      | TgContinue (l r : list ty) | TgBreak (l r : list ty).
  Definition sugar_tag (s : tagsugar) : op :=
    match s with
    | TgSome l => OTag 1 (TSum [[]; l])
    | TgRight l r | TgBreak l r => OTag 1 (TSum [l; r])
    | TgLeft l r | TgContinue l r => OTag 0 (TSum [l; r])
    end.

  (* ---- a serial operation as the foreign-document direction leaves it: what deserialize has no attribute
     for is reset to its default (extension requirement sets of FuncDefn / Case / CFG signatures and of
     Conditional), a monomorphic Call/LoadFunction gets its canonical instantiation ---- *)
  Definition sfunc_noreqs (f : sfunc) : sfunc := SFunc (sf_input f) (sf_output f) [].
  Definition scall_norm (sig : spoly) (ta : list starg) (inst : sfunc) : list starg * sfunc :=
    match sp_params sig with [] => ([], sp_body sig) | _ => (ta, inst) end.
  Definition sop_norm (s : sop) : sop :=
    match s with
    | SFuncDefn p nm sig => SFuncDefn p nm (SPoly (sp_params sig) (sfunc_noreqs (sp_body sig)))
    | SCall p sig ta inst => let '(a, i) := scall_norm sig ta inst in SCall p sig a i
    | SLoadFunction p sig ta inst => let '(a, i) := scall_norm sig ta inst in SLoadFunction p sig a i
    | SConditional p oi os rows _ => SConditional p oi os rows []
    | SCase p sig => SCase p (sfunc_noreqs sig)
    | SCFG p sig => SCFG p (sfunc_noreqs sig)
    | _ => s
    end.
  Definition sop_parent (s : sop) : N :=
    match s with
    | SModule p | SFuncDefn p _ _ | SFuncDecl p _ _ | SConst p _ | SDataflowBlock p _ _ _ _ | SExitBlock p _
    | SInput p _ | SOutput p _ | SCall p _ _ _ | SCallIndirect p _ | SLoadConstant p _ | SLoadFunction p _ _ _
    | SDFG p _ | SConditional p _ _ _ _ | SCase p _ | STailLoop p _ _ _ _ | SCFG p _ | SExtensionOp p _ _ _ _ _
    | STag p _ _ | SAliasDecl p _ _ | SAliasDefn p _ _ => p
    end.

  (* ---- boolean equalities for the correspondence runs ---- *)
  Variable h_eqb : H -> H -> bool.
  Variable sh_eqb : SH -> SH -> bool.
  Definition row_eqb := list_eqb ty_eqb.
  Definition srow_eqb := list_eqb sty_eqb.
  Definition srows_eqb := list_eqb srow_eqb.
  Definition opdef_eqb (a b : opdef) : bool :=
    N.eqb (od_ext a) (od_ext b) && N.eqb (od_name a) (od_name b) && N.eqb (od_descr a) (od_descr b) &&
    option_eqb polytype_eqb (od_poly a) (od_poly b).
  Definition op_eqb (a b : op) : bool :=
    match a, b with
    | OModule, OModule => true
    | OFuncDefn n i ps o, OFuncDefn n' i' ps' o' => N.eqb n n' && row_eqb i i' && list_eqb typaram_eqb ps ps' && row_eqb o o'
    | OFuncDecl n s, OFuncDecl n' s' => N.eqb n n' && polytype_eqb s s'
    | OConst v, OConst v' => value_eqb H h_eqb v v'
    | ODataflowBlock i s o d, ODataflowBlock i' s' o' d' => row_eqb i i' && ty_eqb s s' && row_eqb o o' && names_eqb d d'
    | OExitBlock o, OExitBlock o' | OInput o, OInput o' | OOutput o, OOutput o' => row_eqb o o'
    | OCall s i a, OCall s' i' a' | OLoadFunc s i a, OLoadFunc s' i' a' =>
        polytype_eqb s s' && functype_eqb i i' && list_eqb tyarg_eqb a a'
    | OCallIndirect s, OCallIndirect s' => functype_eqb s s'
    | OLoadConst t, OLoadConst t' => ty_eqb t t'
    | ODFG i o d, ODFG i' o' d' => row_eqb i i' && row_eqb o o' && names_eqb d d'
    | OConditional s i o, OConditional s' i' o' => ty_eqb s s' && row_eqb i i' && row_eqb o o'
    | OCase i o, OCase i' o' | OCFG i o, OCFG i' o' => row_eqb i i' && row_eqb o o'
    | OTailLoop a b c d, OTailLoop a' b' c' d' => row_eqb a a' && row_eqb b b' && row_eqb c c' && names_eqb d d'
    | OCustom n s d e a, OCustom n' s' d' e' a' =>
        N.eqb n n' && functype_eqb s s' && N.eqb d d' && N.eqb e e' && list_eqb tyarg_eqb a a'
    | OExtOp d s a, OExtOp d' s' a' => opdef_eqb d d' && option_eqb functype_eqb s s' && list_eqb tyarg_eqb a a'
    | OTag t s, OTag t' s' => N.eqb t t' && ty_eqb s s'
    | OAliasDecl n b, OAliasDecl n' b' => N.eqb n n' && bound_eqb b b'
    | OAliasDefn n t, OAliasDefn n' t' => N.eqb n n' && ty_eqb t t'
    | _, _ => false
    end.
  Definition sop_eqb (a b : sop) : bool :=
    match a, b with
    | SModule p, SModule p' => N.eqb p p'
    | SFuncDefn p n s, SFuncDefn p' n' s' | SFuncDecl p n s, SFuncDecl p' n' s' => N.eqb p p' && N.eqb n n' && spoly_eqb s s'
    | SConst p v, SConst p' v' => N.eqb p p' && svalue_eqb SH sh_eqb v v'
    | SDataflowBlock p i o r d, SDataflowBlock p' i' o' r' d' | SConditional p i o r d, SConditional p' i' o' r' d' =>
        N.eqb p p' && srow_eqb i i' && srow_eqb o o' && srows_eqb r r' && names_eqb d d'
    | SExitBlock p o, SExitBlock p' o' | SInput p o, SInput p' o' | SOutput p o, SOutput p' o' => N.eqb p p' && srow_eqb o o'
    | SCall p s a i, SCall p' s' a' i' | SLoadFunction p s a i, SLoadFunction p' s' a' i' =>
        N.eqb p p' && spoly_eqb s s' && list_eqb starg_eqb a a' && sfunc_eqb i i'
    | SCallIndirect p s, SCallIndirect p' s' | SDFG p s, SDFG p' s' | SCase p s, SCase p' s' | SCFG p s, SCFG p' s' =>
        N.eqb p p' && sfunc_eqb s s'
    | SLoadConstant p t, SLoadConstant p' t' => N.eqb p p' && sty_eqb t t'
    | STailLoop p a b c d, STailLoop p' a' b' c' d' =>
        N.eqb p p' && srow_eqb a a' && srow_eqb b b' && srow_eqb c c' && names_eqb d d'
    | SExtensionOp p e n s d a, SExtensionOp p' e' n' s' d' a' =>
        N.eqb p p' && N.eqb e e' && N.eqb n n' && sfunc_eqb s s' && N.eqb d d' && list_eqb starg_eqb a a'
    | STag p t r, STag p' t' r' => N.eqb p p' && N.eqb t t' && srows_eqb r r'
    | SAliasDecl p n b, SAliasDecl p' n' b' => N.eqb p p' && N.eqb n n' && bound_eqb b b'
    | SAliasDefn p n t, SAliasDefn p' n' t' => N.eqb p p' && N.eqb n n' && sty_eqb t t'
    | _, _ => false
    end.
  Definition sig_eqb := option_eqb (pair_eqb srow_eqb srow_eqb).
  Definition facts_eqb (a b : facts) : bool :=
    sig_eqb (f_outer a) (f_outer b) && sig_eqb (f_inner a) (f_inner b) &&
    option_eqb N.eqb (f_num_out a) (f_num_out b) && option_eqb sty_eqb (f_static a) (f_static b).
End Ops.

Arguments OModule {H}.
Arguments OFuncDefn {H}.
Arguments OFuncDecl {H}.
Arguments OConst {H}.
Arguments ODataflowBlock {H}.
Arguments OExitBlock {H}.
Arguments OInput {H}.
Arguments OOutput {H}.
Arguments OCall {H}.
Arguments OCallIndirect {H}.
Arguments OLoadConst {H}.
Arguments OLoadFunc {H}.
Arguments ODFG {H}.
Arguments OConditional {H}.
Arguments OCase {H}.
Arguments OTailLoop {H}.
Arguments OCFG {H}.
Arguments OCustom {H}.
Arguments OExtOp {H}.
Arguments OTag {H}.
Arguments OAliasDecl {H}.
Arguments OAliasDefn {H}.
Arguments SModule {SH}.
Arguments SFuncDefn {SH}.
Arguments SFuncDecl {SH}.
Arguments SConst {SH}.
Arguments SDataflowBlock {SH}.
Arguments SExitBlock {SH}.
Arguments SInput {SH}.
Arguments SOutput {SH}.
Arguments SCall {SH}.
Arguments SCallIndirect {SH}.
Arguments SLoadConstant {SH}.
Arguments SLoadFunction {SH}.
Arguments SDFG {SH}.
Arguments SConditional {SH}.
Arguments SCase {SH}.
Arguments STailLoop {SH}.
Arguments SCFG {SH}.
Arguments SExtensionOp {SH}.
Arguments STag {SH}.
Arguments SAliasDecl {SH}.
Arguments SAliasDefn {SH}.
