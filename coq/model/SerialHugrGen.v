(* Hugr._to_serial with the choices the wire format leaves to the writer made EXPLICIT (false alarms on harmless
   changes, design.d/C02.md / design.d/C03.md "False alarms corrected (harmless changes)").
   model/SerialHugr.v `to_serial` mirrors the code as it stands: nodes listed by increasing index, edges in
   link-insertion order, a full metadata list.  Neither C02 nor C03 promises the last two, and C03 does not promise the
   first (C02 does: "the only licence is the order-preserving renumbering"):
     to_serial_in L h     the live nodes are listed in the order L (any list; admissibility -- L holds exactly the live
                          nodes, each once -- and "root first, parents earlier" are premises of the theorems, evaluated by
                          the monitor on the order the implementation chose);  to_serial = to_serial_in (live h)
     to_serial_p pres h   the document is PRESENTED by `pres`: any rearrangement of the `edges` array and any writing of
                          the metadata table that the loader reads as the same dictionaries (null instead of a list of
                          nulls, {} instead of null); to_serial = to_serial_p id
   No proofs in this file. *)
From Coq Require Import List Bool Arith.
Import ListNotations.
From HV Require Import model.SerialHugr.

Section SerialGen.
  Variables op sop md : Type.
  Variable enc : op -> sop.
  Variable ndp : op -> dir -> option nat.
  Variable md_is_nil : md -> bool.
  Notation hugr := (hugr op md).
  Notation serial := (serial sop md).

  (* rekey = {node.idx: pos for pos, node in enumerate(order)} *)
  Definition rekey_in (L : list nat) (i : nat) : option nat := index_of i L.
  Definition ser_link_in (L : list nat) (h : hugr) (l : link) : option sedge :=
    match constrain op md ndp h (fst l) DOut, constrain op md ndp h (snd l) DIn,
          rekey_in L (fst (fst l)), rekey_in L (fst (snd l)) with
    | Some a, Some b, Some s, Some d => Some ((s, Some a), (d, Some b))
    | _, _, _, _ => None
    end.
  Definition ser_node_in (L : list nat) (h : hugr) (i : nat) : option (snode sop) :=
    match get_node h i with
    | None => None
    | Some n => match rekey_in L (match n_parent n with Some p => p | None => i end) with
                | None => None
                | Some p' => Some {| s_op := enc (n_op n); s_parent := p' |}
                end
    end.
  Definition meta_in (L : list nat) (h : hugr) : list (option md) :=
    map (fun i => match get_node h i with
                  | Some n => if md_is_nil (n_md n) then None else Some (n_md n)
                  | None => None
                  end) L.
  Definition to_serial_in (L : list nat) (h : hugr) : option serial :=
    match mapM (ser_node_in L h) L, mapM (ser_link_in L h) (h_links h) with
    | Some ns, Some es => Some {| s_nodes := ns; s_edges := es; s_meta := Some (meta_in L h) |}
    | _, _ => None
    end.

  Definition to_serial_p (pres : serial -> serial) (h : hugr) : option serial :=
    option_map pres (to_serial enc ndp md_is_nil h).
End SerialGen.

Arguments to_serial_in {op sop md}. Arguments to_serial_p {op sop md}. Arguments meta_in {op md}.
