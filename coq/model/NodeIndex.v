(* Model of hugr.hugr.node_port.Node indexing (node_port.py:150-226) over unbounded Z.
   n : option Z is Node._num_out_ports (None = unknown).  No proofs here. *)
From Coq Require Import ZArith List Bool.
Import ListNotations.
Open Scope Z_scope.

Inductive err := IndexError | ValueError | OtherError.
Inductive res (A : Type) := Ok (a : A) | Err (e : err).
Arguments Ok {A}. Arguments Err {A}.

Definition bind {A B} (r : res A) (f : A -> res B) : res B :=
  match r with Ok a => f a | Err e => Err e end.
Fixpoint mapM {A B} (f : A -> res B) (l : list A) : res (list B) :=
  match l with
  | [] => Ok []
  | x :: r => bind (f x) (fun y => bind (mapM f r) (fun ys => Ok (y :: ys)))
  end.

(* node_port.py:187-219 *)
Definition normalize (n : option Z) (i : Z) (allow : bool) : res Z :=
  match n with
  | Some n =>
      if (i >=? n) && negb allow then Err IndexError
      else if i <? - n then Err IndexError
      else if i >=? 0 then Ok (Z.min i n) else Ok (n + i)
  | None => if i <? 0 then Err IndexError else Ok i
  end.

(* range(a, b, s) for s > 0 *)
Definition zrange (a b s : Z) : list Z :=
  map (fun k => a + Z.of_nat k * s) (seq 0 (Z.to_nat ((b - a + s - 1) / s))).

Definition or0 (x : option Z) : Z := match x with Some 0 | None => 0 | Some s => s end.  (* x or 0 *)
Definition or1 (x : option Z) : Z := match x with Some 0 | None => 1 | Some s => s end.  (* x or 1 *)

(* case PortOffset(index) *)
Definition index_int (n : option Z) (i : Z) : res Z := normalize n i false.
(* case tuple(xs): (self[i] for i in xs), forced *)
Definition index_tuple (n : option Z) (xs : list Z) : res (list Z) := mapM (index_int n) xs.
(* case slice(): node_port.py:169-183; the generator (self[i] for i in range(...)) forced *)
Definition index_slice (n : option Z) (start stop step : option Z) : res (list Z) :=
  let start0 := or0 start in
  match (match stop with Some e => Some e | None => n end) with
  | None => Err ValueError
  | Some stop0 =>
      bind (normalize n start0 true) (fun s =>
      bind (normalize n stop0 true) (fun e =>
      mapM (index_int n) (zrange s e (or1 step))))
  end.
(* ToNode.outputs / __iter__ : self[:] *)
Definition iter_node (n : option Z) : res (list Z) := index_slice n None None None.

(* ports: (node idx, offset, is_incoming); dataclass eq on (node, offset) + class, Node eq on idx only *)
Definition port := (Z * Z * bool)%type.
Definition port_eqb (a b : port) : bool :=
  let '(i, o, d) := a in let '(j, p, e) := b in Z.eqb i j && Z.eqb o p && Bool.eqb d e.
Definition out_port_of_node (idx : Z) : port := (idx, 0, false).   (* ToNode.out_port *)

(* ---- which count a builder writes on the handle it returns ----
   dfg.py: add_op/add/extend -> replace(node, _num_out_ports=op.num_out); call -> add_node(.., call_op.num_out);
   load -> add_node(.., 1 value output); containers -> _update_node_outs(parent_node, count) when their
   outputs are set.  An operation is described by the shape that determines its outputs. *)
Inductive rowitem := RTy | RVar (i : nat) | RRow (i : nat).   (* a type, type variable i, row variable i *)
Inductive targ := ATy | ASeq (len : nat).                     (* a type argument, a sequence of len types *)
Inductive opshape :=
| SSig (nin nout : Z)            (* op carrying a FunctionType: Custom, CallIndirect *)
| SUnpack (k : Z)                (* UnpackTuple of a k-tuple *)
| SPack (k : Z)                  (* MakeTuple / Tag of k values *)
| SUnary                         (* Noop, LoadConst *)
| SCall (body_out : list rowitem) (args : list targ) (inst_out : Z)
                                 (* Call: output row of the polymorphic body, the type arguments, and the
                                    number of outputs of the instantiation handed to `call` (ops.py has a
                                    TODO instead of computing the instantiation) *)
| SDfg (outs : Z)                (* DFG / CFG / Conditional whose outputs were set to `outs` wires *)
| SLoop (just_out rest : Z).     (* TailLoop: Sum([just_in, just_out]) and rest *)

Definition builder_count (s : opshape) : option Z :=
  match s with
  | SSig _ nout => Some nout             (* len(signature.output) *)
  | SUnpack k => Some k                  (* len(self.types) *)
  | SPack _ => Some 1
  | SUnary => Some 1
  | SCall _ _ inst_out => Some inst_out  (* Call.num_out = len(self.instantiation.output) *)
  | SDfg outs => Some outs               (* _set_parent_output_count(len(outputs)) *)
  | SLoop j r => Some (j + r)            (* len(variant_rows[1]) + len(outputs) - 1 *)
  end.

(* ---- one operation OBJECT used for several nodes (dfg.py add_op / add / extend, _wire_up; ops.py _PartialOp) ----
   add_op(op, *args):  new_n = hugr.add_node(op, parent)          -- no count yet
                       _wire_up(new_n, args): tys = types of the wires;
                                              if isinstance(op, _PartialOp): op._set_in_types(tys)
                       return replace(new_n, _num_out_ports=op.num_out)   -- read AFTER the wiring
   The operation object is mutable: a partial operation (UnpackTuple, CallIndirect, MakeTuple, Noop) is re-typed by
   every wiring, so what matters for the count is the state the object is in after this use's _set_in_types, not
   the state it was constructed in or left in by an earlier use. *)
Inductive wty := WVal | WTup (k : Z) | WFn (nin nout : Z).   (* type of a wire: a plain value, a k-tuple, a function value *)
Inductive opobj :=
| OUnpack (types : option Z)     (* UnpackTuple: len(_types), None = not set (IncompleteOp) *)
| OCallInd (sig_out : option Z)  (* CallIndirect: len(_signature.output), None = not set *)
| OMake (types : option Z)       (* MakeTuple: len(_types); num_out is the constant 1 *)
| ONoop (typed : bool)           (* Noop: _type set or not; num_out is the constant 1 *)
| OFixed (nout : Z).             (* not a _PartialOp (Custom, Tag, ...): carries its own signature *)

(* op._set_in_types(tys) as called by _wire_up; a destructuring / assert failure is OtherError *)
Definition set_in_types (o : opobj) (ws : list wty) : res opobj :=
  match o with
  | OUnpack _ => match ws with [WTup k] => Ok (OUnpack (Some k)) | _ => Err OtherError end   (* (t,) = types; (row,) = t.variant_rows *)
  | OCallInd _ => match ws with WFn _ nout :: _ => Ok (OCallInd (Some nout)) | _ => Err OtherError end  (* func_sig, *_ = types *)
  | OMake _ => Ok (OMake (Some (Z.of_nat (length ws))))
  | ONoop _ => match ws with [_] => Ok (ONoop true) | _ => Err OtherError end                 (* (t,) = types *)
  | OFixed n => Ok (OFixed n)                                                                 (* not isinstance(op, _PartialOp) *)
  end.
(* op.num_out; OtherError = IncompleteOp *)
Definition obj_num_out (o : opobj) : res Z :=
  match o with
  | OUnpack (Some k) | OCallInd (Some k) => Ok k
  | OUnpack None | OCallInd None => Err OtherError
  | OMake _ | ONoop _ => Ok 1
  | OFixed n => Ok n
  end.
(* add_op: the object after the call and the count written on the returned handle *)
Definition add_op_obj (o : opobj) (ws : list wty) : res (opobj * Z) :=
  bind (set_in_types o ws) (fun o' => bind (obj_num_out o') (fun n => Ok (o', n))).
(* `add` of a command made from op, and `extend` with several commands made from op, are add_op on the same
   object, one after the other *)
Fixpoint reuse_counts (o : opobj) (uses : list (list wty)) : res (list Z) :=
  match uses with
  | [] => Ok []
  | ws :: r => bind (add_op_obj o ws) (fun '(o', n) => bind (reuse_counts o' r) (fun ns => Ok (n :: ns)))
  end.
(* the count on the handle of use j *)
Definition reuse_count (o : opobj) (uses : list (list wty)) (j : nat) : option Z :=
  match reuse_counts o uses with Ok ns => nth_error ns j | Err _ => None end.
