(* Model of hugr.hugr.node_port.Node indexing (node_port.py:150-226) over unbounded Z.
   n : option Z is Node._num_out_ports (None = unknown).  No proofs here. *)
From Coq Require Import ZArith List Bool.
Import ListNotations.
Open Scope Z_scope.

Inductive err := IndexError | ValueError | OtherError.
Inductive res (A : Type) := Ok (a : A) | Err (e : err).
Arguments Ok {A}. Arguments Err {A}.

Definition bind {A B} (r : res A) (f : A -> res B) : res B :=
  match r with Ok a => f a | Err e => Err e end.
Fixpoint mapM {A B} (f : A -> res B) (l : list A) : res (list B) :=
  match l with
  | [] => Ok []
  | x :: r => bind (f x) (fun y => bind (mapM f r) (fun ys => Ok (y :: ys)))
  end.

(* node_port.py:187-219 *)
Definition normalize (n : option Z) (i : Z) (allow : bool) : res Z :=
  match n with
  | Some n =>
      if (i >=? n) && negb allow then Err IndexError
      else if i <? - n then Err IndexError
      else if i >=? 0 then Ok (Z.min i n) else Ok (n + i)
  | None => if i <? 0 then Err IndexError else Ok i
  end.

(* range(a, b, s) for s > 0 *)
Definition zrange (a b s : Z) : list Z :=
  map (fun k => a + Z.of_nat k * s) (seq 0 (Z.to_nat ((b - a + s - 1) / s))).

Definition or0 (x : option Z) : Z := match x with Some 0 | None => 0 | Some s => s end.  (* x or 0 *)
Definition or1 (x : option Z) : Z := match x with Some 0 | None => 1 | Some s => s end.  (* x or 1 *)

(* case PortOffset(index) *)
Definition index_int (n : option Z) (i : Z) : res Z := normalize n i false.
(* case tuple(xs): (self[i] for i in xs), forced *)
Definition index_tuple (n : option Z) (xs : list Z) : res (list Z) := mapM (index_int n) xs.
(* case slice(): node_port.py:169-183; the generator (self[i] for i in range(...)) forced *)
Definition index_slice (n : option Z) (start stop step : option Z) : res (list Z) :=
  let start0 := or0 start in
  match (match stop with Some e => Some e | None => n end) with
  | None => Err ValueError
  | Some stop0 =>
      bind (normalize n start0 true) (fun s =>
      bind (normalize n stop0 true) (fun e =>
      mapM (index_int n) (zrange s e (or1 step))))
  end.
(* ToNode.outputs / __iter__ : self[:] *)
Definition iter_node (n : option Z) : res (list Z) := index_slice n None None None.

(* ports: (node idx, offset, is_incoming); dataclass eq on (node, offset) + class, Node eq on idx only *)
Definition port := (Z * Z * bool)%type.
Definition port_eqb (a b : port) : bool :=
  let '(i, o, d) := a in let '(j, p, e) := b in Z.eqb i j && Z.eqb o p && Bool.eqb d e.
Definition out_port_of_node (idx : Z) : port := (idx, 0, false).   (* ToNode.out_port *)

(* ---- which count a builder writes on the handle it returns ----
   dfg.py: add_op/add/extend -> replace(node, _num_out_ports=op.num_out); call -> add_node(.., call_op.num_out);
   load -> add_node(.., 1 value output); containers -> _update_node_outs(parent_node, count) when their
   outputs are set.  An operation is described by the shape that determines its outputs. *)
Inductive rowitem := RTy | RVar (i : nat) | RRow (i : nat).   (* a type, type variable i, row variable i *)
Inductive targ := ATy | ASeq (len : nat).                     (* a type argument, a sequence of len types *)
Inductive opshape :=
| SSig (nin nout : Z)            (* op carrying a FunctionType: Custom, CallIndirect *)
| SUnpack (k : Z)                (* UnpackTuple of a k-tuple *)
| SPack (k : Z)                  (* MakeTuple / Tag of k values *)
| SUnary                         (* Noop, LoadConst *)
| SCall (body_out : list rowitem) (args : list targ) (inst_out : Z)
                                 (* Call: output row of the polymorphic body, the type arguments, and the
                                    number of outputs of the instantiation handed to `call` (ops.py has a
                                    TODO instead of computing the instantiation) *)
| SDfg (outs : Z)                (* DFG / CFG / Conditional whose outputs were set to `outs` wires *)
| SLoop (just_out rest : Z).     (* TailLoop: Sum([just_in, just_out]) and rest *)

Definition builder_count (s : opshape) : option Z :=
  match s with
  | SSig _ nout => Some nout             (* len(signature.output) *)
  | SUnpack k => Some k                  (* len(self.types) *)
  | SPack _ => Some 1
  | SUnary => Some 1
  | SCall _ _ inst_out => Some inst_out  (* Call.num_out = len(self.instantiation.output) *)
  | SDfg outs => Some outs               (* _set_parent_output_count(len(outputs)) *)
  | SLoop j r => Some (j + r)            (* len(variant_rows[1]) + len(outputs) - 1 *)
  end.
