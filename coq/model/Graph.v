(* Model of hugr.hugr.base.Hugr (hugr-py/src/hugr/hugr/base.py), the graph store, statement by
   statement, AFTER the repairs of D4-D6 (_delete_sub_link) and D20 (insert_hugr inserts ancestors
   first and copies the children order).  No proofs here.

   node table        _nodes : list (option node_data)          (None = deleted)
   free indices      _free_nodes : list nid.  WHICH index a new node takes is not prescribed by the property
                     (hugr-py pops the most recently freed one and grows the table by one when none is free; a
                     heap or a queue, or another order of the copies of an insertion, would do as well), so the
                     choice is an ORACLE input of the model: [prefer pick h] puts the implementation's choice at
                     the head of the free list when it is admissible (any index that is not live: a freed one,
                     or one at or beyond the end of the table, which then grows up to it), and _add_node takes
                     the head.  Without a choice (or with an inadmissible one) the model is the code as written:
                     the most recently freed index, or the next fresh one when no index is free.
   links             _links : BiMap[_SubPort[OutPort], _SubPort[InPort]]  (model/BiMapM.v, dicts as
                     insertion-ordered association lists)
   a port            (node index, offset : Z), offset -1 = the order port; the direction is implied
                     by which side of the BiMap the port is used on
   operations / metadata are opaque payloads.
   Python loops with no a-priori bound run on fuel; exhausting it is the outcome EFuel, which the
   implementation never produces (proofs/GraphP.v shows the fuel given suffices for the link loops). *)
From Coq Require Import List Bool Arith ZArith.
Import ListNotations.
From HV Require Import lib.PyDict lib.Harness model.BiMapM.

Definition nid := nat.
Definition port := (nid * Z)%type.
Definition subport := (port * nat)%type.
Definition port_eqb (a b : port) : bool := Nat.eqb (fst a) (fst b) && Z.eqb (snd a) (snd b).
Definition sub_eqb (a b : subport) : bool := port_eqb (fst a) (fst b) && Nat.eqb (snd a) (snd b).
Definition next (s : subport) : subport := (fst s, S (snd s)).      (* next_sub_offset *)
Definition link_eqb (a b : port * port) : bool := port_eqb (fst a) (fst b) && port_eqb (snd a) (snd b).

(* outcome of a call: normal return or the class of the exception *)
(* EOther: any other exception class (never produced by the model) *)
Inductive res := Ok | EKey | EValue | EFuel | EOther.
Definition res_eqb (a b : res) : bool :=
  match a, b with Ok, Ok | EKey, EKey | EValue, EValue | EFuel, EFuel | EOther, EOther => true | _, _ => false end.

Fixpoint set_nth {A} (l : list A) (n : nat) (x : A) : list A :=
  match l, n with [] , _ => [] | _ :: r, 0 => x :: r | a :: r, S k => a :: set_nth r k x end.
Fixpoint find_idx {A} (eqb : A -> A -> bool) (l : list A) (q : A) (i : nat) : option nat :=
  match l with [] => None | p :: r => if eqb p q then Some i else find_idx eqb r q (S i) end.

Definition lmap := @bimap subport subport.
Notation getS := (dget sub_eqb).
Notation bm_insert := (insert_left sub_eqb sub_eqb).
Notation bm_delete_left := (delete_left sub_eqb sub_eqb).
Notation bm_delete_right := (delete_right sub_eqb sub_eqb).

(* ------------------------------------------------------------------ link store (no node table) *)

(* base.py _unused_sub_offset:  while sub_port in d: sub_port = sub_port.next_sub_offset() *)
Fixpoint unused_from (fuel : nat) (d : list (subport * subport)) (s : subport) : option subport :=
  match fuel with
  | 0 => None
  | S f => match getS d s with Some _ => unused_from f d (next s) | None => Some s end
  end.
Definition unused_sub (d : list (subport * subport)) (p : port) : option subport :=
  unused_from (S (length d)) d (p, 0).

(* base.py _linked_ports: while sub_port in links: yield links[sub_port].port; next *)
Fixpoint linked_from (fuel : nat) (d : list (subport * subport)) (s : subport) : list port :=
  match fuel with
  | 0 => []
  | S f => match getS d s with Some t => fst t :: linked_from f d (next s) | None => [] end
  end.
Definition linked (d : list (subport * subport)) (p : port) : list port :=
  linked_from (S (length d)) d (p, 0).

(* add_link, the BiMap part: both sub-ports unused, insert_left *)
Definition lm_add (b : lmap) (src dst : port) : option lmap :=
  match unused_sub (fwd b) src, unused_sub (bck b) dst with
  | Some s, Some t => Some (bm_insert b s t)
  | _, _ => None
  end.

(* _delete_sub_link, first loop: the hole moves up the source port's sub-offsets *)
Fixpoint shift_out (fuel : nat) (b : lmap) (hole : subport) : option lmap :=
  match fuel with
  | 0 => None
  | S f =>
      match getS (fwd b) (next hole) with
      | None => Some b
      | Some moved =>
          let b1 := fst (bm_delete_left b (next hole)) in
          shift_out f (bm_insert b1 hole moved) (next hole)
      end
  end.
(* second loop: the same on the target port *)
Fixpoint shift_in (fuel : nat) (b : lmap) (hole : subport) : option lmap :=
  match fuel with
  | 0 => None
  | S f =>
      match getS (bck b) (next hole) with
      | None => Some b
      | Some moved_src =>
          let b1 := fst (bm_delete_right b (next hole)) in
          shift_in f (bm_insert b1 moved_src hole) (next hole)
      end
  end.
Definition delete_sub_link (b : lmap) (s : subport) : lmap * res :=
  match getS (fwd b) s with
  | None => (b, EKey)                                   (* self._links.fwd[src_sub] *)
  | Some t =>
      let b1 := fst (bm_delete_left b s) in
      match shift_out (S (length (fwd b1))) b1 s with
      | None => (b1, EFuel)
      | Some b2 =>
          match shift_in (S (length (bck b2))) b2 t with
          | None => (b2, EFuel)
          | Some b3 => (b3, Ok)
          end
      end
  end.

(* delete_link: index of the first linked port equal to dst, then _delete_sub_link *)
Definition lm_delete_link (b : lmap) (src dst : port) : lmap * res :=
  match find_idx port_eqb (linked (fwd b) src) dst 0 with
  | None => (b, Ok)                                     (* StopIteration: return *)
  | Some i => delete_sub_link b (src, i)
  end.

(* delete_node, inner loops:  while sub in bck: _delete_sub_link(bck[sub])  /  while sub in fwd *)
Fixpoint clear_in (fuel : nat) (b : lmap) (p : port) : lmap * res :=
  match fuel with
  | 0 => (b, EFuel)
  | S f =>
      match getS (bck b) (p, 0) with
      | None => (b, Ok)
      | Some s => match delete_sub_link b s with
                  | (b', Ok) => clear_in f b' p
                  | r => r
                  end
      end
  end.
Fixpoint clear_out (fuel : nat) (b : lmap) (p : port) : lmap * res :=
  match fuel with
  | 0 => (b, EFuel)
  | S f =>
      match getS (fwd b) (p, 0) with
      | None => (b, Ok)
      | Some _ => match delete_sub_link b (p, 0) with
                  | (b', Ok) => clear_out f b' p
                  | r => r
                  end
      end
  end.
(* range(-1, k) *)
Definition offsets_upto (k : Z) : list Z :=
  map (fun i => (Z.of_nat i - 1)%Z) (seq 0 (Z.to_nat (k + 1))).
Fixpoint clear_ports (clr : lmap -> port -> lmap * res) (b : lmap) (ps : list port) : lmap * res :=
  match ps with
  | [] => (b, Ok)
  | p :: r => match clr b p with
              | (b', Ok) => clear_ports clr b' r
              | e => e
              end
  end.
Definition lm_clear_node (b : lmap) (n : nid) (num_in num_out : Z) : lmap * res :=
  match clear_ports (fun b p => clear_in (S (length (fwd b))) b p) b
                    (map (fun o => (n, o)) (offsets_upto num_in)) with
  | (b1, Ok) => clear_ports (fun b p => clear_out (S (length (fwd b))) b p) b1
                            (map (fun o => (n, o)) (offsets_upto num_out))
  | e => e
  end.

Definition lm_links (b : lmap) : list (port * port) := map (fun kv => (fst (fst kv), fst (snd kv))) (fwd b).

(* ------------------------------------------------------------------ the Hugr *)
Section G.
  Context {Op Meta : Type}.

  Record node_data := { nd_op : Op; nd_parent : option nid; nd_inps : Z; nd_outs : Z;
                        nd_children : list nid; nd_meta : Meta }.
  Record hugr := { nodes : list (option node_data); links : lmap; free : list nid; root : nid }.

  Definition with_nodes (h : hugr) ns := {| nodes := ns; links := links h; free := free h; root := root h |}.
  Definition with_links (h : hugr) l := {| nodes := nodes h; links := l; free := free h; root := root h |}.
  Definition set_children (d : node_data) ch :=
    {| nd_op := nd_op d; nd_parent := nd_parent d; nd_inps := nd_inps d; nd_outs := nd_outs d;
       nd_children := ch; nd_meta := nd_meta d |}.
  Definition set_outs (d : node_data) k :=
    {| nd_op := nd_op d; nd_parent := nd_parent d; nd_inps := nd_inps d; nd_outs := k;
       nd_children := nd_children d; nd_meta := nd_meta d |}.
  Definition set_inps (d : node_data) k :=
    {| nd_op := nd_op d; nd_parent := nd_parent d; nd_inps := k; nd_outs := nd_outs d;
       nd_children := nd_children d; nd_meta := nd_meta d |}.

  (* __getitem__: None = KeyError *)
  Definition get_node (h : hugr) (n : nid) : option node_data :=
    match nth_error (nodes h) n with Some (Some d) => Some d | _ => None end.
  Definition set_node (h : hugr) (n : nid) (d : node_data) : hugr :=
    with_nodes h (set_nth (nodes h) n (Some d)).

  (* the choice of the index of a new node (oracle).  The property prescribes neither WHICH freed index is reused
     nor that freed indices are reused before the table grows, nor in which order the copies of an insertion
     take their indices: any index that is not live is admissible.  An admissible choice inside the table -- a
     member of the free list -- is moved to the head of the list, where _add_node takes it.  A choice at or
     beyond the end of the table makes the table grow up to it: the slots in between are free slots like any
     other (None in the table and on the free list -- the store needs nothing else to represent a gap; it is
     what allocating and deleting them would have left), the chosen one at the head.  Anything else (a live
     index) leaves the store alone.  [prefer None h] is h: without a choice the model is the code as written. *)
  Definition pick_first (f : nid) (fr : list nid) : list nid :=
    if mem Nat.eqb f fr then f :: filter (fun x => negb (Nat.eqb x f)) fr else fr.
  Definition prefer (pick : option nid) (h : hugr) : hugr :=
    match pick with
    | None => h
    | Some f =>
        if Nat.ltb f (length (nodes h)) then
          {| nodes := nodes h; links := links h; free := pick_first f (free h); root := root h |}
        else
          let k := S f - length (nodes h) in
          {| nodes := nodes h ++ repeat None k; links := links h;
             free := rev (seq (length (nodes h)) k) ++ free h; root := root h |}
    end.

  (* _add_node (base.py:159-180) followed by _update_port_count(num_outs=...) *)
  Definition add_node_raw (h : hugr) (o : Op) (parent : option nid) (num_outs : option Z) (m : Meta)
    : hugr * nid * res :=
    let nd := {| nd_op := o; nd_parent := parent; nd_inps := 0; nd_outs := 0; nd_children := []; nd_meta := m |} in
    let '(n, h1) :=
      match free h with
      | f :: r => (f, {| nodes := set_nth (nodes h) f (Some nd); links := links h; free := r; root := root h |})
      | [] => (length (nodes h), with_nodes h (nodes h ++ [Some nd]))
      end in
    let after_parent :=
      match parent with
      | None => Some h1
      | Some p => match get_node h1 p with
                  | None => None                                      (* self[parent] : KeyError *)
                  | Some pd => Some (set_node h1 p (set_children pd (nd_children pd ++ [n])))
                  end
      end in
    match after_parent with
    | None => (h1, n, EKey)
    | Some h2 =>
        match num_outs with
        | None => (h2, n, Ok)
        | Some k => match get_node h2 n with
                    | None => (h2, n, EKey)
                    | Some d => (set_node h2 n (set_outs d k), n, Ok)
                    end
        end
    end.

  (* Hugr(root_op) *)
  Definition init (o : Op) (m : Meta) : hugr :=
    let '(h, n, _) := add_node_raw {| nodes := []; links := {| fwd := []; bck := [] |}; free := []; root := 0 |}
                                   o None (Some 0%Z) m in
    {| nodes := nodes h; links := links h; free := free h; root := n |}.

  (* add_node / add_const: parent = parent or self.root *)
  Definition add_node (h : hugr) (o : Op) (parent : option nid) (num_outs : option Z) (m : Meta) :=
    add_node_raw h o (Some (match parent with Some p => p | None => root h end)) num_outs m.

  (* add_link (base.py): BiMap first, then the two counters (KeyError on a dead node comes after) *)
  Definition add_link (h : hugr) (src dst : port) : hugr * res :=
    match lm_add (links h) src dst with
    | None => (h, EFuel)
    | Some l =>
        let h1 := with_links h l in
        match get_node h1 (fst src) with
        | None => (h1, EKey)
        | Some d =>
            let h2 := set_node h1 (fst src) (set_outs d (Z.max (nd_outs d) (snd src + 1))) in
            match get_node h2 (fst dst) with
            | None => (h2, EKey)
            | Some d' => (set_node h2 (fst dst) (set_inps d' (Z.max (nd_inps d') (snd dst + 1))), Ok)
            end
        end
    end.

  Definition linked_out (h : hugr) (p : port) : list port := linked (fwd (links h)) p.
  Definition linked_in (h : hugr) (p : port) : list port := linked (bck (links h)) p.
  Definition has_link (h : hugr) (src dst : port) : bool := mem port_eqb dst (linked_out h src).

  Definition add_order_link (h : hugr) (a b : nid) : hugr * res :=
    if has_link h (a, (-1)%Z) (b, (-1)%Z) then (h, Ok) else add_link h (a, (-1)%Z) (b, (-1)%Z).

  Definition delete_link (h : hugr) (src dst : port) : hugr * res :=
    let '(l, r) := lm_delete_link (links h) src dst in (with_links h l, r).

  (* delete_node (repaired) *)
  Definition delete_node (h : hugr) (n : nid) : hugr * res :=
    match get_node h n with
    | None => (h, EKey)
    | Some d =>
        let detached :=
          match nd_parent d with
          | None => inl h
          | Some p => match get_node h p with
                      | None => inr EKey
                      | Some pd => match remove1 Nat.eqb n (nd_children pd) with
                                   | None => inr EValue               (* list.remove *)
                                   | Some ch => inl (set_node h p (set_children pd ch))
                                   end
                      end
          end in
        match detached with
        | inr e => (h, e)
        | inl h1 =>
            match lm_clear_node (links h1) n (nd_inps d) (nd_outs d) with
            | (l, Ok) =>
                ({| nodes := set_nth (nodes h1) n None; links := l; free := n :: free h1; root := root h1 |}, Ok)
            | (l, e) => (with_links h1 l, e)
            end
        end
    end.

  (* ---------------- queries ---------------- *)
  Fixpoint live_from (l : list (option node_data)) (i : nat) : list nid :=
    match l with [] => [] | Some _ :: r => i :: live_from r (S i) | None :: r => live_from r (S i) end.
  Definition iter_nodes (h : hugr) : list nid := live_from (nodes h) 0.            (* __iter__ *)
  Definition num_nodes (h : hugr) : nat := length (nodes h) - length (free h).     (* __len__ *)
  Definition q_links (h : hugr) : list (port * port) := lm_links (links h).        (* links() *)
  Definition q_children (h : hugr) (n : nid) : option (list nid) := option_map nd_children (get_node h n).
  Definition q_parent (h : hugr) (n : nid) : option (option nid) := option_map nd_parent (get_node h n).
  Definition num_in_ports (h : hugr) (n : nid) : option Z := option_map nd_inps (get_node h n).
  Definition num_out_ports (h : hugr) (n : nid) : option Z := option_map nd_outs (get_node h n).
  Definition range0 (k : Z) : list Z := map Z.of_nat (seq 0 (Z.to_nat k)).
  (* _node_links: nothing at all while the dict is empty (direction is read off its first key) *)
  Definition node_links (d : list (subport * subport)) (n : nid) (count : Z) : list (port * list port) :=
    match d with
    | [] => []
    | _ => map (fun o => ((n, o), linked d (n, o))) (range0 count)
    end.
  Definition outgoing_links (h : hugr) (n : nid) : option (list (port * list port)) :=
    option_map (fun d => node_links (fwd (links h)) n (nd_outs d)) (get_node h n).
  Definition incoming_links (h : hugr) (n : nid) : option (list (port * list port)) :=
    option_map (fun d => node_links (bck (links h)) n (nd_inps d)) (get_node h n).
  Definition outgoing_order_links (h : hugr) (n : nid) : list nid := map fst (linked_out h (n, (-1)%Z)).
  Definition incoming_order_links (h : hugr) (n : nid) : list nid := map fst (linked_in h (n, (-1)%Z)).

  (* ---------------- insert_hugr (repaired, D20) ---------------- *)
  Definition mapping := list (nid * nid).                       (* dict[Node, Node] *)
  Notation mget := (dget Nat.eqb).

  (* while cur is not None and cur not in mapping: chain.append(cur); cur = hugr[cur].parent
     -- returned outermost first (the code iterates reversed(chain)) *)
  Fixpoint ancestors_todo (fuel : nat) (B : hugr) (m : mapping) (cur : option nid) (acc : list nid)
    : list nid + res :=
    match fuel with
    | 0 => inr EFuel
    | S f =>
        match cur with
        | None => inl acc
        | Some c =>
            match mget m c with
            | Some _ => inl acc
            | None => match get_node B c with
                      | None => inr EKey
                      | Some d => ancestors_todo f B m (nd_parent d) (c :: acc)
                      end
            end
        end
    end.

  (* [om]: the oracle for the free-index choices of the add_node calls of one insertion, as a partial map
     node of B -> index chosen for its copy (the mapping the implementation returned); [] = no choice given *)
  Fixpoint insert_chain (om : mapping) (A B : hugr) (m : mapping) (parent : option nid) (chain : list nid)
    : hugr * mapping * res :=
    match chain with
    | [] => (A, m, Ok)
    | c :: rest =>
        match get_node B c with
        | None => (A, m, EKey)
        | Some d =>
            let np := match nd_parent d with
                      | Some bp => match mget m bp with Some x => inl (Some x) | None => inr EKey end
                      | None => inl parent
                      end in
            match np with
            | inr e => (A, m, e)
            | inl p =>
                match add_node (prefer (mget om c) A) (nd_op d) p (Some (nd_outs d)) (nd_meta d) with
                | (A1, n, Ok) => insert_chain om A1 B (dset Nat.eqb m c n) parent rest
                | (A1, _, e) => (A1, m, e)
                end
            end
        end
    end.

  Fixpoint insert_nodes (om : mapping) (A B : hugr) (m : mapping) (parent : option nid) (todo : list nid)
    : hugr * mapping * res :=
    match todo with
    | [] => (A, m, Ok)
    | n :: rest =>
        match ancestors_todo (S (length (nodes B))) B m (Some n) [] with
        | inr e => (A, m, e)
        | inl chain =>
            match insert_chain om A B m parent chain with
            | (A1, m1, Ok) => insert_nodes om A1 B m1 parent rest
            | r => r
            end
        end
    end.

  Fixpoint map_opt {X Y} (f : X -> option Y) (l : list X) : option (list Y) :=
    match l with
    | [] => Some []
    | x :: r => match f x, map_opt f r with Some y, Some ys => Some (y :: ys) | _, _ => None end
    end.

  (* self[mapping[node]].children = [mapping[ch] for ch in node_data.children] *)
  Fixpoint copy_children (A B : hugr) (m : mapping) (todo : list nid) : hugr * res :=
    match todo with
    | [] => (A, Ok)
    | n :: rest =>
        match get_node B n, mget m n with
        | Some d, Some n' =>
            match get_node A n', map_opt (mget m) (nd_children d) with
            | Some d', Some ch => copy_children (set_node A n' (set_children d' ch)) B m rest
            | _, _ => (A, EKey)
            end
        | _, _ => (A, EKey)
        end
    end.

  Fixpoint copy_links (A : hugr) (m : mapping) (ls : list (port * port)) : hugr * res :=
    match ls with
    | [] => (A, Ok)
    | (s, t) :: rest =>
        match mget m (fst s), mget m (fst t) with
        | Some s', Some t' =>
            match add_link A (s', snd s) (t', snd t) with
            | (A1, Ok) => copy_links A1 m rest
            | r => r
            end
        | _, _ => (A, EKey)
        end
    end.

  Definition insert_hugr (om : mapping) (A B : hugr) (parent : option nid) : hugr * mapping * res :=
    match insert_nodes om A B [] parent (iter_nodes B) with
    | (A1, m, Ok) =>
        match copy_children A1 B m (iter_nodes B) with
        | (A2, Ok) => let '(A3, r) := copy_links A2 m (q_links B) in (A3, m, r)
        | (A2, e) => (A2, m, e)
        end
    | r => r
    end.

  (* ---------------- builders' insert_nested / insert_cfg / insert_conditional / insert_tail_loop
     (build/dfg.py _insert_nested_impl): insert_hugr under the builder's parent node, then _wire_up of the
     image of the root: per wire _wire_up_port = _ancestral_sibling of the node with respect to the wire's
     source (NoSiblingAncestor = EOther when there is none), add_state_order(source, that ancestor) when the
     ancestor is not the node itself (a wire from an enclosing region; add_order_link skips a link that is
     already there), add_link(wire, node.inp(i)); then _update_port_count with the counts of the operation's
     signature (given: operations are opaque here). *)
  (* _ancestral_sibling: while (tgt_parent := h[tgt].parent) is not None:
                           if tgt_parent == src_parent: return tgt
                           tgt = tgt_parent
                         return None *)
  Fixpoint anc_sib_from (fuel : nat) (h : hugr) (sp : option nid) (tgt : nid) : option nid + res :=
    match fuel with
    | 0 => inr EFuel
    | S f =>
        match get_node h tgt with
        | None => inr EKey
        | Some d =>
            match nd_parent d with
            | None => inl None
            | Some tp => if option_eqb Nat.eqb (Some tp) sp then inl (Some tgt) else anc_sib_from f h sp tp
            end
        end
    end.
  Definition ancestral_sibling (h : hugr) (src tgt : nid) : option nid + res :=
    match get_node h src with
    | None => inr EKey
    | Some ds => anc_sib_from (S (length (nodes h))) h (nd_parent ds) tgt
    end.
  Definition wire_up_port (h : hugr) (node : nid) (i : Z) (w : port) : hugr * res :=
    match ancestral_sibling h (fst w) node with
    | inr e => (h, e)
    | inl None => (h, EOther)                                   (* NoSiblingAncestor *)
    | inl (Some a) =>
        match (if Nat.eqb a node then (h, Ok) else add_order_link h (fst w) a) with
        | (h1, Ok) => add_link h1 w (node, i)
        | r => r
        end
    end.
  Fixpoint wire_up (A : hugr) (node : nid) (i : Z) (wires : list port) : hugr * res :=
    match wires with
    | [] => (A, Ok)
    | w :: rest => match wire_up_port A node i w with
                   | (A1, Ok) => wire_up A1 node (i + 1) rest
                   | r => r
                   end
    end.
  Definition update_port_count (A : hugr) (n : nid) (num_inps num_outs : option Z) : hugr * res :=
    match num_inps, num_outs with
    | None, None => (A, Ok)
    | _, _ =>
        let r1 := match num_inps with
                  | None => inl A
                  | Some k => match get_node A n with None => inr EKey | Some d => inl (set_node A n (set_inps d k)) end
                  end in
        match r1 with
        | inr e => (A, e)
        | inl A1 => match num_outs with
                    | None => (A1, Ok)
                    | Some k => match get_node A1 n with None => (A1, EKey) | Some d => (set_node A1 n (set_outs d k), Ok) end
                    end
        end
    end.
  Definition insert_wrapped (om : mapping) (A B : hugr) (parent : nid) (wires : list port) (num_inps num_outs : option Z)
    : hugr * mapping * res :=
    match insert_hugr om A B (Some parent) with
    | (A1, m, Ok) =>
        match mget m (root B) with
        | None => (A1, m, EKey)
        | Some r' => match wire_up A1 r' 0 wires with
                     | (A2, Ok) => let '(A3, r) := update_port_count A2 r' num_inps num_outs in (A3, m, r)
                     | (A2, e) => (A2, m, e)
                     end
        end
    | r => r
    end.

  (* ---------------- histories ---------------- *)
  Inductive ret := RUnit | RNode (n : nid) | RMap (m : mapping).
  Inductive bcmd :=
  | AddNode (o : Op) (parent : option nid) (num_outs : option Z) (m : Meta)
  | AddConst (o : Op) (parent : option nid) (m : Meta)        (* o = Const(value) *)
  | AddLink (s t : port) | AddOrder (a b : nid) | DelLink (s t : port) | DelNode (n : nid).
  (* Insert: the source HUGR is given by its own history (root op, metadata, commands; the values the
     implementation returned while building it are carried along for the specification's benefit) *)
  Inductive cmd :=
  | Basic (c : bcmd)
  | Insert (o : Op) (m : Meta) (broot : nid) (src : list (bcmd * ret)) (parent : option nid).

  Definition bstep (h : hugr) (c : bcmd) : hugr * ret * res :=
    match c with
    | AddNode o p k m => let '(h', n, r) := add_node h o p k m in (h', RNode n, r)
    | AddConst o p m => let '(h', n, r) := add_node h o p None m in (h', RNode n, r)
    | AddLink s t => let '(h', r) := add_link h s t in (h', RUnit, r)
    | AddOrder a b => let '(h', r) := add_order_link h a b in (h', RUnit, r)
    | DelLink s t => let '(h', r) := delete_link h s t in (h', RUnit, r)
    | DelNode n => let '(h', r) := delete_node h n in (h', RUnit, r)
    end.
  Definition brun (h : hugr) (cs : list bcmd) : hugr := fold_left (fun s c => fst (fst (bstep s c))) cs h.
  (* the same with the free-index choices given: a command comes with the value the implementation returned,
     which is used ONLY as the oracle of [prefer] (the index of an add_node, the mapping of an insert_hugr) *)
  Definition pick_of (rt : ret) : option nid := match rt with RNode n => Some n | _ => None end.
  Definition om_of (rt : ret) : mapping := match rt with RMap m => m | _ => [] end.
  Definition bstep_at (rt : ret) (h : hugr) (c : bcmd) : hugr * ret * res := bstep (prefer (pick_of rt) h) c.
  Definition brun_at (h : hugr) (cs : list (bcmd * ret)) : hugr :=
    fold_left (fun s cr => fst (fst (bstep_at (snd cr) s (fst cr)))) cs h.
  Definition step (rt : ret) (h : hugr) (c : cmd) : hugr * ret * res :=
    match c with
    | Basic b => bstep_at rt h b
    | Insert o m _ src p =>
        let '(h', mp, r) := insert_hugr (om_of rt) h (brun_at (init o m) src) p in (h', RMap mp, r)
    end.
End G.
Arguments node_data : clear implicits.
Arguments hugr : clear implicits.
Arguments bcmd : clear implicits.
Arguments cmd : clear implicits.
