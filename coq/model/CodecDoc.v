(* Loading and re-saving a whole serial document: Hugr._from_serial / Hugr._to_serial (hugr/base.py) as far as
   C05 needs them -- node operations with their parents, every edge with its port offsets (an offset may be
   null in documents written by hugr-rs: the order port of a dataflow node), per-node metadata.  A loaded
   HUGR has no holes, so `_to_serial` renumbers nothing.  Parametric in the payload of function-valued
   constants: a document of nesting depth n+1 instantiates H / SH with the documents of depth n.  No proofs. *)
From Coq Require Import NArith List Bool Arith.
Import ListNotations.
From HV Require Import lib.Harness model.Types model.SerialTypes model.Codec model.CodecVals model.CodecOps.

Inductive poff := Order | Off (n : N).               (* PortOffset: -1 is the order port *)
Definition sport := (N * option N)%type.             (* (node index, offset or null) *)
Definition empty_meta : N := 0%N.                    (* the interned "{}" *)

Section Doc.
  Variables H SH : Type.
  Variable h_enc : H -> SH.
  Variable h_dec : SH -> H.
  Variable h_type : H -> functype.

  Record sdoc := SDoc { sd_nodes : list (sop SH); sd_edges : list (sport * sport);
                        sd_meta : option (list (option N)) }.
  Record node := Node { n_op : op H; n_parent : option N; n_meta : N }.
  Record hugr := Hugr { h_nodes : list node; h_links : list ((N * poff) * (N * poff)) }.

  Inductive dir := Incoming | Outgoing.
  (* ops._num_dataflow_ports: value + static ports of a dataflow operation = where its order port is written *)
  Definition num_df_ports (o : op H) (d : dir) : option N :=
    match f_outer (op_facts H h_type o) with
    | Some (i, os) =>
        Some match d with
             | Incoming => (nlen i + match o with OCall _ _ _ | OLoadConst _ | OLoadFunc _ _ _ => 1 | _ => 0 end)%N
             | Outgoing => nlen os
             end
    | None => None
    end.

  (* ---- _from_serial ---- *)
  Definition get_meta (m : option (list (option N))) (idx : nat) : N :=
    match m with
    | Some l => match nth_error l idx with Some (Some x) => x | _ => empty_meta end
    | None => empty_meta
    end.
  Fixpoint load_nodes (m : option (list (option N))) (idx : nat) (l : list (sop SH)) : list node :=
    match l with
    | [] => []
    | s :: r =>
        Node (op_deserialize H SH h_dec s)
             (if N.eqb (sop_parent SH s) (N.of_nat idx) then None else Some (sop_parent SH s)) (get_meta m idx)
        :: load_nodes m (S idx) r
    end.
  Definition op_at (ns : list node) (i : N) : option (op H) := option_map n_op (nth_error ns (N.to_nat i)).
  Definition get_offset (ns : list node) (p : sport) (d : dir) : option poff :=
    let '(n, off) := p in
    match match op_at ns n with Some o => num_df_ports o d | None => None end with
    | Some k => match off with
                | None => Some Order
                | Some x => if N.eqb x k then Some Order else Some (Off x)
                end
    | None => option_map Off off
    end.
  Fixpoint load_edges (ns : list node) (l : list (sport * sport)) : list ((N * poff) * (N * poff)) :=
    match l with
    | [] => []
    | (s, t) :: r =>
        match get_offset ns s Outgoing, get_offset ns t Incoming with
        | Some a, Some b => ((fst s, a), (fst t, b)) :: load_edges ns r
        | _, _ => load_edges ns r                                (* `continue`: the edge is not loaded *)
        end
    end.
  Definition from_serial (s : sdoc) : hugr :=
    let ns := load_nodes (sd_meta s) 0 (sd_nodes s) in Hugr ns (load_edges ns (sd_edges s)).

  (* ---- _to_serial of a HUGR without holes ---- *)
  Fixpoint save_nodes (idx : nat) (l : list node) : list (sop SH) :=
    match l with
    | [] => []
    | n :: r => op_to_serial H SH h_enc (n_op n) (match n_parent n with Some p => p | None => N.of_nat idx end)
                :: save_nodes (S idx) r
    end.
  Definition constrain_offset (ns : list node) (n : N) (o : poff) (d : dir) : option N :=
    match o with
    | Off x => Some x
    | Order => match match op_at ns n with Some op => num_df_ports op d | None => None end with
               | Some k => Some k
               | None => Some 0%N          (* falls back to the recorded port count; never reached after a load *)
               end
    end.
  Definition save_edges (ns : list node) (l : list ((N * poff) * (N * poff))) : list (sport * sport) :=
    map (fun '((a, x), (b, y)) => ((a, constrain_offset ns a x Outgoing), (b, constrain_offset ns b y Incoming))) l.
  Definition save_meta (l : list node) : option (list (option N)) :=
    Some (map (fun n => if N.eqb (n_meta n) empty_meta then None else Some (n_meta n)) l).
  Definition to_serial (h : hugr) : sdoc :=
    SDoc (save_nodes 0 (h_nodes h)) (save_edges (h_nodes h) (h_links h)) (save_meta (h_nodes h)).
  (* The property promises that every edge is kept, not where it stands in the `edges` array of the document
     written: [to_serial] above lists the links in insertion order because the code as it stands does;
     [to_serial_ord ord] is `_to_serial` with that choice left to the implementation ([ord] rearranges the list
     of serialised links; admissible = a permutation).  Nodes are NOT rearranged: a node of a document is its
     index (parents, edges and metadata refer to it, the order of the children of a node is index order). *)
  Variable ord : list (sport * sport) -> list (sport * sport).
  Definition to_serial_ord (h : hugr) : sdoc :=
    SDoc (save_nodes 0 (h_nodes h)) (ord (save_edges (h_nodes h) (h_links h))) (save_meta (h_nodes h)).

  (* ---- what the property lets go when a foreign document is re-saved: defaults filled in (per operation:
     [sop_norm]; metadata: a missing list / entry or an empty dict is written as null) and null order offsets
     made explicit ---- *)
  Variable sop_n : sop SH -> sop SH.
  Definition norm_offset (ns : list node) (p : sport) (d : dir) : option N :=
    let '(n, off) := p in
    match off with
    | Some x => Some x
    | None => match op_at ns n with Some o => num_df_ports o d | None => None end
    end.
  Fixpoint norm_edges (ns : list node) (l : list (sport * sport)) : list (sport * sport) :=
    match l with
    | [] => []
    | (s, t) :: r =>
        match norm_offset ns s Outgoing, norm_offset ns t Incoming with
        | Some a, Some b => ((fst s, Some a), (fst t, Some b)) :: norm_edges ns r
        | _, _ => norm_edges ns r
        end
    end.
  Fixpoint norm_meta (m : option (list (option N))) (idx n : nat) : list (option N) :=
    match n with
    | O => []
    | S k => (if N.eqb (get_meta m idx) empty_meta then None else Some (get_meta m idx)) :: norm_meta m (S idx) k
    end.
  Definition sdoc_norm (s : sdoc) : sdoc :=
    SDoc (map sop_n (sd_nodes s)) (norm_edges (load_nodes (sd_meta s) 0 (sd_nodes s)) (sd_edges s))
         (Some (norm_meta (sd_meta s) 0 (length (sd_nodes s)))).
  (* every edge end without an offset sits on a dataflow node (hugr-rs leaves out only those) *)
  Definition edges_wf (s : sdoc) : bool :=
    let ns := load_nodes (sd_meta s) 0 (sd_nodes s) in
    forallb (fun '(a, b) => match norm_offset ns a Outgoing, norm_offset ns b Incoming with
                            | Some _, Some _ => true | _, _ => false end) (sd_edges s).

  Variable sh_eqb : SH -> SH -> bool.
  Definition sport_eqb : sport -> sport -> bool := pair_eqb N.eqb (option_eqb N.eqb).
  Definition sdoc_eqb (a b : sdoc) : bool :=
    list_eqb (sop_eqb SH sh_eqb) (sd_nodes a) (sd_nodes b) &&
    list_eqb (pair_eqb sport_eqb sport_eqb) (sd_edges a) (sd_edges b) &&
    option_eqb (list_eqb (option_eqb N.eqb)) (sd_meta a) (sd_meta b).
  (* the same document as far as the property goes: nodes and metadata position by position (= by node index),
     the edges as a multiset *)
  Definition edge_eqb : sport * sport -> sport * sport -> bool := pair_eqb sport_eqb sport_eqb.
  Definition edges_sameb (a b : list (sport * sport)) : bool := perm_eqb edge_eqb a b.
  Definition sdoc_sameb (a b : sdoc) : bool :=
    list_eqb (sop_eqb SH sh_eqb) (sd_nodes a) (sd_nodes b) &&
    edges_sameb (sd_edges a) (sd_edges b) &&
    option_eqb (list_eqb (option_eqb N.eqb)) (sd_meta a) (sd_meta b).
End Doc.
Arguments SDoc {SH}. Arguments Node {H}. Arguments Hugr {H}.
