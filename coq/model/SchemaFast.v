(* C03 — the validator of model/Schema.v with short-circuit evaluation, for the per-document monitor.
   Under vm_compute (call by value) `a && b`, `forallb`, `existsb`, `map` evaluate everything: a `oneOf` over
   the 21 operation classes validates all members of a node against all 21 classes even after the `op` tag
   has failed.  Here every conjunction is an `if`, so a failed check ends the evaluation of its schema object.
   proofs/SchemaFastP.v: fvalidates = validates for every fuel, root, schema and document.
   No proofs in this file. *)
From Coq Require Import List Bool ZArith String Ascii Arith.
Import ListNotations.
From HV Require Import lib.Harness model.Schema.
Open Scope string_scope.

Fixpoint fforallb {A} (f : A -> bool) (l : list A) : bool :=
  match l with [] => true | a :: r => if f a then fforallb f r else false end.
Fixpoint fexistsb {A} (f : A -> bool) (l : list A) : bool :=
  match l with [] => false | a :: r => if f a then true else fexistsb f r end.
(* all_true (zip_with V ss ds) *)
Fixpoint fzip_all (V : json -> json -> bool) (ss ds : list json) : bool :=
  match ss, ds with
  | s :: ss', d :: ds' => if V s d then fzip_all V ss' ds' else false
  | _, _ => true
  end.
(* count_true (map P ss) *)
Fixpoint fcount (P : json -> bool) (ss : list json) : nat :=
  match ss with [] => 0 | s :: r => if P s then S (fcount P r) else fcount P r end.

Section Keywords.
  Variable V : json -> json -> bool.
  Variable root : json.

  Definition fchk_props (p : option json) (d : json) : bool :=
    match p with
    | None => true
    | Some (JObj ps) =>
        match d with
        | JObj o => fforallb (fun kv => match lookup (fst kv) ps with Some s => V s (snd kv) | None => true end) o
        | _ => true
        end
    | Some _ => false
    end.
  Definition fchk_required (r : option json) (d : json) : bool :=
    match r with
    | None => true
    | Some (JArr rs) =>
        match d with
        | JObj o => fforallb (fun r => match r with JStr n => has_key n o | _ => false end) rs
        | _ => true
        end
    | Some _ => false
    end.
  Definition fchk_addl (p a : option json) (d : json) : bool :=
    match a with
    | None => true
    | Some s =>
        match d with
        | JObj o => fforallb (fun kv => if in_props (fst kv) p then true else V s (snd kv)) o
        | _ => true
        end
    end.
  Definition fchk_prefix (pre : option json) (d : json) : bool :=
    match pre with
    | None => true
    | Some (JArr ps) => match d with JArr xs => fzip_all V ps xs | _ => true end
    | Some _ => false
    end.
  Definition fchk_items (pre it : option json) (d : json) : bool :=
    match it with
    | None => true
    | Some s => match d with JArr xs => fforallb (V s) (skipn (prefix_len pre) xs) | _ => true end
    end.
  Definition fchk_anyOf (a : option json) (d : json) : bool :=
    match a with
    | None => true
    | Some (JArr ss) => fexistsb (fun s => V s d) ss
    | Some _ => false
    end.
  Definition fchk_oneOf (a : option json) (d : json) : bool :=
    match a with
    | None => true
    | Some (JArr ss) => Nat.eqb (fcount (fun s => V s d) ss) 1
    | Some _ => false
    end.
  Definition fchk_enum (e : option json) (d : json) : bool :=
    match e with
    | None => true
    | Some (JArr es) => fexistsb (fun e => data_equiv e d) es
    | Some _ => false
    end.

  (* the checks of Schema.chk_object in the same order, each one evaluated only if the previous ones passed *)
  Definition fchk_object (kvs : obj) (d : json) : bool :=
    if fforallb known_kw (keys kvs) then
    if chk_type (lookup "type" kvs) d then
    if chk_const (lookup "const" kvs) d then
    if fchk_enum (lookup "enum" kvs) d then
    if chk_min (lookup "minItems" kvs) d then
    if chk_max (lookup "maxItems" kvs) d then
    if chk_unique (lookup "uniqueItems" kvs) d then
    if chk_pattern (lookup "pattern" kvs) d then
    if fchk_required (lookup "required" kvs) d then
    if fchk_props (lookup "properties" kvs) d then
    if fchk_addl (lookup "properties" kvs) (lookup "additionalProperties" kvs) d then
    if fchk_prefix (lookup "prefixItems" kvs) d then
    if fchk_items (lookup "prefixItems" kvs) (lookup "items" kvs) d then
    if fchk_anyOf (lookup "anyOf" kvs) d then
    if fchk_oneOf (lookup "oneOf" kvs) d then
    chk_ref V root (lookup "$ref" kvs) d
    else false else false else false else false else false else false else false else false
    else false else false else false else false else false else false else false.
End Keywords.

Fixpoint fvalidates (fuel : nat) (root s d : json) {struct fuel} : bool :=
  match s with
  | JBool b => b
  | JObj kvs =>
      match fuel with
      | O => false
      | S f => fchk_object (fvalidates f root) root kvs d
      end
  | _ => false
  end.
Definition faccepts (fuel : nat) (root : json) (name : string) (d : json) : bool :=
  fvalidates fuel root (entry name) d.
