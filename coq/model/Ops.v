(* Model of hugr.ops (hugr-py/src/hugr/ops.py): the operation classes with their outer/inner signatures,
   port kinds, port types and output counts, plus Hugr.port_kind / Hugr.port_type (hugr/hugr/base.py).
   Exceptions are values ([Raise e]).  Python list indexing (negative offsets count from the end) is kept.
   The type of constant payloads is a parameter [V] (C14 instantiates it with its value model; function
   valued constants nest operations inside values, so [op] cannot mention a fixed value type).
   No proofs in this file.  The model mirrors the code AFTER the two repairs recorded in known_findings.txt
   (Call counts ports from the instantiation; order ports of LoadConst / LoadFunc / Call have OrderKind);
   the pre-repair functions are kept as [call_num_out_orig] ... for the refutation witnesses. *)
From Coq Require Import ZArith NArith List Bool Arith.
Import ListNotations.
From HV Require Import lib.Harness model.Types.
Local Open Scope Z_scope.

(* ---- tys.FunctionType / tys.PolyFuncType as records, and their embedding into [ty] ---- *)
Record functy := mkF { f_in : list ty; f_out : list ty; f_reqs : list name }.
Record polyfunc := mkP { p_params : list typaram; p_body : functy }.
Definition fty (f : functy) : ty := TFunc (f_in f) (f_out f) (f_reqs f).
Definition pty (p : polyfunc) : ty :=
  TPoly (p_params p) (f_in (p_body p)) (f_out (p_body p)) (f_reqs (p_body p)).
Definition f_flip (f : functy) : functy := mkF (f_out f) (f_in f) [].     (* FunctionType.flip drops reqs *)
Definition mono (f : functy) : polyfunc := mkP [] f.

(* ---- tys.Kind ---- *)
Inductive kind := ValueKind (t : ty) | ConstKind (t : ty) | FunctionKind (p : polyfunc) | CFKind | OrderKind.
Inductive dir := In | Out.

(* ---- exceptions as values ---- *)
Inductive err :=
| EIncomplete      (* ops.IncompleteOp *)
| EInvalidPort     (* ops.InvalidPort *)
| EIndex           (* IndexError *)
| EValue           (* ValueError *)
| ENoMethod        (* AttributeError: the class has no such method *)
| ENoConcrete      (* ops.NoConcreteFunc *)
| EOther.          (* any other exception class (never produced by the model) *)
Inductive result (A : Type) := Ret (a : A) | Raise (e : err).
Arguments Ret {A} a.
Arguments Raise {A} e.
Definition bind {A B} (r : result A) (f : A -> result B) : result B :=
  match r with Ret a => f a | Raise e => Raise e end.
Definition rmap {A B} (f : A -> B) (r : result A) : result B := bind r (fun a => Ret (f a)).
Definition complete {A} (o : option A) : result A :=         (* ops._check_complete *)
  match o with Some a => Ret a | None => Raise EIncomplete end.

(* l[z] in Python *)
Definition py_index {A} (l : list A) (z : Z) : result A :=
  let n := Z.of_nat (length l) in
  let i := if z <? 0 then z + n else z in
  if (i <? 0) || (n <=? i) then Raise EIndex
  else match nth_error l (Z.to_nat i) with Some x => Ret x | None => Raise EIndex end.

(* Sum.variant_rows; UnitSum(n) holds [[]]*n *)
Definition variant_rows (t : ty) : result (list (list ty)) :=
  match t with
  | TSum rows => Ret rows
  | TUnitSum n => Ret (repeat [] n)
  | _ => Raise ENoMethod
  end.

Definition zlen {A} (l : list A) : Z := Z.of_nat (length l).

Section Ops.
  Variable V : Type.
  Variable vtype : V -> result ty.            (* val.Value.type_() *)

  (* one constructor per class of ops.py; [option] fields are the ones a builder fills in later *)
  Inductive op :=
  | OInput (types : list ty)
  | OOutput (types : option (list ty))
  | OCustom (ext nm descr : name) (sig : functy) (args : list tyarg)
  | OExtOp (ext nm : name) (def_sig : option polyfunc) (sig : option functy) (args : list tyarg)
  | OMakeTuple (types : option (list ty))
  | OUnpackTuple (types : option (list ty))
  | ONoop (t : option ty)
  | OTag (tag : Z) (sum : ty)
  | ODFG (inputs : list ty) (outputs : option (list ty)) (delta : list name)
  | OCFG (inputs : list ty) (outputs : option (list ty))
  | OBlock (inputs : list ty) (sum : option ty) (other : option (list ty)) (delta : list name)
  | OExit (cfg_outputs : option (list ty))
  | OConst (v : V)
  | OLoadConst (t : option ty)
  | OConditional (sum : ty) (other : list ty) (outputs : option (list ty))
  | OCase (inputs : list ty) (outputs : option (list ty))
  | OTailLoop (just_inputs rest : list ty) (just_outputs : option (list ty)) (delta : list name)
  | OFuncDefn (nm : name) (inputs : list ty) (params : list typaram) (outputs : option (list ty))
  | OFuncDecl (nm : name) (sig : polyfunc)
  | OModule
  | OCall (sig : polyfunc) (inst : functy) (targs : list tyarg)
  | OCallIndirect (sig : option functy)
  | OLoadFunc (sig : polyfunc) (inst : functy) (targs : list tyarg)
  | OAliasDecl (nm : name) (b : bound)
  | OAliasDefn (nm : name) (def : ty).

  (* ---- constructors with logic ---- *)
  (* _CallOrLoad.__init__ *)
  Definition call_or_load (mk : polyfunc -> functy -> list tyarg -> op)
             (sig : polyfunc) (inst : option functy) (targs : option (list tyarg)) : result op :=
    match p_params sig with
    | [] => Ret (mk sig (p_body sig) [])
    | _ :: _ =>
        match inst with
        | None => Raise ENoConcrete
        | Some i =>
            let ta := match targs with Some l => l | None => [] end in
            if Nat.eqb (length (p_params sig)) (length ta) then Ret (mk sig i ta) else Raise ENoConcrete
        end
    end.
  Definition call_new := call_or_load OCall.
  Definition loadfunc_new := call_or_load OLoadFunc.
  (* the sugar subclasses of Tag *)
  Definition some_new (ts : list ty) : op := OTag 1 (TSum [[]; ts]).      (* Some of tys *)
  Definition left_new (either : ty) : op := OTag 0 either.                 (* Left / Continue *)
  Definition right_new (either : ty) : op := OTag 1 either.                (* Right / Break *)
  (* what the builder creates for a constant: dfg.py load(): LoadConst(const.val.type_()) *)
  Definition loadconst_of (v : V) : result op := rmap (fun t => OLoadConst (Some t)) (vtype v).

  (* ---- signatures ---- *)
  Definition dfg_signature (i : list ty) (o : option (list ty)) (d : list name) : result functy :=
    bind (complete o) (fun o => Ret (mkF i o d)).
  Definition funcdefn_signature (i : list ty) (ps : list typaram) (o : option (list ty)) : result polyfunc :=
    bind (complete o) (fun o => Ret (mkP ps (mkF i o []))).
  (* the name the harness interns "prelude" to *)
  Definition prelude : name := 1%N.
  Definition make_tuple_sig (ts : list ty) : functy := mkF ts [TSum [ts]] [prelude].

  Definition outer_sig (o : op) : result functy :=
    match o with
    | OInput ts => Ret (mkF [] ts [])
    | OOutput ts => bind (complete ts) (fun ts => Ret (mkF ts [] []))
    | OCustom _ _ _ sig _ => Ret sig
    | OExtOp _ _ d sig _ =>
        match sig with
        | Some s => Ret s
        | None => match d with Some p => Ret (p_body p) | None => Raise EValue end
        end
    | OMakeTuple ts => bind (complete ts) (fun ts => Ret (make_tuple_sig ts))
    | OUnpackTuple ts => bind (complete ts) (fun ts => Ret (f_flip (make_tuple_sig ts)))
    | ONoop t => bind (complete t) (fun t => Ret (mkF [t] [t] [prelude]))
    | OTag tag sum =>
        bind (variant_rows sum) (fun rows => bind (py_index rows tag) (fun r => Ret (mkF r [sum] [])))
    | ODFG i o d => dfg_signature i o d
    | OCFG i o => dfg_signature i o []
    | OLoadConst t => bind (complete t) (fun t => Ret (mkF [] [t] []))
    | OConditional sum other outs => bind (complete outs) (fun outs => Ret (mkF (sum :: other) outs []))
    | OTailLoop ji rest jo _ => bind (complete jo) (fun jo => Ret (mkF (ji ++ rest) (jo ++ rest) []))
    | OCallIndirect sig => bind (complete sig) (fun s => Ret (mkF (fty s :: f_in s) (f_out s) []))
    | OLoadFunc _ inst _ => Ret (mkF [] [fty inst] [])
    | OBlock _ _ _ _ | OExit _ | OConst _ | OCase _ _ | OFuncDefn _ _ _ _ | OFuncDecl _ _ | OModule
    | OCall _ _ _ | OAliasDecl _ _ | OAliasDefn _ _ => Raise ENoMethod
    end.

  (* the dataflow signature a node exposes: outer_signature(), or Call.instantiation *)
  Definition df_sig (o : op) : result functy :=
    match o with OCall _ inst _ => Ret inst | _ => outer_sig o end.

  Definition inner_sig (o : op) : result functy :=
    match o with
    | ODFG i o d => dfg_signature i o d
    | OBlock i sum other _ =>
        bind (complete sum) (fun s => bind (complete other) (fun oth => Ret (mkF i (s :: oth) [])))
    | OCase i o => bind (complete o) (fun o => Ret (mkF i o []))
    | OTailLoop ji rest jo _ =>
        bind (complete jo) (fun jo => Ret (mkF (ji ++ rest) (TSum [ji; jo] :: rest) []))
    | OFuncDefn _ i ps o => rmap p_body (funcdefn_signature i ps o)
    | _ => Raise ENoMethod
    end.

  (* Conditional.nth_inputs / DataflowBlock.nth_outputs *)
  Definition nth_inputs (o : op) (n : Z) : result (list ty) :=
    match o with
    | OConditional sum other _ =>
        bind (variant_rows sum) (fun rows => bind (py_index rows n) (fun r => Ret (r ++ other)))
    | _ => Raise ENoMethod
    end.
  Definition nth_outputs (o : op) (n : Z) : result (list ty) :=
    match o with
    | OBlock _ sum other _ =>
        bind (complete sum) (fun s => bind (variant_rows s) (fun rows => bind (py_index rows n) (fun r =>
        bind (complete other) (fun oth => Ret (r ++ oth)))))
    | _ => Raise ENoMethod
    end.

  (* Call._function_port_offset *)
  Definition function_port_offset (o : op) : result Z :=
    match o with OCall _ inst _ => Ret (zlen (f_in inst)) | _ => Raise ENoMethod end.

  Definition num_out (o : op) : result Z :=
    match o with
    | OInput ts => Ret (zlen ts)
    | OOutput _ | OExit _ | OCase _ _ | OModule | OAliasDecl _ _ | OAliasDefn _ _ => Ret 0
    | OMakeTuple _ | ONoop _ | OTag _ _ | OConst _ | OLoadConst _ | OFuncDefn _ _ _ _ | OFuncDecl _ _
    | OLoadFunc _ _ _ => Ret 1
    | OCustom _ _ _ sig _ => Ret (zlen (f_out sig))
    | OExtOp _ _ _ _ _ | ODFG _ _ _ => rmap (fun s => zlen (f_out s)) (outer_sig o)
    | OUnpackTuple ts => rmap zlen (complete ts)
    | OCFG _ o | OConditional _ _ o => rmap zlen (complete o)
    | OBlock _ sum _ _ => bind (complete sum) (fun s => rmap zlen (variant_rows s))
    | OTailLoop _ rest jo _ => rmap (fun jo => zlen jo + zlen rest) (complete jo)
    | OCall _ inst _ => Ret (zlen (f_out inst))
    | OCallIndirect sig => rmap (fun s => zlen (f_out s)) (complete sig)
    end.

  (* ---- ports ---- *)
  (* ops._sig_port_type *)
  Definition sig_port_type (s : functy) (d : dir) (z : Z) : result ty :=
    if z =? -1 then Raise EValue
    else match d with In => py_index (f_in s) z | Out => py_index (f_out s) z end.

  (* isinstance(op, DataflowOp): structural protocol check = the classes deriving from DataflowOp *)
  Definition is_dataflow_op (o : op) : bool :=
    match o with
    | OInput _ | OOutput _ | OCustom _ _ _ _ _ | OExtOp _ _ _ _ _ | OMakeTuple _ | OUnpackTuple _ | ONoop _
    | OTag _ _ | ODFG _ _ _ | OCFG _ _ | OLoadConst _ | OConditional _ _ _ | OTailLoop _ _ _ _
    | OCallIndirect _ | OLoadFunc _ _ _ => true
    | _ => false
    end.

  (* DataflowOp.port_type: outer_signature() is evaluated before the offset is looked at *)
  Definition op_port_type (o : op) (d : dir) (z : Z) : result ty :=
    if is_dataflow_op o then bind (outer_sig o) (fun s => sig_port_type s d z) else Raise ENoMethod.

  Definition port_kind (o : op) (d : dir) (z : Z) : result kind :=
    match o with
    | OBlock _ _ _ _ | OExit _ => Ret CFKind
    | OCase _ _ | OModule | OAliasDecl _ _ | OAliasDefn _ _ => Raise EInvalidPort
    | OConst v =>
        match d with
        | Out => if z =? 0 then rmap ConstKind (vtype v) else Raise EInvalidPort
        | In => Raise EInvalidPort
        end
    | OFuncDefn _ i ps o =>
        match d with
        | Out => if z =? 0 then rmap FunctionKind (funcdefn_signature i ps o) else Raise EInvalidPort
        | In => Raise EInvalidPort
        end
    | OFuncDecl _ sig =>
        match d with
        | Out => if z =? 0 then Ret (FunctionKind sig) else Raise EInvalidPort
        | In => Raise EInvalidPort
        end
    | OLoadConst t =>
        if z =? -1 then Ret OrderKind
        else if z =? 0 then
          match d with In => rmap ConstKind (complete t) | Out => rmap ValueKind (complete t) end
        else Raise EInvalidPort
    | OLoadFunc sig inst _ =>
        if z =? -1 then Ret OrderKind
        else if z =? 0 then
          match d with In => Ret (FunctionKind sig) | Out => Ret (ValueKind (fty inst)) end
        else Raise EInvalidPort
    | OCall sig inst _ =>
        if z =? -1 then Ret OrderKind
        else match d with
             | In => if z =? zlen (f_in inst) then Ret (FunctionKind sig)
                     else rmap ValueKind (sig_port_type inst In z)
             | Out => rmap ValueKind (sig_port_type inst Out z)
             end
    | _ => (* DataflowOp.port_kind *)
        if z =? -1 then Ret OrderKind else rmap ValueKind (op_port_type o d z)
    end.

  (* Hugr.port_kind(port) = self[port.node].op.port_kind(port);  Hugr.port_type: *)
  Definition hugr_port_type (o : op) (d : dir) (z : Z) : result (option ty) :=
    if is_dataflow_op o then rmap Some (op_port_type o d z)
    else match o, d with
         | OCall _ _ _, Out =>
             bind (port_kind o d z) (fun k => match k with ValueKind t => Ret (Some t) | _ => Ret None end)
         | _, _ => Ret None
         end.

  (* ---- the two defects repaired in /repo, as they were (for the refutation witnesses) ---- *)
  Definition call_num_out_orig (o : op) : result Z :=
    match o with OCall sig _ _ => Ret (zlen (f_out (p_body sig))) | _ => num_out o end.
  Definition call_function_port_offset_orig (o : op) : result Z :=
    match o with OCall sig _ _ => Ret (zlen (f_in (p_body sig))) | _ => function_port_offset o end.
  Definition port_kind_orig (o : op) (d : dir) (z : Z) : result kind :=
    match o with
    | OLoadConst _ | OLoadFunc _ _ _ => if z =? -1 then Raise EInvalidPort else port_kind o d z
    | OCall sig inst _ =>
        match d with
        | In => if z =? zlen (f_in (p_body sig)) then Ret (FunctionKind sig)
                else rmap ValueKind (sig_port_type inst In z)
        | Out => rmap ValueKind (sig_port_type inst Out z)
        end
    | _ => port_kind o d z
    end.
End Ops.

Arguments OInput {V}. Arguments OOutput {V}. Arguments OCustom {V}. Arguments OExtOp {V}.
Arguments OMakeTuple {V}. Arguments OUnpackTuple {V}. Arguments ONoop {V}. Arguments OTag {V}.
Arguments ODFG {V}. Arguments OCFG {V}. Arguments OBlock {V}. Arguments OExit {V}. Arguments OConst {V}.
Arguments OLoadConst {V}. Arguments OConditional {V}. Arguments OCase {V}. Arguments OTailLoop {V}.
Arguments OFuncDefn {V}. Arguments OFuncDecl {V}. Arguments OModule {V}. Arguments OCall {V}.
Arguments OCallIndirect {V}. Arguments OLoadFunc {V}. Arguments OAliasDecl {V}. Arguments OAliasDefn {V}.
Arguments call_new {V}. Arguments loadfunc_new {V}. Arguments some_new {V}. Arguments left_new {V}.
Arguments right_new {V}. Arguments loadconst_of {V}. Arguments outer_sig {V}. Arguments df_sig {V}.
Arguments inner_sig {V}. Arguments nth_inputs {V}. Arguments nth_outputs {V}.
Arguments function_port_offset {V}. Arguments num_out {V}. Arguments is_dataflow_op {V}.
Arguments op_port_type {V}. Arguments port_kind {V}. Arguments hugr_port_type {V}.
Arguments call_num_out_orig {V}. Arguments call_function_port_offset_orig {V}. Arguments port_kind_orig {V}.
