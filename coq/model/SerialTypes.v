(* Serial layer of hugr._serialization.tys: one constructor per pydantic class, fields in declaration
   order (the discriminator fields tp / tya / t / s are the constructor itself).  Strings are interned
   to N by the harness, ints that the schema-valid documents keep non-negative are N.  No proofs. *)
From Coq Require Import NArith List Bool Arith.
Import ListNotations.
From HV Require Import lib.Harness model.Types.

(* TypeParam union (tys.py:74-136) *)
Inductive stparam :=
| SPType (b : bound)                       (* TypeTypeParam: b *)
| SPBoundedNat (bnd : option N)            (* BoundedNatParam: bound *)
| SPString                                 (* StringParam *)
| SPList (param : stparam)                 (* ListParam: param *)
| SPTuple (params : list stparam)          (* TupleParam: params *)
| SPExtensions.                            (* ExtensionsParam *)

(* Type union (tys.py:227-447) and TypeArg union (tys.py:149-214) *)
Inductive sty :=
| SQubit
| SVariable (i : N) (b : bound)
| SRowVar (i : N) (b : bound)
| SUSize
| SFunctionType (input output : list sty) (runtime_reqs : list name)
| SUnitSum (size : N)                      (* SumType root UnitSum *)
| SGeneralSum (rows : list (list sty))     (* SumType root GeneralSum *)
| SOpaque (extension id : name) (args : list starg) (bnd : bound)
| SAlias (bnd : bound) (nm : name)
with starg :=
| SATy (t : sty)                           (* TypeTypeArg: ty *)
| SANat (n : N)                            (* BoundedNatArg: n *)
| SAString (arg : name)                    (* StringArg: arg *)
| SASeq (elems : list starg)               (* SequenceArg: elems *)
| SAExts (es : list name)                  (* ExtensionsArg: es *)
| SAVar (idx : N) (cached_decl : stparam). (* VariableArg: idx, cached_decl *)

(* FunctionType / PolyFuncType where a field is declared with that class (not the Type union) *)
Record sfunc := SFunc { sf_input : list sty; sf_output : list sty; sf_reqs : list name }.
Record spoly := SPoly { sp_params : list stparam; sp_body : sfunc }.

(* ---- induction principles through the nested lists ---- *)
Section PInd.
  Variable P : stparam -> Prop.
  Hypothesis HT : forall b, P (SPType b).
  Hypothesis HN : forall b, P (SPBoundedNat b).
  Hypothesis HS : P SPString.
  Hypothesis HL : forall p, P p -> P (SPList p).
  Hypothesis HTu : forall ps, Forall P ps -> P (SPTuple ps).
  Hypothesis HE : P SPExtensions.
  Fixpoint stparam_ind2 (p : stparam) : P p :=
    match p with
    | SPType b => HT b | SPBoundedNat b => HN b | SPString => HS
    | SPList q => HL q (stparam_ind2 q)
    | SPTuple ps => HTu ps ((fix go (l : list stparam) : Forall P l :=
                               match l with [] => Forall_nil _ | x :: r => Forall_cons x (stparam_ind2 x) (go r) end) ps)
    | SPExtensions => HE
    end.
End PInd.

Section TPInd.
  Variable P : typaram -> Prop.
  Hypothesis HT : forall b, P (PType b).
  Hypothesis HN : forall b, P (PNat b).
  Hypothesis HS : P PString.
  Hypothesis HL : forall p, P p -> P (PList p).
  Hypothesis HTu : forall ps, Forall P ps -> P (PTuple ps).
  Hypothesis HE : P PExts.
  Fixpoint typaram_ind2 (p : typaram) : P p :=
    match p with
    | PType b => HT b | PNat b => HN b | PString => HS
    | PList q => HL q (typaram_ind2 q)
    | PTuple ps => HTu ps ((fix go (l : list typaram) : Forall P l :=
                               match l with [] => Forall_nil _ | x :: r => Forall_cons x (typaram_ind2 x) (go r) end) ps)
    | PExts => HE
    end.
End TPInd.

Section SInd.
  Variables (P : sty -> Prop) (Q : starg -> Prop).
  Hypothesis HQ : P SQubit.
  Hypothesis HV : forall i b, P (SVariable i b).
  Hypothesis HR : forall i b, P (SRowVar i b).
  Hypothesis HU : P SUSize.
  Hypothesis HF : forall i o r, Forall P i -> Forall P o -> P (SFunctionType i o r).
  Hypothesis HUS : forall n, P (SUnitSum n).
  Hypothesis HGS : forall rows, Forall (Forall P) rows -> P (SGeneralSum rows).
  Hypothesis HO : forall e id a b, Forall Q a -> P (SOpaque e id a b).
  Hypothesis HA : forall b n, P (SAlias b n).
  Hypothesis HAT : forall t, P t -> Q (SATy t).
  Hypothesis HAN : forall n, Q (SANat n).
  Hypothesis HAS : forall s, Q (SAString s).
  Hypothesis HASeq : forall l, Forall Q l -> Q (SASeq l).
  Hypothesis HAE : forall es, Q (SAExts es).
  Hypothesis HAV : forall i p, Q (SAVar i p).
  Fixpoint sty_ind2 (t : sty) : P t :=
    let fix row (l : list sty) : Forall P l :=
      match l with [] => Forall_nil _ | x :: r => Forall_cons x (sty_ind2 x) (row r) end in
    let fix rows (l : list (list sty)) : Forall (Forall P) l :=
      match l with [] => Forall_nil _ | x :: r => Forall_cons x (row x) (rows r) end in
    let fix args (l : list starg) : Forall Q l :=
      match l with [] => Forall_nil _ | x :: r => Forall_cons x (starg_ind2 x) (args r) end in
    match t with
    | SQubit => HQ | SVariable i b => HV i b | SRowVar i b => HR i b | SUSize => HU
    | SFunctionType i o r => HF i o r (row i) (row o)
    | SUnitSum n => HUS n
    | SGeneralSum rs => HGS rs (rows rs)
    | SOpaque e id a b => HO e id a b (args a)
    | SAlias b n => HA b n
    end
  with starg_ind2 (a : starg) : Q a :=
    let fix args (l : list starg) : Forall Q l :=
      match l with [] => Forall_nil _ | x :: r => Forall_cons x (starg_ind2 x) (args r) end in
    match a with
    | SATy t => HAT t (sty_ind2 t)
    | SANat n => HAN n
    | SAString s => HAS s
    | SASeq l => HASeq l (args l)
    | SAExts es => HAE es
    | SAVar i p => HAV i p
    end.
End SInd.

(* ---- boolean equalities (used by the correspondence runs only) ---- *)
Definition names_eqb : list name -> list name -> bool := list_eqb N.eqb.
Fixpoint stparam_eqb (a b : stparam) : bool :=
  match a, b with
  | SPType x, SPType y => bound_eqb x y
  | SPBoundedNat x, SPBoundedNat y => option_eqb N.eqb x y
  | SPString, SPString | SPExtensions, SPExtensions => true
  | SPList x, SPList y => stparam_eqb x y
  | SPTuple x, SPTuple y =>
      (fix go (l m : list stparam) : bool :=
         match l, m with [], [] => true | p :: r, q :: s => stparam_eqb p q && go r s | _, _ => false end) x y
  | _, _ => false
  end.
Fixpoint sty_eqb (a b : sty) : bool :=
  let fix row (l m : list sty) : bool :=
    match l, m with [], [] => true | p :: r, q :: s => sty_eqb p q && row r s | _, _ => false end in
  let fix rows (l m : list (list sty)) : bool :=
    match l, m with [], [] => true | p :: r, q :: s => row p q && rows r s | _, _ => false end in
  let fix args (l m : list starg) : bool :=
    match l, m with [], [] => true | p :: r, q :: s => starg_eqb p q && args r s | _, _ => false end in
  match a, b with
  | SQubit, SQubit | SUSize, SUSize => true
  | SVariable i x, SVariable j y | SRowVar i x, SRowVar j y => N.eqb i j && bound_eqb x y
  | SFunctionType i o r, SFunctionType i' o' r' => row i i' && row o o' && names_eqb r r'
  | SUnitSum n, SUnitSum m => N.eqb n m
  | SGeneralSum r, SGeneralSum s => rows r s
  | SOpaque e i a x, SOpaque e' i' a' y => N.eqb e e' && N.eqb i i' && args a a' && bound_eqb x y
  | SAlias x n, SAlias y m => bound_eqb x y && N.eqb n m
  | _, _ => false
  end
with starg_eqb (a b : starg) : bool :=
  let fix args (l m : list starg) : bool :=
    match l, m with [], [] => true | p :: r, q :: s => starg_eqb p q && args r s | _, _ => false end in
  match a, b with
  | SATy x, SATy y => sty_eqb x y
  | SANat x, SANat y => N.eqb x y
  | SAString x, SAString y => N.eqb x y
  | SASeq x, SASeq y => args x y
  | SAExts x, SAExts y => names_eqb x y
  | SAVar i p, SAVar j q => N.eqb i j && stparam_eqb p q
  | _, _ => false
  end.
Definition sfunc_eqb (a b : sfunc) : bool :=
  list_eqb sty_eqb (sf_input a) (sf_input b) && list_eqb sty_eqb (sf_output a) (sf_output b) &&
  names_eqb (sf_reqs a) (sf_reqs b).
Definition spoly_eqb (a b : spoly) : bool :=
  list_eqb stparam_eqb (sp_params a) (sp_params b) && sfunc_eqb (sp_body a) (sp_body b).
