(* Boolean equality on the shared type model (Types.v), used by correspondence / monitor runs, and the
   normal form under which Python's `==` on hugr types is syntactic: Sum.__eq__ compares variant_rows only,
   so UnitSum(n) == Sum([[]]*n) (and Tuple/Option/Either equal the general Sum, which Types.v already
   identifies).  No proofs here. *)
From Coq Require Import NArith List Bool Arith.
Import ListNotations.
From HV Require Import lib.Harness model.Types.

Fixpoint typaram_eqb (a b : typaram) : bool :=
  let fix go (l m : list typaram) : bool :=
    match l, m with
    | [], [] => true
    | x :: r, y :: s => typaram_eqb x y && go r s
    | _, _ => false
    end in
  match a, b with
  | PType x, PType y => bound_eqb x y
  | PNat x, PNat y => option_eqb N.eqb x y
  | PString, PString => true
  | PList x, PList y => typaram_eqb x y
  | PTuple x, PTuple y => go x y
  | PExts, PExts => true
  | _, _ => false
  end.

Definition typedef_eqb (a b : typedef) : bool :=
  N.eqb (td_ext a) (td_ext b) && N.eqb (td_name a) (td_name b) && N.eqb (td_descr a) (td_descr b) &&
  list_eqb typaram_eqb (td_params a) (td_params b) && defbound_eqb (td_bound a) (td_bound b).
Definition extclass_eqb (a b : extclass) : bool :=
  match a, b with Generic, Generic => true | ElemAt i, ElemAt j => Nat.eqb i j | _, _ => false end.

Fixpoint ty_eqb (a b : ty) : bool :=
  let fix row (l m : list ty) : bool :=
    match l, m with
    | [], [] => true
    | x :: r, y :: s => ty_eqb x y && row r s
    | _, _ => false
    end in
  let fix rows (l m : list (list ty)) : bool :=
    match l, m with
    | [], [] => true
    | x :: r, y :: s => row x y && rows r s
    | _, _ => false
    end in
  let fix args (l m : list tyarg) : bool :=
    match l, m with
    | [], [] => true
    | x :: r, y :: s => tyarg_eqb x y && args r s
    | _, _ => false
    end in
  match a, b with
  | TSum x, TSum y => rows x y
  | TUnitSum n, TUnitSum m => Nat.eqb n m
  | TVar i b1, TVar j b2 | TRowVar i b1, TRowVar j b2 => Nat.eqb i j && bound_eqb b1 b2
  | TUSize, TUSize | TQubit, TQubit => true
  | TAlias n b1, TAlias m b2 => N.eqb n m && bound_eqb b1 b2
  | TFunc i o r, TFunc i' o' r' => row i i' && row o o' && list_eqb N.eqb r r'
  | TPoly ps i o r, TPoly ps' i' o' r' =>
      list_eqb typaram_eqb ps ps' && row i i' && row o o' && list_eqb N.eqb r r'
  | TOpaque e id a1 b1, TOpaque e' id' a2 b2 => N.eqb e e' && N.eqb id id' && args a1 a2 && bound_eqb b1 b2
  | TExt d a1 c, TExt d' a2 c' => typedef_eqb d d' && args a1 a2 && extclass_eqb c c'
  | _, _ => false
  end
with tyarg_eqb (a b : tyarg) : bool :=
  let fix args (l m : list tyarg) : bool :=
    match l, m with
    | [], [] => true
    | x :: r, y :: s => tyarg_eqb x y && args r s
    | _, _ => false
    end in
  match a, b with
  | AType x, AType y => ty_eqb x y
  | ANat x, ANat y => N.eqb x y
  | AString x, AString y => N.eqb x y
  | ASeq x, ASeq y => args x y
  | AExts x, AExts y => list_eqb N.eqb x y
  | AVar i p, AVar j q => Nat.eqb i j && typaram_eqb p q
  | _, _ => false
  end.

(* UnitSum(n) |-> Sum([[]]*n), everywhere *)
Fixpoint norm_ty (t : ty) : ty :=
  let fix row (l : list ty) : list ty := match l with [] => [] | x :: r => norm_ty x :: row r end in
  let fix rows (l : list (list ty)) : list (list ty) := match l with [] => [] | x :: r => row x :: rows r end in
  let fix args (l : list tyarg) : list tyarg := match l with [] => [] | x :: r => norm_arg x :: args r end in
  match t with
  | TSum rs => TSum (rows rs)
  | TUnitSum n => TSum (repeat [] n)
  | TFunc i o r => TFunc (row i) (row o) r
  | TPoly ps i o r => TPoly ps (row i) (row o) r
  | TOpaque e id a b => TOpaque e id (args a) b
  | TExt d a c => TExt d (args a) c
  | _ => t
  end
with norm_arg (a : tyarg) : tyarg :=
  let fix args (l : list tyarg) : list tyarg := match l with [] => [] | x :: r => norm_arg x :: args r end in
  match a with
  | AType t => AType (norm_ty t)
  | ASeq l => ASeq (args l)
  | _ => a
  end.

(* Python's == on types *)
Definition ty_eqv (a b : ty) : bool := ty_eqb (norm_ty a) (norm_ty b).
Definition row_eqv : list ty -> list ty -> bool := list_eqb ty_eqv.
