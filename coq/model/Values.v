(* Model for C14: constant values as built by the constructors and helpers of hugr.val and the std
   extension value classes, the type each reports (type_()), and the serial form each emits
   (_to_serial_root()).  None = the Python code raises.  No proofs here. *)
From Coq Require Import ZArith NArith List Bool Arith.
Import ListNotations.
From HV Require Import lib.Harness model.Types.

(* name of a custom constant (the "c" field of a serial CustomConst) *)
Inductive cname := CInt | CF64 | CString | CArray | CList | CStatic | COther (n : name).

(* the type definitions the std value classes instantiate, as loaded by hugr-py from its JSON files
   (the harness prints them from the loaded objects) *)
Record stddefs := { d_int : typedef; d_float : typedef; d_string : typedef;
                    d_array : typedef; d_list : typedef; d_static : typedef }.

(* a function body (a HUGR) seen through its root's signature: Function.type_() = body.root_op().inner_signature() *)
Record fsig := { fs_in : list ty; fs_out : list ty; fs_reqs : list name }.

(* value expressions: one constructor per public way to build a constant *)
Inductive vexpr :=
| ESum (tag : nat) (typ : ty) (vs : list vexpr)      (* val.Sum(tag, typ, vals): the type is the caller's *)
| EUnitSum (tag size : nat)                          (* val.UnitSum(tag, size) *)
| EBool (b : bool)                                   (* bool_value(b), TRUE, FALSE *)
| ETuple (vs : list vexpr)
| ESome (vs : list vexpr)
| ENone (ts : list ty)
| ELeft (vs : list vexpr) (rts : list ty)
| ERight (lts : list ty) (vs : list vexpr)
| EFunc (sig : fsig)                                 (* val.Function(body) *)
| EExt (nm : cname) (typ : ty) (exts : list name)    (* val.Extension(name, typ, payload, extensions) *)
| EInt (v : Z) (w : nat)                             (* IntVal(v, width) *)
| EFloat | EString                                   (* FloatVal(x), StringVal(s) *)
| EArray (vs : list vexpr) (elem : ty)               (* ArrayVal(vs, elem_ty) *)
| EList (vs : list vexpr) (elem : ty)
| EStatic (vs : list vexpr) (elem : ty) (nm : name). (* StaticArrayVal(vs, elem_ty, name) *)

(* serial values: SumValue / TupleValue / FunctionValue / CustomValue of _serialization/ops.py *)
Inductive sval :=
| SSum (tag : nat) (typ : ty) (vs : list sval)
| STuple (vs : list sval)
| SFunc (decl : fsig) (body_in body_out : list ty)   (* root signature; rows of the body's Input / Output nodes *)
| SExt (nm : cname) (typ : ty) (p : spayload) (exts : list name)
with spayload :=
| SPInt (w : nat) (v : Z) | SPFloat | SPString
| SPSeq (vs : list sval) (elem : ty)                 (* {"values": [...], "typ": elem} of ArrayValue / ListValue *)
| SPStatic (vs : list sval) (elem : ty) (nm : name)  (* {"value": {"values", "typ"}, "name"} *)
| SPOther.

Section Std.
  Variable std : stddefs.

  Definition int_t (w : nat) : ty := TExt (d_int std) [ANat (N.of_nat w)] Generic.
  Definition float_t : ty := TExt (d_float std) [] Generic.
  Definition string_t : ty := TExt (d_string std) [] Generic.
  Definition array_t (n : nat) (elem : ty) : ty := TExt (d_array std) [ANat (N.of_nat n); AType elem] (ElemAt 1).
  Definition list_t (elem : ty) : ty := TExt (d_list std) [AType elem] (ElemAt 0).
  Definition static_t (elem : ty) : ty := TExt (d_static std) [AType elem] (ElemAt 0).
  Definition fsig_ty (s : fsig) : ty := TFunc (fs_in s) (fs_out s) (fs_reqs s).

  (* type_() *)
  Fixpoint type_of (e : vexpr) : option ty :=
    let fix tys (l : list vexpr) : option (list ty) :=
      match l with
      | [] => Some []
      | x :: r => match type_of x, tys r with Some t, Some ts => Some (t :: ts) | _, _ => None end
      end in
    match e with
    | ESum _ typ _ => Some typ
    | EUnitSum _ n => Some (TUnitSum n)
    | EBool _ => Some (TUnitSum 2)
    | ETuple vs => match tys vs with Some ts => Some (TSum [ts]) | None => None end
    | ESome vs => match tys vs with Some ts => Some (TSum [[]; ts]) | None => None end
    | ENone ts => Some (TSum [[]; ts])
    | ELeft vs rts => match tys vs with Some ts => Some (TSum [ts; rts]) | None => None end
    | ERight lts vs => match tys vs with Some ts => Some (TSum [lts; ts]) | None => None end
    | EFunc sig => Some (fsig_ty sig)
    | EExt _ typ _ => Some typ
    | EInt _ w => Some (int_t w)
    | EFloat => Some float_t
    | EString => Some string_t
    | EArray vs elem => Some (array_t (length vs) elem)
    | EList _ elem => Some (list_t elem)
    | EStatic _ elem _ =>                  (* StaticArray(elem) raises ValueError on a linear element *)
        match static_array_accepts elem with Some true => Some (static_t elem) | _ => None end
    end.
  Definition types_of (l : list vexpr) : option (list ty) := mapO type_of l.

  (* _to_serial_root() *)
  Fixpoint ser (e : vexpr) : option sval :=
    let fix sers (l : list vexpr) : option (list sval) :=
      match l with
      | [] => Some []
      | x :: r => match ser x, sers r with Some s, Some ss => Some (s :: ss) | _, _ => None end
      end in
    match e with
    | ESum tag typ vs => match sers vs with Some ss => Some (SSum tag typ ss) | None => None end
    | EUnitSum tag n => Some (SSum tag (TUnitSum n) [])
    | EBool b => Some (SSum (if b then 1 else 0) (TUnitSum 2) [])
    | ETuple vs => match sers vs with Some ss => Some (STuple ss) | None => None end     (* TupleValue: no tag, no type *)
    | ESome vs => match types_of vs, sers vs with Some ts, Some ss => Some (SSum 1 (TSum [[]; ts]) ss) | _, _ => None end
    | ENone ts => Some (SSum 0 (TSum [[]; ts]) [])
    | ELeft vs rts => match types_of vs, sers vs with Some ts, Some ss => Some (SSum 0 (TSum [ts; rts]) ss) | _, _ => None end
    | ERight lts vs => match types_of vs, sers vs with Some ts, Some ss => Some (SSum 1 (TSum [lts; ts]) ss) | _, _ => None end
    | EFunc sig => Some (SFunc sig (fs_in sig) (fs_out sig))
    | EExt nm typ exts => Some (SExt nm typ SPOther exts)
    | EInt v w => Some (SExt CInt (int_t w) (SPInt w v) [td_ext (d_int std)])
    | EFloat => Some (SExt CF64 float_t SPFloat [td_ext (d_float std)])
    | EString => Some (SExt CString string_t SPString [td_ext (d_string std)])
    | EArray vs elem =>
        match sers vs with
        | Some ss => Some (SExt CArray (array_t (length vs) elem) (SPSeq ss elem) [td_ext (d_array std)])
        | None => None
        end
    | EList vs elem =>
        match sers vs with
        | Some ss => Some (SExt CList (list_t elem) (SPSeq ss elem) [td_ext (d_list std)])
        | None => None
        end
    | EStatic vs elem nm =>
        match static_array_accepts elem, sers vs with
        | Some true, Some ss => Some (SExt CStatic (static_t elem) (SPStatic ss elem nm) [td_ext (d_static std)])
        | _, _ => None
        end
    end.

  (* ops.Const(v).port_kind(out 0) = ConstKind(v.type_());  DfBase.load builds LoadConst(const_op.val.type_()),
     whose static input 0 is ConstKind(that type) and whose signature is [] -> [that type] *)
  Definition const_port_type (e : vexpr) : option ty := type_of e.
  Definition load_const_type (e : vexpr) : option ty := type_of e.
  Definition load_sig (e : vexpr) : option (list ty * list ty) :=
    match load_const_type e with Some t => Some ([], [t]) | None => None end.
End Std.

(* ---- a Const node over time (seeded round 2: answers remembered across a change of the value) ----
   ops.Const is a plain dataclass holding `val`; value objects hold their fields (a val.Function its body hugr,
   IntVal its v / width, ...).  Nothing derived from the value is stored anywhere: type_(), _to_serial(),
   Const.port_kind and DfBase.load recompute from the value held at the time of the call.  A history is a list of
   steps on ONE Const node: the value it holds becomes e (by whatever public route: the value object is changed in
   place — a stubbed function body is finished with set_outputs, `fv.body = ...`, `iv.width = ...` —, the op's field
   is re-assigned `hugr[c].op.val = v`, or the op is replaced `hugr[c].op = Const(v)`), or an observation is
   taken (type_(), _to_serial_root(), the static port kind, a new load(node)). *)
Inductive hstep := HSet (e : vexpr) | HObs.
Record hobs := { ho_type : option ty; ho_ser : option sval; ho_port : option ty;
                 ho_load : option (list ty * list ty) }.
Definition observe_const (std : stddefs) (e : vexpr) : hobs :=
  {| ho_type := type_of std e; ho_ser := ser std e; ho_port := const_port_type std e; ho_load := load_sig std e |}.
Fixpoint run_hist (std : stddefs) (cur : vexpr) (steps : list hstep) : list hobs :=
  match steps with
  | [] => []
  | HSet e :: r => run_hist std e r
  | HObs :: r => observe_const std cur :: run_hist std cur r
  end.
