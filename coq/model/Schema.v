(* C17 — JSON trees, the JSON-Schema subset used by specification/schema/*.json, an executable
   validator, the normalisation `norm` and the comparison `schema_equiv`.  No proofs here.

   Sources mirrored:
   - scripts/generate_schema.py writes `models_json_schema([...])[1]` = {"$defs": {...}, "title": ...};
     a document is checked against one definition:  {"$ref": "#/$defs/<Name>"} relative to that root.
   - keyword semantics: JSON Schema draft 2020-12 (what pydantic emits), restricted to the keywords
     that occur in the four files (enumerated by the translator, which fails closed on any other).  *)
From Coq Require Import List Bool ZArith String Ascii Arith.
Import ListNotations.
From HV Require Import lib.Harness.
Open Scope string_scope.

Inductive json :=
| JNull
| JBool (b : bool)
| JNum (z : Z)            (* integral number *)
| JFlt (s : string)       (* non-integral number, canonical decimal text *)
| JStr (s : string)
| JArr (l : list json)
| JObj (kvs : list (string * json)).

Definition obj := list (string * json).

Fixpoint lookup (k : string) (kvs : obj) : option json :=
  match kvs with
  | [] => None
  | (k', v) :: r => if k =? k' then Some v else lookup k r
  end.
Definition has_key (k : string) (o : obj) : bool := match lookup k o with Some _ => true | None => false end.
Definition keys (o : obj) : list string := map fst o.
Definition nodupkeys (o : obj) : bool := nodupb String.eqb (keys o).

(* ------------------------------------------------------------------ equality on JSON values *)
(* structural (Leibniz) equality *)
Fixpoint json_eqb (a b : json) : bool :=
  match a, b with
  | JNull, JNull => true
  | JBool x, JBool y => Bool.eqb x y
  | JNum x, JNum y => Z.eqb x y
  | JFlt x, JFlt y => x =? y
  | JStr x, JStr y => x =? y
  | JArr x, JArr y =>
      (fix go (x y : list json) : bool :=
         match x, y with
         | [], [] => true
         | p :: x', q :: y' => json_eqb p q && go x' y'
         | _, _ => false
         end) x y
  | JObj x, JObj y =>
      (fix go (x y : obj) : bool :=
         match x, y with
         | [], [] => true
         | (k, p) :: x', (l, q) :: y' => (k =? l) && json_eqb p q && go x' y'
         | _, _ => false
         end) x y
  | _, _ => false
  end.

(* objects related as finite maps: same size, no duplicate keys, every key of x bound in y to a related value *)
Definition maprel (R : string -> json -> json -> bool) (x y : obj) : bool :=
  Nat.eqb (List.length x) (List.length y) && nodupkeys x && nodupkeys y &&
  forallb (fun kv => match lookup (fst kv) y with Some w => R (fst kv) (snd kv) w | None => false end) x.

Section ListRel.
  Variable R : json -> json -> bool.
  Fixpoint list_rel (x y : list json) : bool :=
    match x, y with
    | [], [] => true
    | p :: x', q :: y' => R p q && list_rel x' y'
    | _, _ => false
    end.
End ListRel.

(* equality of JSON *data* in JSON-Schema's sense: arrays pointwise, objects as maps (key order irrelevant) *)
Fixpoint data_equiv (a b : json) : bool :=
  match a, b with
  | JNull, JNull => true
  | JBool x, JBool y => Bool.eqb x y
  | JNum x, JNum y => Z.eqb x y
  | JFlt x, JFlt y => x =? y
  | JStr x, JStr y => x =? y
  | JArr x, JArr y => list_rel data_equiv x y
  | JObj x, JObj y => maprel (fun _ => data_equiv) x y
  | _, _ => false
  end.

(* ------------------------------------------------------------------ keywords *)
Inductive kw :=
| KType | KProps | KRequired | KAddl | KItems | KPrefix | KAnyOf | KOneOf | KConst | KEnum | KRef | KDefs
| KMinItems | KMaxItems | KUnique | KPattern
| KAnnot        (* title, description, default, discriminator: no effect on validation *)
| KUnknown.

Definition kw_of (k : string) : kw :=
  if k =? "type" then KType else if k =? "properties" then KProps else if k =? "required" then KRequired
  else if k =? "additionalProperties" then KAddl else if k =? "items" then KItems
  else if k =? "prefixItems" then KPrefix else if k =? "anyOf" then KAnyOf else if k =? "oneOf" then KOneOf
  else if k =? "const" then KConst else if k =? "enum" then KEnum else if k =? "$ref" then KRef
  else if k =? "$defs" then KDefs else if k =? "minItems" then KMinItems else if k =? "maxItems" then KMaxItems
  else if k =? "uniqueItems" then KUnique else if k =? "pattern" then KPattern
  else if (k =? "title") || (k =? "description") || (k =? "default") || (k =? "discriminator") then KAnnot
  else KUnknown.

(* what the VALUE of a keyword is *)
Inductive kind :=
| KdSchema      (* a schema:              additionalProperties, items *)
| KdList        (* an array of schemas:   prefixItems, anyOf, oneOf *)
| KdMap         (* name -> schema:        properties, $defs *)
| KdSet         (* an array used as a set: required (names), enum (admissible values) *)
| KdPayload     (* plain data read by the validator: type, const, $ref, minItems, maxItems, uniqueItems, pattern *)
| KdData        (* plain data NOT read by the validator (annotations) *)
| KdUnknown.

Definition kind_of (k : kw) : kind :=
  match k with
  | KAddl | KItems => KdSchema
  | KPrefix | KAnyOf | KOneOf => KdList
  | KProps | KDefs => KdMap
  | KRequired | KEnum => KdSet
  | KType | KConst | KRef | KMinItems | KMaxItems | KUnique | KPattern => KdPayload
  | KAnnot => KdData
  | KUnknown => KdUnknown
  end.

Definition is_true (v : json) : bool := match v with JBool true => true | _ => false end.
Definition known_kw (k : string) : bool := match kw_of k with KUnknown => false | _ => true end.
Definition known_keys (kvs : obj) : bool := forallb known_kw (keys kvs).

(* ------------------------------------------------------------------ norm *)
(* Erases ONLY `"additionalProperties": true` (JSON Schema's default: absent = every extra member is
   accepted), in schema positions only.  A property *named* additionalProperties, a const/default
   payload etc. are not schema positions and are left alone.  Objects with duplicate keys (never
   produced by a JSON parser) are mapped without erasing, so that first-match lookup is preserved. *)
Fixpoint norm (s : json) : json :=
  match s with
  | JObj kvs =>
      let dropping := nodupkeys kvs in
      JObj ((fix go (l : obj) : obj :=
               match l with
               | [] => []
               | (k, v) :: r =>
                   match kw_of k with
                   | KAddl => if dropping && is_true v then go r else (k, norm v) :: go r
                   | KItems => (k, norm v) :: go r
                   | KPrefix | KAnyOf | KOneOf =>
                       (k, match v with JArr xs => JArr (map norm xs) | _ => v end) :: go r
                   | KProps | KDefs =>
                       (k, match v with
                           | JObj ps => JObj (map (fun p => (fst p, norm (snd p))) ps)
                           | _ => v
                           end) :: go r
                   | _ => (k, v) :: go r
                   end
               end) kvs)
  | _ => s
  end.

(* the same function, entry by entry (norm_obj in proofs/SchemaP.v shows they coincide) *)
Definition drops (dropping : bool) (k : string) (v : json) : bool :=
  match kw_of k with KAddl => dropping && is_true v | _ => false end.
Definition norm_val (k : string) (v : json) : json :=
  match kw_of k with
  | KAddl | KItems => norm v
  | KPrefix | KAnyOf | KOneOf => match v with JArr xs => JArr (map norm xs) | _ => v end
  | KProps | KDefs => match v with JObj ps => JObj (map (fun p => (fst p, norm (snd p))) ps) | _ => v end
  | _ => v
  end.
Fixpoint norm_entries (dropping : bool) (l : obj) : obj :=
  match l with
  | [] => []
  | (k, v) :: r => if drops dropping k v then norm_entries dropping r
                   else (k, norm_val k v) :: norm_entries dropping r
  end.

(* ------------------------------------------------------------------ schema_equiv *)
Definition set_incl (a b : list json) : bool := forallb (fun x => existsb (json_eqb x) b) a.
Definition set_eq (a b : list json) : bool := set_incl a b && set_incl b a.

(* Two schema documents define the same schema: keywords of an object compared as a MAP (key order is
   irrelevant in JSON), `properties`/`$defs` as maps, `required`/`enum` as SETS (JSON Schema: `required`
   is a set of names, `enum` a set of admissible values; order and repetition carry no meaning),
   `prefixItems`/`anyOf`/`oneOf` pointwise in order (position matters for prefixItems; for anyOf/oneOf a
   reordering would be harmless but is reported, conservatively), payloads (type, const, $ref, bounds,
   pattern) by structural equality, annotations (title, description, default, discriminator) as JSON data
   with objects as maps.  Unknown keyword: false. *)
Fixpoint schema_equiv (a b : json) : bool :=
  match a, b with
  | JBool x, JBool y => Bool.eqb x y
  | JObj x, JObj y =>
      maprel (fun k v w =>
        match kind_of (kw_of k) with
        | KdSchema => schema_equiv v w
        | KdList => match v, w with JArr vs, JArr ws => list_rel schema_equiv vs ws | _, _ => false end
        | KdMap => match v, w with JObj ps, JObj qs => maprel (fun _ => schema_equiv) ps qs | _, _ => false end
        | KdSet => match v, w with JArr vs, JArr ws => set_eq vs ws | _, _ => false end
        | KdPayload => json_eqb v w
        | KdData => data_equiv v w
        | KdUnknown => false
        end) x y
  | _, _ => false
  end.

(* ------------------------------------------------------------------ the validator *)
Definition type_ok (t : string) (d : json) : bool :=
  if t =? "null" then match d with JNull => true | _ => false end
  else if t =? "boolean" then match d with JBool _ => true | _ => false end
  else if t =? "integer" then match d with JNum _ => true | _ => false end
  else if t =? "number" then match d with JNum _ | JFlt _ => true | _ => false end
  else if t =? "string" then match d with JStr _ => true | _ => false end
  else if t =? "array" then match d with JArr _ => true | _ => false end
  else if t =? "object" then match d with JObj _ => true | _ => false end
  else false.

Definition ref_prefix : string := "#/$defs/".
Definition resolve (root : json) (r : string) : option json :=
  if prefix ref_prefix r then
    match root with
    | JObj kvs => match lookup "$defs" kvs with
                  | Some (JObj ds) => lookup (substring 8 (String.length r - 8) r) ds
                  | _ => None
                  end
    | _ => None
    end
  else None.

(* the one `pattern` in the files: pydantic_extra_types.SemanticVersion *)
Definition semver_pattern : string :=
  "^(0|[1-9]\d*)\.(0|[1-9]\d*)\.(0|[1-9]\d*)(?:-((?:0|[1-9]\d*|\d*[a-zA-Z-][0-9a-zA-Z-]*)(?:\.(?:0|[1-9]\d*|\d*[a-zA-Z-][0-9a-zA-Z-]*))*))?(?:\+([0-9a-zA-Z-]+(?:\.[0-9a-zA-Z-]+)*))?$".

Definition chars := list ascii.
Definition is_digit (c : ascii) : bool := let n := nat_of_ascii c in Nat.leb 48 n && Nat.leb n 57.
Definition is_alpha (c : ascii) : bool :=
  let n := nat_of_ascii c in (Nat.leb 65 n && Nat.leb n 90) || (Nat.leb 97 n && Nat.leb n 122).
Definition is_idchar (c : ascii) : bool := is_digit c || is_alpha c || Ascii.eqb c "-"%char.
Definition numid (s : chars) : bool :=
  match s with
  | [] => false
  | [c] => is_digit c
  | c :: r => is_digit c && negb (Ascii.eqb c "0"%char) && forallb is_digit r
  end.
(* splits at every occurrence of c *)
Fixpoint split_on (c : ascii) (s : chars) : list chars :=
  match s with
  | [] => [[]]
  | x :: r => if Ascii.eqb x c then [] :: split_on c r
              else match split_on c r with h :: t => (x :: h) :: t | [] => [[x]] end
  end.
(* splits at the first occurrence of c *)
Fixpoint split_first (c : ascii) (s : chars) : chars * option chars :=
  match s with
  | [] => ([], None)
  | x :: r => if Ascii.eqb x c then ([], Some r)
              else let '(a, b) := split_first c r in (x :: a, b)
  end.
Definition pre_id (s : chars) : bool :=
  match s with [] => false | _ => forallb is_idchar s && (if forallb is_digit s then numid s else true) end.
Definition build_id (s : chars) : bool := match s with [] => false | _ => forallb is_idchar s end.
Definition semver_ok (s : string) : bool :=
  let '(lft, build) := split_first "+"%char (list_ascii_of_string s) in
  let '(core, pre) := split_first "-"%char lft in
  (match split_on "."%char core with [a; b; c] => numid a && numid b && numid c | _ => false end) &&
  (match pre with None => true | Some p => forallb pre_id (split_on "."%char p) end) &&
  (match build with None => true | Some b => forallb build_id (split_on "."%char b) end).

Fixpoint zip_with (V : json -> json -> bool) (ss ds : list json) : list bool :=
  match ss, ds with
  | s :: ss', d :: ds' => V s d :: zip_with V ss' ds'
  | _, _ => []
  end.
Definition all_true (l : list bool) : bool := forallb (fun b => b) l.
Definition some_true (l : list bool) : bool := existsb (fun b => b) l.
Definition count_true (l : list bool) : nat := List.length (filter (fun b => b) l).

Section Keywords.
  Variable V : json -> json -> bool.       (* validation against a sub-schema: schema, document *)
  Variable root : json.

  Definition chk_type (t : option json) (d : json) : bool :=
    match t with None => true | Some (JStr t) => type_ok t d | Some _ => false end.
  Definition chk_props (p : option json) (d : json) : bool :=
    match p with
    | None => true
    | Some (JObj ps) =>
        match d with
        | JObj o => forallb (fun kv => match lookup (fst kv) ps with Some s => V s (snd kv) | None => true end) o
        | _ => true
        end
    | Some _ => false
    end.
  Definition chk_required (r : option json) (d : json) : bool :=
    match r with
    | None => true
    | Some (JArr rs) =>
        match d with
        | JObj o => forallb (fun r => match r with JStr n => has_key n o | _ => false end) rs
        | _ => true
        end
    | Some _ => false
    end.
  Definition in_props (k : string) (p : option json) : bool :=
    match p with Some (JObj ps) => has_key k ps | _ => false end.
  Definition chk_addl (p a : option json) (d : json) : bool :=
    match a with
    | None => true
    | Some s =>
        match d with
        | JObj o => forallb (fun kv => if in_props (fst kv) p then true else V s (snd kv)) o
        | _ => true
        end
    end.
  Definition chk_prefix (pre : option json) (d : json) : bool :=
    match pre with
    | None => true
    | Some (JArr ps) => match d with JArr xs => all_true (zip_with V ps xs) | _ => true end
    | Some _ => false
    end.
  Definition prefix_len (pre : option json) : nat := match pre with Some (JArr ps) => List.length ps | _ => 0 end.
  Definition chk_items (pre it : option json) (d : json) : bool :=
    match it with
    | None => true
    | Some s => match d with JArr xs => forallb (V s) (skipn (prefix_len pre) xs) | _ => true end
    end.
  Definition chk_anyOf (a : option json) (d : json) : bool :=
    match a with
    | None => true
    | Some (JArr ss) => some_true (map (fun s => V s d) ss)
    | Some _ => false
    end.
  Definition chk_oneOf (a : option json) (d : json) : bool :=
    match a with
    | None => true
    | Some (JArr ss) => Nat.eqb (count_true (map (fun s => V s d) ss)) 1
    | Some _ => false
    end.
  Definition chk_const (c : option json) (d : json) : bool :=
    match c with None => true | Some c => data_equiv c d end.
  Definition chk_enum (e : option json) (d : json) : bool :=
    match e with
    | None => true
    | Some (JArr es) => existsb (fun e => data_equiv e d) es
    | Some _ => false
    end.
  Definition chk_ref (r : option json) (d : json) : bool :=
    match r with
    | None => true
    | Some (JStr r) => match resolve root r with Some s => V s d | None => false end
    | Some _ => false
    end.
  Definition chk_min (m : option json) (d : json) : bool :=
    match m with
    | None => true
    | Some (JNum n) => match d with JArr xs => Z.leb n (Z.of_nat (List.length xs)) | _ => true end
    | Some _ => false
    end.
  Definition chk_max (m : option json) (d : json) : bool :=
    match m with
    | None => true
    | Some (JNum n) => match d with JArr xs => Z.leb (Z.of_nat (List.length xs)) n | _ => true end
    | Some _ => false
    end.
  Definition chk_unique (u : option json) (d : json) : bool :=
    match u with
    | None => true
    | Some (JBool false) => true
    | Some (JBool true) => match d with JArr xs => nodupb data_equiv xs | _ => true end
    | Some _ => false
    end.
  Definition chk_pattern (p : option json) (d : json) : bool :=
    match p with
    | None => true
    | Some (JStr p) => if p =? semver_pattern then match d with JStr s => semver_ok s | _ => true end else false
    | Some _ => false
    end.

  (* all keywords of one schema object (2020-12: every keyword present applies, also next to $ref) *)
  Definition chk_object (kvs : obj) (d : json) : bool :=
    known_keys kvs &&
    chk_type (lookup "type" kvs) d &&
    chk_const (lookup "const" kvs) d &&
    chk_enum (lookup "enum" kvs) d &&
    chk_min (lookup "minItems" kvs) d &&
    chk_max (lookup "maxItems" kvs) d &&
    chk_unique (lookup "uniqueItems" kvs) d &&
    chk_pattern (lookup "pattern" kvs) d &&
    chk_required (lookup "required" kvs) d &&
    chk_props (lookup "properties" kvs) d &&
    chk_addl (lookup "properties" kvs) (lookup "additionalProperties" kvs) d &&
    chk_prefix (lookup "prefixItems" kvs) d &&
    chk_items (lookup "prefixItems" kvs) (lookup "items" kvs) d &&
    chk_anyOf (lookup "anyOf" kvs) d &&
    chk_oneOf (lookup "oneOf" kvs) d &&
    chk_ref (lookup "$ref" kvs) d.
End Keywords.

(* fuel bounds the recursion depth ($ref makes schemas cyclic); exhausted fuel rejects.
   Boolean schemas need no fuel. *)
Fixpoint validates (fuel : nat) (root s d : json) {struct fuel} : bool :=
  match s with
  | JBool b => b
  | JObj kvs =>
      match fuel with
      | O => false
      | S f => chk_object (validates f root) root kvs d
      end
  | _ => false
  end.

Definition entry (name : string) : json := JObj [("$ref", JStr (ref_prefix ++ name))].
(* "the schema file `root` accepts document d as a <name>" *)
Definition accepts (fuel : nat) (root : json) (name : string) (d : json) : bool :=
  validates fuel root (entry name) d.

(* ------------------------------------------------------------------ supported subset (fail closed) *)
Definition type_name_ok (t : string) : bool :=
  existsb (String.eqb t) ["null"; "boolean"; "integer"; "number"; "string"; "array"; "object"].

(* every keyword is known, payloads have the shapes the validator reads, every $ref resolves in root *)
Fixpoint supported (root s : json) : bool :=
  match s with
  | JBool _ => true
  | JObj kvs =>
      forallb (fun kv =>
        let v := snd kv in
        match kw_of (fst kv) with
        | KType => match v with JStr t => type_name_ok t | _ => false end
        | KProps | KDefs =>
            match v with JObj ps => nodupkeys ps && forallb (fun p => supported root (snd p)) ps | _ => false end
        | KRequired => match v with JArr rs => forallb (fun r => match r with JStr _ => true | _ => false end) rs | _ => false end
        | KAddl | KItems => supported root v
        | KPrefix | KAnyOf | KOneOf => match v with JArr ss => forallb (supported root) ss | _ => false end
        | KConst => true
        | KEnum => match v with JArr _ => true | _ => false end
        | KRef => match v with JStr r => match resolve root r with Some _ => true | None => false end | _ => false end
        | KMinItems | KMaxItems => match v with JNum _ => true | _ => false end
        | KUnique => match v with JBool _ => true | _ => false end
        | KPattern => match v with JStr p => p =? semver_pattern | _ => false end
        | KAnnot => true
        | KUnknown => false
        end) kvs && nodupkeys kvs
  | _ => false
  end.

(* discriminator annotations are consistent with the oneOf they decorate: the mapping's targets are exactly
   the oneOf alternatives, and each target pins the tag property to its mapping key with `const`.  (The
   validator ignores `discriminator`, as JSON Schema does; this shows the oneOf/const encoding says the same.) *)
Definition discriminator_ok (root : json) (s : json) : bool :=
  match s with
  | JObj kvs =>
      match lookup "discriminator" kvs with
      | None => true
      | Some (JObj dk) =>
          match lookup "propertyName" dk, lookup "mapping" dk, lookup "oneOf" kvs with
          | Some (JStr p), Some (JObj m), Some (JArr alts) =>
              let refs := map (fun a => match a with JObj [(_, JStr r)] => r | _ => "" end) alts in
              let targets := map (fun kv => match snd kv with JStr r => r | _ => "" end) m in
              nodupb String.eqb targets && Nat.eqb (List.length refs) (List.length targets) &&
              forallb (fun r => mem String.eqb r targets) refs &&
              forallb (fun kv =>
                match snd kv with
                | JStr r =>
                    match resolve root r with
                    | Some (JObj tk) =>
                        (* either the target pins the tag ... *)
                        match lookup "properties" tk with
                        | Some (JObj ps) =>
                            match lookup p ps with
                            | Some (JObj pk) => match lookup "const" pk with Some c => json_eqb c (JStr (fst kv)) | None => false end
                            | _ => false
                            end
                        (* ... or it is itself a tagged union all of whose alternatives pin it (Type -> SumType) *)
                        | _ =>
                            match lookup "oneOf" tk with
                            | Some (JArr alts2) =>
                                forallb (fun a =>
                                  match a with
                                  | JObj [(_, JStr r2)] =>
                                      match resolve root r2 with
                                      | Some (JObj tk2) =>
                                          match lookup "properties" tk2 with
                                          | Some (JObj ps2) =>
                                              match lookup p ps2 with
                                              | Some (JObj pk2) =>
                                                  match lookup "const" pk2 with
                                                  | Some c => json_eqb c (JStr (fst kv))
                                                  | None => false
                                                  end
                                              | _ => false
                                              end
                                          | _ => false
                                          end
                                      | _ => false
                                      end
                                  | _ => false
                                  end) alts2
                            | _ => false
                            end
                        end
                    | _ => false
                    end
                | _ => false
                end) m
          | _, _, _ => false
          end
      | Some _ => false
      end
  | _ => true
  end.
Definition defs_of (root : json) : obj :=
  match root with JObj kvs => match lookup "$defs" kvs with Some (JObj ds) => ds | _ => [] end | _ => [] end.
Definition discriminators_ok (root : json) : bool := forallb (fun kv => discriminator_ok root (snd kv)) (defs_of root).

Definition default_fuel : nat := 600.
