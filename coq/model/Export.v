(* C12 — model of hugr.model.export.ModelExport (hugr-py/src/hugr/model/export.py, repaired code).
   No proofs in this file.

   Input: an abstract HUGR = the hierarchy (a tree of nodes, children in order) with, per node, the
   facts the exporter reads (operation kind, value-port counts of the signature, static port offset,
   function name, signature/constant payloads, metadata items) and the list of links with offsets
   (-1 = order port).
   Output: the exported tree  module region -> nodes -> regions -> nodes ...  Link names and symbol
   names are type parameters: the model names a port by the representative of its connected component
   of the link relation (the union-find of the code, replaced by its specification), and a function
   symbol by the index of the defining node (`_mangle_name(func_node, name)` is injective in the node
   index).  The correspondence check compares trees up to renaming of names in first-occurrence
   order (run/C12Run.v: canon). *)
From Coq Require Import ZArith List Bool Arith.
Import ListNotations.
Open Scope Z_scope.

Inductive opk :=
| KModule | KFuncDefn | KFuncDecl | KAliasDecl | KAliasDefn | KConst | KInput | KOutput
| KDFG | KCFG | KBlock | KExit | KCond | KCase | KLoop
| KCall | KLoadFunc | KLoadConst | KCallInd | KTag | KExt | KUnknown.

Definition opk_eqb (a b : opk) : bool :=
  match a, b with
  | KModule, KModule | KFuncDefn, KFuncDefn | KFuncDecl, KFuncDecl | KAliasDecl, KAliasDecl
  | KAliasDefn, KAliasDefn | KConst, KConst | KInput, KInput | KOutput, KOutput | KDFG, KDFG
  | KCFG, KCFG | KBlock, KBlock | KExit, KExit | KCond, KCond | KCase, KCase | KLoop, KLoop
  | KCall, KCall | KLoadFunc, KLoadFunc | KLoadConst, KLoadConst | KCallInd, KCallInd
  | KTag, KTag | KExt, KExt | KUnknown, KUnknown => true
  | _, _ => false
  end.

Record ninfo := mkN {
  n_idx : Z;                 (* node index *)
  n_kind : opk;
  n_in : nat;                (* value inputs of the signature (1 control input for a block / exit) *)
  n_out : nat;               (* value outputs of the signature (one control output per successor) *)
  n_static : Z;              (* offset of the static input port, -1 when the op has none *)
  n_name : Z;                (* function / alias name (interned) *)
  n_sig : Z;                 (* signature term of the node (interned; 0 = none) *)
  n_val : Z;                 (* Const: the value term (interned) *)
  n_meta : list (Z * Z)      (* metadata items in order: key, JSON text (both interned) *)
}.

Inductive htree := HNode (i : ninfo) (ch : list htree).
Definition info (t : htree) : ninfo := match t with HNode i _ => i end.
Definition children (t : htree) : list htree := match t with HNode _ ch => ch end.
Definition kind_t (t : htree) : opk := n_kind (info t).
Definition idx_t (t : htree) : Z := n_idx (info t).

Record link := mkL { l_src : Z; l_soff : Z; l_dst : Z; l_doff : Z }.
Record hugr := mkH { h_root : htree; h_links : list link }.

(* ports: node index, direction (true = outgoing), offset *)
Definition port := (Z * bool * Z)%type.
Definition port_eqb (p q : port) : bool :=
  match p, q with (a, d, o), (a', d', o') => Z.eqb a a' && Bool.eqb d d' && Z.eqb o o' end.
Definition inp (i : Z) (k : nat) : port := (i, false, Z.of_nat k).
Definition outp (i : Z) (k : nat) : port := (i, true, Z.of_nat k).
Definition in_ports (i : Z) (n : nat) : list port := map (inp i) (seq 0 n).
Definition out_ports (i : Z) (n : nat) : list port := map (outp i) (seq 0 n).
Definition srcp (l : link) : port := (l_src l, true, l_soff l).
Definition dstp (l : link) : port := (l_dst l, false, l_doff l).

(* ---- the union-find over hugr.links(): a labelling of ports by a representative of their
   component ("quick-find": uniting two classes relabels one of them) *)
Fixpoint rep (ls : list link) : port -> port :=
  match ls with
  | [] => fun p => p
  | l :: r =>
      let f := rep r in
      let a := f (srcp l) in
      let b := f (dstp l) in
      fun p => let x := f p in if port_eqb x b then a else x
  end.

(* ---- the exported tree *)
Inductive eop (S : Type) :=
| ODfg | OCfg | OBlock | OCond | OLoop
| ODefFunc (s : S) | ODeclFunc (s : S) | ODefAlias (s : S) | ODeclAlias (s : S)
| OCall (s : S) | OLoadFunc (s : S) | OLoadConst (v : Z)
| OCustom | OInvalid.
Arguments ODfg {S}. Arguments OCfg {S}. Arguments OBlock {S}. Arguments OCond {S}. Arguments OLoop {S}.
Arguments ODefFunc {S}. Arguments ODeclFunc {S}. Arguments ODefAlias {S}. Arguments ODeclAlias {S}.
Arguments OCall {S}. Arguments OLoadFunc {S}. Arguments OLoadConst {S}. Arguments OCustom {S}.
Arguments OInvalid {S}.

Inductive rkind := RData | RControl | RModule.

Inductive enode (L S : Type) :=
| ENode (op : eop S) (sg : Z) (ins outs : list L) (regs : list (eregion L S))
        (keys : list Z) (meta : list (Z * Z))
with eregion (L S : Type) :=
| ERegion (k : rkind) (srcs tgts : list L) (ch : list (enode L S)) (hints : list (Z * Z)).
Arguments ENode {L S}. Arguments ERegion {L S}.

Section Proj.
  Context {L S : Type}.
  Definition e_op (e : enode L S) := match e with ENode op _ _ _ _ _ _ => op end.
  Definition e_sig (e : enode L S) := match e with ENode _ sg _ _ _ _ _ => sg end.
  Definition e_ins (e : enode L S) := match e with ENode _ _ i _ _ _ _ => i end.
  Definition e_outs (e : enode L S) := match e with ENode _ _ _ o _ _ _ => o end.
  Definition e_regs (e : enode L S) := match e with ENode _ _ _ _ r _ _ => r end.
  Definition e_keys (e : enode L S) := match e with ENode _ _ _ _ _ k _ => k end.
  Definition e_meta (e : enode L S) := match e with ENode _ _ _ _ _ _ m => m end.
  Definition r_kind (r : eregion L S) := match r with ERegion k _ _ _ _ => k end.
  Definition r_srcs (r : eregion L S) := match r with ERegion _ s _ _ _ => s end.
  Definition r_tgts (r : eregion L S) := match r with ERegion _ _ t _ _ => t end.
  Definition r_ch (r : eregion L S) := match r with ERegion _ _ _ c _ => c end.
  Definition r_hints (r : eregion L S) := match r with ERegion _ _ _ _ h => h end.
End Proj.

(* ---- kinds *)
Definition is_input (k : opk) := match k with KInput => true | _ => false end.
Definition is_output (k : opk) := match k with KOutput => true | _ => false end.
Definition is_const (k : opk) := match k with KConst => true | _ => false end.
Definition is_block (k : opk) := match k with KBlock => true | _ => false end.
Definition is_exit (k : opk) := match k with KExit => true | _ => false end.
Definition is_case (k : opk) := match k with KCase => true | _ => false end.
Definition is_func (k : opk) := match k with KFuncDefn | KFuncDecl => true | _ => false end.
(* children of a dataflow / module region that become model nodes *)
Definition exported (k : opk) : bool := negb (is_input k || is_output k || is_const k).

Fixpoint nodes_of (t : htree) : list ninfo :=
  match t with HNode i ch => i :: flat_map nodes_of ch end.

Section Export.
  Variable ns : list ninfo.          (* all nodes of the HUGR *)
  Variable ls : list link.           (* hugr.links() *)

  Definition find_info (i : Z) : option ninfo := find (fun x => Z.eqb (n_idx x) i) ns.
  Definition kind_of (i : Z) : opk :=
    match find_info i with Some x => n_kind x | None => KUnknown end.

  (* outgoing_order_links / incoming_order_links *)
  Definition order_succs (i : Z) : list Z :=
    map l_dst (filter (fun l => Z.eqb (l_src l) i && Z.eqb (l_soff l) (-1)) ls).
  Definition order_preds (i : Z) : list Z :=
    map l_src (filter (fun l => Z.eqb (l_dst l) i && Z.eqb (l_doff l) (-1)) ls).

  (* _needs_order_key *)
  Definition needs_key (i : Z) : bool :=
    existsb (fun s => negb (is_output (kind_of s))) (order_succs i)
    || existsb (fun p => negb (is_input (kind_of p))) (order_preds i).

  (* the node feeding the static input port (find_func_input / find_const_input) *)
  Definition static_source (i : ninfo) : option ninfo :=
    match find (fun l => Z.eqb (l_dst l) (n_idx i) && Z.eqb (l_doff l) (n_static i)) ls with
    | Some l => find_info (l_src l)
    | None => None
    end.
  Definition func_sym (i : ninfo) : option Z :=
    match static_source i with
    | Some f => if is_func (n_kind f) then Some (n_idx f) else None
    | None => None
    end.
  Definition const_val (i : ninfo) : option Z :=
    match static_source i with
    | Some c => if is_const (n_kind c) then Some (n_val c) else None
    | None => None
    end.
  Definition oget (o : option Z) : Z := match o with Some z => z | None => -1 end.
  (* alias symbols are the alias name itself: coded as negative numbers, disjoint from node indices *)
  Definition alias_sym (i : ninfo) : Z := -2 - n_name i.

  (* children that become nodes of a region: those satisfying `keep` *)
  Definition kids {E} (keep : opk -> bool) (ch : list htree) (ech : list E) : list E :=
    map snd (filter (fun p => keep (kind_t (fst p))) (combine ch ech)).

  (* the loops of export_region_dfg assign sources/targets at every Input/Output child: last wins *)
  Definition last_such (p : opk -> bool) (ch : list htree) : option htree :=
    find (fun c => p (kind_t c)) (rev ch).
  Definition first_such (p : opk -> bool) (ch : list htree) : option htree :=
    find (fun c => p (kind_t c)) ch.

  Definition dfg_srcs (ch : list htree) : list port :=
    match last_such is_input ch with
    | Some c => out_ports (idx_t c) (n_out (info c))
    | None => []
    end.
  Definition dfg_tgts (ch : list htree) : list port :=
    match last_such is_output ch with
    | Some c => in_ports (idx_t c) (n_in (info c))
    | None => []
    end.
  Definition hints_of (c : htree) : list (Z * Z) :=
    map (fun s => (idx_t c, s)) (filter (fun s => negb (is_output (kind_of s))) (order_succs (idx_t c))).
  Definition dfg_hints (ch : list htree) : list (Z * Z) :=
    flat_map (fun c => if exported (kind_t c) then hints_of c else []) ch.

  Definition dfg_region (ch : list htree) (ech : list (enode port Z)) : eregion port Z :=
    ERegion RData (dfg_srcs ch) (dfg_tgts ch) (kids exported ch ech) (dfg_hints ch).

  (* export_region_cfg: the source is the control input of the first block, the targets are the
     control inputs of the (last) exit block; the exit block is not a node of the region *)
  Definition cfg_srcs (ch : list htree) : list port :=
    match first_such is_block ch with Some c => [inp (idx_t c) 0] | None => [] end.
  Definition cfg_tgts (ch : list htree) : list port :=
    match last_such is_exit ch with
    | Some c => in_ports (idx_t c) (n_in (info c))
    | None => []
    end.
  Definition cfg_region (ch : list htree) (ech : list (enode port Z)) : eregion port Z :=
    ERegion RControl (cfg_srcs ch) (cfg_tgts ch) (kids is_block ch ech) [].

  Definition module_region (ch : list htree) (ech : list (enode port Z)) : eregion port Z :=
    ERegion RModule [] [] (kids exported ch ech) [].

  (* export_node, given the exports of the children.  A Case is not a node of the model: it is
     exported as a pseudo node that only carries its dataflow region, which the Conditional collects. *)
  Definition exp_shallow (i : ninfo) (ch : list htree) (ech : list (enode port Z)) : enode port Z :=
    let key := if needs_key (n_idx i) then [n_idx i] else [] in
    let ins := in_ports (n_idx i) (n_in i) in
    let outs := out_ports (n_idx i) (n_out i) in
    let mk op regs := ENode op (n_sig i) ins outs regs key (n_meta i) in
    match n_kind i with
    | KDFG => mk ODfg [dfg_region ch ech]
    | KLoop => mk OLoop [dfg_region ch ech]
    | KBlock => mk OBlock [dfg_region ch ech]
    | KCFG => mk OCfg [cfg_region ch ech]
    | KCond => mk OCond (flat_map e_regs ech)
    | KCase => ENode OInvalid 0 [] [] [dfg_region ch ech] [] []
    (* definitions and declarations have no signature ports: n_in = n_out = 0, n_sig = 0 in the view *)
    | KFuncDefn => mk (ODefFunc (n_idx i)) [dfg_region ch ech]
    | KFuncDecl => mk (ODeclFunc (n_idx i)) []
    | KAliasDecl => mk (ODeclAlias (alias_sym i)) []
    | KAliasDefn => mk (ODefAlias (alias_sym i)) []
    | KCall => mk (OCall (oget (func_sym i))) []
    | KLoadFunc => mk (OLoadFunc (oget (func_sym i))) []
    | KLoadConst => mk (OLoadConst (oget (const_val i))) []
    | KCallInd | KTag | KExt => mk OCustom []
    | KModule | KConst | KInput | KOutput | KExit | KUnknown => ENode OInvalid 0 [] [] [] [] []
    end.

  Fixpoint exp_node (t : htree) : enode port Z :=
    match t with HNode i ch => exp_shallow i ch (map exp_node ch) end.

  (* the places where the code raises ValueError *)
  Definition node_err (i : ninfo) (ch : list htree) : bool :=
    match n_kind i with
    | KCall | KLoadFunc => match func_sym i with None => true | _ => false end
    | KLoadConst => match const_val i with None => true | _ => false end
    | KCFG => match first_such is_block ch with None => true | _ => false end
              || existsb (fun c => negb (is_block (kind_t c) || is_exit (kind_t c))) ch
    | KCond | KCallInd | KTag | KExt | KFuncDecl | KAliasDecl | KAliasDefn => false
    | KDFG | KLoop | KBlock | KCase | KFuncDefn | KModule =>
        existsb (fun c => match kind_t c with
                          | KModule | KExit | KCase | KUnknown => true
                          | KInput | KOutput => match n_kind i with KModule => true | _ => false end
                          | _ => false end) ch
    | KConst | KInput | KOutput | KExit | KUnknown => false
    end.
  Fixpoint tree_err (t : htree) : bool :=
    match t with HNode i ch => node_err i ch || existsb tree_err ch end.
End Export.

(* renaming of link names and symbols *)
Section MapTree.
  Context {L S L' S' : Type} (f : L -> L') (g : S -> S').
  Definition map_op (o : eop S) : eop S' :=
    match o with
    | ODfg => ODfg | OCfg => OCfg | OBlock => OBlock | OCond => OCond | OLoop => OLoop
    | ODefFunc s => ODefFunc (g s) | ODeclFunc s => ODeclFunc (g s)
    | ODefAlias s => ODefAlias (g s) | ODeclAlias s => ODeclAlias (g s)
    | OCall s => OCall (g s) | OLoadFunc s => OLoadFunc (g s) | OLoadConst v => OLoadConst v
    | OCustom => OCustom | OInvalid => OInvalid
    end.
  Fixpoint map_node (e : enode L S) : enode L' S' :=
    match e with
    | ENode op sg ins outs regs keys meta =>
        ENode (map_op op) sg (map f ins) (map f outs)
              (map (fun r => match r with
                             | ERegion k s t ch h => ERegion k (map f s) (map f t) (map map_node ch) h
                             end) regs)
              keys meta
    end.
  Definition map_region (r : eregion L S) : eregion L' S' :=
    match r with ERegion k s t ch h => ERegion k (map f s) (map f t) (map map_node ch) h end.
End MapTree.

(* Hugr.to_model(): the module region of the root; None where the code raises *)
Definition export_ports (h : hugr) : eregion port Z :=
  let ns := nodes_of (h_root h) in
  let ls := h_links h in
  module_region (children (h_root h)) (map (exp_node ns ls) (children (h_root h))).

Definition export (h : hugr) : eregion port Z :=
  let R := rep (h_links h) in map_region R (fun s => s) (export_ports h).

Definition export_err (h : hugr) : bool :=
  negb (opk_eqb (kind_t (h_root h)) KModule) || tree_err (nodes_of (h_root h)) (h_links h) (h_root h).

Definition to_model (h : hugr) : option (eregion port Z) :=
  if export_err h then None else Some (export h).
