(* C03 — erasing annotations (title, description, default, discriminator: keywords with no effect on validation)
   from a schema, in schema positions only, so that the hand-written shapes of model/DocJson.v need not repeat the
   documentation strings of the published file.  proofs/SchemaStripP.v: strip preserves validation.
   No proofs in this file. *)
From Coq Require Import List Bool ZArith String Ascii Arith.
Import ListNotations.
From HV Require Import lib.Harness model.Schema.
Open Scope string_scope.

Fixpoint strip (s : json) : json :=
  match s with
  | JObj kvs =>
      JObj ((fix go (l : obj) : obj :=
               match l with
               | [] => []
               | (k, v) :: r =>
                   match kw_of k with
                   | KAnnot => go r
                   | KAddl | KItems => (k, strip v) :: go r
                   | KPrefix | KAnyOf | KOneOf =>
                       (k, match v with JArr xs => JArr (map strip xs) | _ => v end) :: go r
                   | KProps | KDefs =>
                       (k, match v with
                           | JObj ps => JObj (map (fun p => (fst p, strip (snd p))) ps)
                           | _ => v
                           end) :: go r
                   | _ => (k, v) :: go r
                   end
               end) kvs)
  | _ => s
  end.

(* the same function, entry by entry *)
Definition is_annot (k : string) : bool := match kw_of k with KAnnot => true | _ => false end.
Definition strip_val (k : string) (v : json) : json :=
  match kw_of k with
  | KAddl | KItems => strip v
  | KPrefix | KAnyOf | KOneOf => match v with JArr xs => JArr (map strip xs) | _ => v end
  | KProps | KDefs => match v with JObj ps => JObj (map (fun p => (fst p, strip (snd p))) ps) | _ => v end
  | _ => v
  end.
Fixpoint strip_entries (l : obj) : obj :=
  match l with
  | [] => []
  | (k, v) :: r => if is_annot k then strip_entries r else (k, strip_val k v) :: strip_entries r
  end.
