(* C12, second pass — model of the first-use numbering of ModelExport.link_name
   (hugr-py/src/hugr/model/export.py:48-57).  No proofs in this file.

   link_name(port): root = union-find representative of the port; if the root already has a name return
   it, else the name is str(len(self.link_names)) and is recorded.  The dict link_names is modelled by
   the list of roots in insertion order (a root's name is its position); the union-find by its
   specification `rep` (model/Export.v).  `visits` is the sequence of link_name calls a successful
   export makes, in the order of the code: for a node its inputs, its outputs, then its regions; in a
   dataflow region the children in order (Input: its out ports = region sources, Output: its in ports =
   region targets, any other child: export_node); in a control-flow region the children in order (exit
   block: its in ports = region targets, the first basic block: its control input = region source,
   every basic block: export_node).
   The numbered export is the export of model/Export.v with every port named by the number link_name
   returns for it. *)
From Coq Require Import ZArith List Bool Arith.
Import ListNotations.
From HV Require Import model.Export.
Open Scope Z_scope.

(* position of the first occurrence; length of the list when absent *)
Fixpoint idx (r : port) (st : list port) : nat :=
  match st with [] => 0%nat | x :: s => if port_eqb r x then 0%nat else S (idx r s) end.
Definition known (r : port) (st : list port) : bool := existsb (port_eqb r) st.

Section LinkName.
  (* the union-find lookup self.link_ports[port]: `rep ls` (shared, computed once per export) *)
  Variable R : port -> port.

  (* one call of link_name: the name and the new dict *)
  Definition link_name (st : list port) (p : port) : nat * list port :=
    let r := R p in
    if known r st then (idx r st, st) else (length st, st ++ [r]).

  (* a sequence of calls *)
  Fixpoint link_names (st : list port) (ps : list port) : list nat * list port :=
    match ps with
    | [] => ([], st)
    | p :: q =>
        let (k, st1) := link_name st p in
        let (ks, st2) := link_names st1 q in (k :: ks, st2)
    end.
End LinkName.

(* ---- the order in which a successful export calls link_name *)
Definition vdfg (f : htree -> list port) (ch : list htree) : list port :=
  flat_map (fun c => if is_input (kind_t c) then out_ports (idx_t c) (n_out (info c))
                     else if is_output (kind_t c) then in_ports (idx_t c) (n_in (info c))
                     else f c) ch.
Definition vcfg (f : htree -> list port) : list htree -> bool -> list port :=
  fix go (l : list htree) (first : bool) : list port :=
    match l with
    | [] => []
    | c :: r =>
        if is_block (kind_t c) then (if first then [inp (idx_t c) 0] else []) ++ f c ++ go r false
        else if is_exit (kind_t c) then in_ports (idx_t c) (n_in (info c)) ++ go r first
        else go r first
    end.

Fixpoint visits_node (t : htree) : list port :=
  match t with
  | HNode i ch =>
      in_ports (n_idx i) (n_in i) ++ out_ports (n_idx i) (n_out i) ++
      match n_kind i with
      | KDFG | KLoop | KBlock | KFuncDefn => vdfg visits_node ch
      | KCond => flat_map (fun c => match c with HNode _ cch => vdfg visits_node cch end) ch
      | KCFG => vcfg visits_node ch true
      | _ => []
      end
  end.

(* export_region_module: export_node for every child of the root *)
Definition visits (h : hugr) : list port := flat_map visits_node (children (h_root h)).

(* the dict after the export, and the name of a port *)
Definition final_names (h : hugr) : list port :=
  let R := rep (h_links h) in snd (link_names R [] (visits h)).
Definition num (h : hugr) : port -> nat :=
  let R := rep (h_links h) in let fn := final_names h in fun p => idx (R p) fn.

(* Hugr.to_model() with the names link_name gives *)
Definition export_numbered (h : hugr) : eregion nat Z :=
  let nu := num h in map_region nu (fun s => s) (export_ports h).
