(* C07, seeded round 3 — the public operations of hugr.tys that return "the same" type:
   Type.resolve / TypeArg.resolve against an extension registry (tys.py: Sum.resolve, FunctionType.resolve,
   PolyFuncType.resolve, Opaque.resolve incl. its not-found fallback, TypeTypeArg.resolve, SequenceArg.resolve,
   the default `return self` of every other class, ExtType included), copy.copy / copy.deepcopy /
   dataclasses.replace (identity on the denoted type), and the serialisation round trip
   `_to_serial().deserialize()` (_serialization/tys.py: every serial class rebuilds the API class from its
   fields; an ExtType is written through _to_opaque and therefore comes back as the Opaque it denotes, with
   the computed bound).  Own file of C07 (model/Resolve.v belongs to C11 and also models operations).
   No proofs in this file. *)
From Coq Require Import NArith List Bool Arith.
Import ListNotations.
From HV Require Import lib.Harness model.Types.

(* Python dicts (ExtensionRegistry.extensions, Extension.types) as association lists in insertion order *)
Fixpoint aget {V} (d : list (name * V)) (k : name) : option V :=
  match d with
  | [] => None
  | (k', v) :: r => if N.eqb k' k then Some v else aget r k
  end.
Definition registry := list (name * list (name * typedef)).
(* registry.get_extension(ext).get_type(id); ExtensionNotFound / TypeNotFound -> None *)
Definition lookup_def (reg : registry) (e id : name) : option typedef :=
  match aget reg e with
  | None => None
  | Some ts => aget ts id
  end.

(* ---- Type.resolve / TypeArg.resolve ---- *)
Fixpoint resolve_ty (reg : registry) (t : ty) : ty :=
  match t with
  | TSum rows => TSum (map (map (resolve_ty reg)) rows)
  | TFunc i o r => TFunc (map (resolve_ty reg) i) (map (resolve_ty reg) o) r
  | TPoly ps i o r => TPoly ps (map (resolve_ty reg) i) (map (resolve_ty reg) o) r
  | TOpaque e id args b =>
      let args' := map (resolve_arg reg) args in
      match lookup_def reg e id with
      | Some d => TExt d args' Generic
      | None => TOpaque e id args' b          (* the fallback keeps id, extension and the DECLARED bound *)
      end
  | _ => t                                    (* Type.resolve default; UnitSum.resolve; ExtType *)
  end
with resolve_arg (reg : registry) (a : tyarg) : tyarg :=
  match a with
  | AType t => AType (resolve_ty reg t)
  | ASeq l => ASeq (map (resolve_arg reg) l)
  | _ => a
  end.

(* [mapO] of Types.v with the function outside the fixpoint (usable for nested recursion) *)
Definition omapS {A B} (f : A -> option B) : list A -> option (list B) :=
  fix go (l : list A) : option (list B) :=
    match l with
    | [] => Some []
    | x :: r => match f x, go r with Some y, Some ys => Some (y :: ys) | _, _ => None end
    end.

(* ---- t._to_serial().deserialize(); None = the Python code raises (IndexError / AssertionError out of
   type_bound() of an extension type with an ill-formed index list) ---- *)
Fixpoint rt_ty (t : ty) : option ty :=
  match t with
  | TSum rows => match omapS (omapS rt_ty) rows with Some r => Some (TSum r) | None => None end
  | TFunc i o r =>
      match omapS rt_ty i, omapS rt_ty o with Some i', Some o' => Some (TFunc i' o' r) | _, _ => None end
  | TPoly ps i o r =>
      match omapS rt_ty i, omapS rt_ty o with Some i', Some o' => Some (TPoly ps i' o' r) | _, _ => None end
  | TOpaque e id args b =>
      match omapS rt_arg args with Some a => Some (TOpaque e id a b) | None => None end
  | TExt d args c =>                          (* ExtType._to_opaque()._to_serial(), then Opaque.deserialize *)
      match tbound t, omapS rt_arg args with
      | Some b, Some a => Some (TOpaque (td_ext d) (td_name d) a b)
      | _, _ => None
      end
  | _ => Some t
  end
with rt_arg (a : tyarg) : option tyarg :=
  match a with
  | AType t => match rt_ty t with Some t' => Some (AType t') | None => None end
  | ASeq l => match omapS rt_arg l with Some l' => Some (ASeq l') | None => None end
  | _ => Some a
  end.

(* the operations of a chain (harness/props/c07.py, case kind "same") *)
Inductive sameop :=
| OResolve          (* .resolve(registry), also reached through TypeTypeArg / SequenceArg .resolve *)
| OCopy             (* copy.copy *)
| ODeepcopy         (* copy.deepcopy *)
| OReplace          (* dataclasses.replace(t) with no changes *)
| ORoundtrip.       (* t._to_serial().deserialize() *)

Definition apply_op (reg : registry) (op : sameop) (t : ty) : option ty :=
  match op with
  | OResolve => Some (resolve_ty reg t)
  | OCopy | ODeepcopy | OReplace => Some t
  | ORoundtrip => rt_ty t
  end.
