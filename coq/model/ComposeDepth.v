(* C02 o C05 at any nesting depth of function-valued constants.  A function-valued constant (val.Function) embeds
   a whole HUGR: `_to_serial` stores body._to_serial(), FunctionValue.deserialize calls Hugr._from_serial.  The
   payload types H / SH of model/CodecOps.v are therefore, one level up, the HUGRs and documents of
   model/SerialHugr.v over the operations one level down:
       HT 0 = ST 0 = Empty_set                       (no function-valued constants)
       HT (n+1) = hugr (op (HT n)) md                ST (n+1) = serial (sop (ST n)) md
   with encT / decT the total versions of to_serial / from_serial (an exception is the empty document / HUGR; it is
   never produced for a payload satisfying okT), typeT = body.root_op().inner_signature(), and
   okT = the premise of the composed theorem one level down, as a boolean: the guard, C05's op_ok on every node,
   and a root with an inner signature.  No proofs in this file. *)
From Coq Require Import NArith List Bool Arith.
Import ListNotations.
From HV Require Import lib.Harness model.Types model.SerialTypes model.Codec model.CodecVals model.CodecOps
  model.SerialHugr spec.SerialHugrS model.ComposeOps.

(* DfParentOp.inner_signature of the operation classes a function body can have as root *)
Definition inner_ft {H} (o : op H) : functype :=
  match o with
  | ODFG i os d => FT i os d                                        (* DFG.signature *)
  | OFuncDefn _ i _ os => FT i os []                                (* signature.body *)
  | OCase i os => FT i os []
  | OTailLoop ji rest jo _ => FT (ji ++ rest) (TSum [ji; jo] :: rest) []
  | ODataflowBlock i s oo _ => FT i (s :: oo) []
  | _ => FT [] [] []
  end.
(* ... and which roots the theorem covers: a DataflowBlock root must carry its sum type in general form (a UnitSum
   comes back as the general sum of empty rows: equal under Python ==, encoded differently) *)
Definition root_ok {H} (o : op H) : bool :=
  match o with
  | ODFG _ _ _ | OFuncDefn _ _ _ _ | OCase _ _ | OTailLoop _ _ _ _ => true
  | ODataflowBlock _ (TSum _) _ _ => true
  | _ => false
  end.

Section Tower.
  Variable md : Type.
  Variable md_nil : md.
  Variable md_is_nil : md -> bool.

  Fixpoint HT (n : nat) : Type := match n with O => Empty_set | S k => hugr (op (HT k)) md end.
  Fixpoint ST (n : nat) : Type := match n with O => Empty_set | S k => serial (sop (ST k)) md end.

  Definition empty_doc {A} : serial A md := {| s_nodes := []; s_edges := []; s_meta := None |}.
  Definition empty_hugr {A} : hugr A md := {| h_nodes := []; h_root := 0; h_links := [] |}.

  (* val.Function._to_serial: FunctionValue(hugr=self.body._to_serial()) *)
  Fixpoint encT (n : nat) : HT n -> ST n :=
    match n with
    | O => fun x => x
    | S k => fun h => match to_serial (c_enc (HT k) (ST k) (encT k)) (c_ndp (HT k)) md_is_nil h with
                      | Some s => s
                      | None => empty_doc
                      end
    end.
  (* FunctionValue.deserialize: val.Function(Hugr._from_serial(SerialHugr of the stored dict)) *)
  Fixpoint decT (n : nat) : ST n -> HT n :=
    match n with
    | O => fun x => x
    | S k => fun s => match from_serial (c_dec (HT k) (ST k) (decT k)) (c_ndp (HT k)) md_nil s with
                      | Some h => h
                      | None => empty_hugr
                      end
    end.
  Definition nfT (n : nat) (h : HT n) : HT n := decT n (encT n h).
  (* val.Function.type_(): self.body.root_op().inner_signature() *)
  Definition typeT (n : nat) : HT n -> functype :=
    match n with
    | O => fun x => match x with end
    | S k => fun h => match get_node h (h_root h) with Some nd => inner_ft (n_op nd) | None => FT [] [] [] end
    end.

  Definition vportsT (n : nat) := c_vports (HT n) (ST n) (encT n).
  Definition sportsT (n : nat) := c_sports (HT n) (ST n) (encT n).
  Definition has_orderT (n : nat) := c_has_order (HT n) (ST n) (encT n).
  Definition guardT (n : nat) (h : hugr (op (HT n)) md) : bool := guard_b (vportsT n) (sportsT n) (has_orderT n) h.

  (* every live node carries an operation inside C05's domain (op_ok: the encoding returns and the object is one its
     constructor can have built), given the predicate on payloads *)
  Definition ops_ok_b {H} (h_ok : H -> bool) (h : hugr (op H) md) : bool :=
    forallb (fun on => match on with Some nd => cop_ok_b H h_ok (n_op nd) | None => true end) (h_nodes h).
  Definition root_ok_b {H} (h : hugr (op H) md) : bool :=
    match get_node h (h_root h) with Some nd => root_ok (n_op nd) | None => false end.

  Fixpoint okT (n : nat) : HT n -> bool :=
    match n with
    | O => fun _ => true
    | S k => fun h => guardT k h && ops_ok_b (okT k) h && root_ok_b h
    end.
End Tower.
