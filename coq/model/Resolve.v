(* C11 — model of extension resolution (hugr-py: tys.py `resolve`, ops.py Custom.resolve /
   ExtOp.to_custom_op, hugr/base.py Hugr.resolve_extensions, ext.py registry lookups), of the
   serial form of types and custom operations, and of the model export (`to_model`) naming.
   Mirrors the code after the repairs of D15 (Opaque.resolve resolves its arguments), D16
   (Opaque.to_model writes the extension prefix) and D17 (ExtOp.to_custom_op writes a description
   the property admits).  The property leaves one choice to the implementation: "an operation's
   free-text description MAY be replaced by its definition's".  The model does not bake that choice
   in: resolution takes it as an oracle ([descr_choice], one bit per opaque operation, read off the
   implementation's behaviour by the harness), and every theorem holds for every oracle.
   No proofs in this file. *)
From Coq Require Import NArith List Bool Arith.
Import ListNotations.
From HV Require Import lib.Harness model.Types.

(* the harness interns the empty string as 0 *)
Definition empty_name : name := 0%N.

(* ---- Python dicts (ExtensionRegistry.extensions, Extension.types, Extension.operations) as
   association lists in insertion order; lookup = first binding of the key *)
Fixpoint dget {V} (d : list (name * V)) (k : name) : option V :=
  match d with
  | [] => None
  | (k', v) :: r => if N.eqb k' k then Some v else dget r k
  end.

(* [mapO] of Types.v with the function outside the fixpoint, so that it can be used for nested recursion *)
Definition omap {A B} (f : A -> option B) : list A -> option (list B) :=
  fix go (l : list A) : option (list B) :=
    match l with
    | [] => Some []
    | x :: r => match f x, go r with Some y, Some ys => Some (y :: ys) | _, _ => None end
    end.

Record functype := { ft_in : list ty; ft_out : list ty; ft_reqs : list name }.

(* ext.OpDef: what resolution and serialisation read (name of `_extension`, "" when unset) *)
Record opdef := { od_ext : name; od_name : name; od_descr : name }.

Record extension := { e_name : name; e_types : list (name * typedef); e_ops : list (name * opdef) }.
Definition registry := list (name * extension).

(* registry.get_extension(ext).get_type(id); ExtensionNotFound / TypeNotFound -> None *)
Definition lookup_type (reg : registry) (ext id : name) : option typedef :=
  match dget reg ext with
  | None => None
  | Some x => dget (e_types x) id
  end.
(* registry.get_extension(ext).get_op(name); ExtensionNotFound / OperationNotFound -> None *)
Definition lookup_op (reg : registry) (ext nm : name) : option opdef :=
  match dget reg ext with
  | None => None
  | Some x => dget (e_ops x) nm
  end.

(* ---- Type.resolve / TypeArg.resolve ---- *)
Fixpoint resolve_ty (reg : registry) (t : ty) : ty :=
  match t with
  | TSum rows => TSum (map (map (resolve_ty reg)) rows)               (* Sum.resolve *)
  | TFunc i o r => TFunc (map (resolve_ty reg) i) (map (resolve_ty reg) o) r   (* FunctionType.resolve *)
  | TPoly ps i o r => TPoly ps (map (resolve_ty reg) i) (map (resolve_ty reg) o) r   (* PolyFuncType.resolve *)
  | TOpaque e id args b =>                                            (* Opaque.resolve (after D15) *)
      let args' := map (resolve_arg reg) args in
      match lookup_type reg e id with
      | Some d => TExt d args' Generic
      | None => TOpaque e id args' b
      end
  | _ => t                                                            (* Type.resolve default, UnitSum, ExtType *)
  end
with resolve_arg (reg : registry) (a : tyarg) : tyarg :=
  match a with
  | AType t => AType (resolve_ty reg t)                               (* TypeTypeArg.resolve *)
  | ASeq l => ASeq (map (resolve_arg reg) l)                          (* SequenceArg.resolve *)
  | _ => a                                                            (* TypeArg.resolve default *)
  end.

(* TypeDef.instantiate *)
Definition instantiate_ty (d : typedef) (args : list tyarg) : ty := TExt d args Generic.

(* ---- serial form (_to_serial): the serial classes mirror the API classes one to one, except that
   ExtType serialises as the Opaque it denotes, with the computed bound.  A serial type is therefore
   written as a [ty] without TExt.  None = the Python code raises (IndexError from type_bound). *)
Fixpoint ser_ty (t : ty) : option ty :=
  match t with
  | TSum rows => match omap (omap ser_ty) rows with Some r => Some (TSum r) | None => None end
  | TFunc i o r =>
      match omap ser_ty i, omap ser_ty o with Some i', Some o' => Some (TFunc i' o' r) | _, _ => None end
  | TPoly ps i o r =>
      match omap ser_ty i, omap ser_ty o with Some i', Some o' => Some (TPoly ps i' o' r) | _, _ => None end
  | TOpaque e id args b =>
      match omap ser_arg args with Some a => Some (TOpaque e id a b) | None => None end
  | TExt d args c =>                                   (* ExtType._to_opaque()._to_serial() *)
      match tbound t, omap ser_arg args with
      | Some b, Some a => Some (TOpaque (td_ext d) (td_name d) a b)
      | _, _ => None
      end
  | _ => Some t
  end
with ser_arg (a : tyarg) : option tyarg :=
  match a with
  | AType t => match ser_ty t with Some t' => Some (AType t') | None => None end
  | ASeq l => match omap ser_arg l with Some l' => Some (ASeq l') | None => None end
  | _ => Some a
  end.

(* ---- model export (to_model); symbols are kept structured *)
Inductive builtin := BAdt | BFn | BUsize | BQubit | BExtSet.
Inductive msym :=
| SBuiltin (b : builtin)
| SQual (ext id : name)          (* f"{ext}.{id}" *)
| SBare (id : name).             (* a name used as it is *)
Inductive term :=
| MApply (s : msym) (args : list term)
| MList (parts : list term)
| MVar (i : nat)
| MSplice (t : term)
| MNat (n : N)
| MStr (s : name).

(* None = TypeError("PolyFuncType used as a Type") *)
Fixpoint to_model (t : ty) : option term :=
  match t with
  | TSum rows =>
      match omap (fun row => match omap to_model row with Some l => Some (MList l) | None => None end) rows with
      | Some l => Some (MApply (SBuiltin BAdt) [MList l])
      | None => None
      end
  | TUnitSum n => Some (MApply (SBuiltin BAdt) [MList (repeat (MList []) n)])
  | TVar i _ => Some (MVar i)
  | TRowVar i _ => Some (MSplice (MVar i))
  | TUSize => Some (MApply (SBuiltin BUsize) [])
  | TQubit => Some (MApply (SBuiltin BQubit) [])
  | TAlias nm _ => Some (MApply (SBare nm) [])
  | TFunc i o _ =>
      match omap to_model i, omap to_model o with
      | Some i', Some o' => Some (MApply (SBuiltin BFn) [MList i'; MList o'])
      | _, _ => None
      end
  | TPoly _ _ _ _ => None
  | TOpaque e id args _ =>                             (* Opaque.to_model (after D16) *)
      match omap arg_to_model args with Some a => Some (MApply (SQual e id) a) | None => None end
  | TExt d args _ =>                                   (* ExtType.to_model *)
      match omap arg_to_model args with
      | Some a => Some (MApply (SQual (td_ext d) (td_name d)) a)
      | None => None
      end
  end
with arg_to_model (a : tyarg) : option term :=
  match a with
  | AType t => to_model t
  | ANat n => Some (MNat n)
  | AString s => Some (MStr s)
  | ASeq l => match omap arg_to_model l with Some l' => Some (MList l') | None => None end
  | AExts _ => Some (MApply (SBuiltin BExtSet) [])
  | AVar i _ => Some (MVar i)
  end.

(* ---- operations ---- *)
(* ops.Custom *)
Record custom := { c_ext : name; c_name : name; c_sig : functype; c_descr : name; c_args : list tyarg }.
(* ops.ExtOp as produced by resolution: the signature is always cached.  [x_descr] is the free-text
   description the operation is serialised with (what ExtOp.to_custom_op / ExtOp._to_serial write):
   the definition's for an operation instantiated from its definition; after resolution the one the
   opaque operation was loaded with or the definition's, whichever the implementation chose *)
Record extop := { x_def : opdef; x_sig : functype; x_args : list tyarg; x_descr : name }.
Inductive op :=
| OCustom (c : custom)
| OExt (x : extop)
| OOther (k : N).                 (* any other operation, identified by its interned serial form *)

Definition resolve_ft (reg : registry) (f : functype) : functype :=
  {| ft_in := map (resolve_ty reg) (ft_in f); ft_out := map (resolve_ty reg) (ft_out f);
     ft_reqs := ft_reqs f |}.

(* The implementation's choice for the description of a resolved operation: [true] = it keeps the
   description the opaque operation was loaded with, [false] = it takes the definition's.  Both are
   admissible for every operation ("may be replaced"), so every function of this type is an admissible
   oracle; nothing else about the result is left open. *)
Definition descr_choice := custom -> bool.
Definition keep_loaded : descr_choice := fun _ => true.        (* never rewrites the description *)
Definition take_definitions : descr_choice := fun _ => false.  (* always writes the definition's *)
Definition resolved_descr (keep : descr_choice) (c : custom) (d : opdef) : name :=
  if keep c then c_descr c else od_descr d.

(* Custom.resolve *)
Definition resolve_custom (reg : registry) (keep : descr_choice) (c : custom) : op :=
  match lookup_op reg (c_ext c) (c_name c) with
  | None => OCustom c
  | Some d => OExt {| x_def := d; x_sig := resolve_ft reg (c_sig c);
                      x_args := map (resolve_arg reg) (c_args c);
                      x_descr := resolved_descr keep c d |}
  end.
(* the loop body of Hugr.resolve_extensions: only Custom operations are touched *)
Definition resolve_op (reg : registry) (keep : descr_choice) (o : op) : op :=
  match o with OCustom c => resolve_custom reg keep c | _ => o end.
(* Hugr.resolve_extensions: node operations in node order; hierarchy and links are not touched *)
Definition resolve_hugr (reg : registry) (keep : descr_choice) (h : list op) : list op :=
  map (resolve_op reg keep) h.

(* ExtOp.to_custom_op (after D17): the description the operation carries *)
Definition to_custom_op (x : extop) : custom :=
  {| c_ext := od_ext (x_def x); c_name := od_name (x_def x); c_sig := x_sig x;
     c_descr := x_descr x; c_args := x_args x |}.

Definition outer_signature (o : op) : option functype :=
  match o with OCustom c => Some (c_sig c) | OExt x => Some (x_sig x) | OOther _ => None end.

Definition ser_ft (f : functype) : option functype :=
  match omap ser_ty (ft_in f), omap ser_ty (ft_out f) with
  | Some i, Some o => Some {| ft_in := i; ft_out := o; ft_reqs := ft_reqs f |}
  | _, _ => None
  end.
Definition ser_custom (c : custom) : option custom :=
  match ser_ft (c_sig c), omap ser_arg (c_args c) with
  | Some s, Some a => Some {| c_ext := c_ext c; c_name := c_name c; c_sig := s; c_descr := c_descr c; c_args := a |}
  | _, _ => None
  end.
(* Custom._to_serial / ExtOp._to_serial: a serial ExtensionOp is written as a [custom] over serial types *)
Definition ser_op (o : op) : option op :=
  match o with
  | OCustom c => match ser_custom c with Some s => Some (OCustom s) | None => None end
  | OExt x => match ser_custom (to_custom_op x) with Some s => Some (OCustom s) | None => None end
  | OOther k => Some (OOther k)
  end.
Definition ser_hugr (h : list op) : option (list op) := omap ser_op h.

Definition ft_to_model (f : functype) : option term := to_model (TFunc (ft_in f) (ft_out f) (ft_reqs f)).
(* OpDef.qualified_name *)
Definition qualified_name (d : opdef) : msym :=
  if N.eqb (od_ext d) empty_name then SBare (od_name d) else SQual (od_ext d) (od_name d).
(* model/export.py export_node, cases Custom / AsExtOp: symbol, arguments, signature *)
Definition export_op (o : op) : option (msym * list term * term) :=
  match o with
  | OCustom c =>
      match omap arg_to_model (c_args c), ft_to_model (c_sig c) with
      | Some a, Some s => Some (SQual (c_ext c) (c_name c), a, s)
      | _, _ => None
      end
  | OExt x =>
      match omap arg_to_model (x_args x), ft_to_model (x_sig x) with
      | Some a, Some s => Some (qualified_name (x_def x), a, s)
      | _, _ => None
      end
  | OOther _ => None
  end.

(* type bounds of the ports: the rows of the signature *)
Definition row_bounds (l : list ty) : list (option bound) := map tbound l.
