(* C01 (fourth pass) — the builder model widened to functions, modules and control-flow graphs.

   model/Builder.v and model/Builder2.v stay as they are; this file re-uses their graph store, environment, wiring and
   serialisation and extends the statement language of Builder2 (every construct of Builder2 is kept, statement by
   statement) by

     UCall      call(func, args..., instantiation=, type_args=)      [dfg.py call / _fn_sig; ops.Call / _CallOrLoad.__init__:
                a signature without parameters is called at its body, a polymorphic one needs an explicit instantiation
                (NoConcreteFunc otherwise); hugr.add_node(call_op); add_link(func.out(0), call.inp(len(inst.input)));
                _wire_up(call, args)]
     ULoadFn    load_function(func, instantiation=, type_args=)    [add_node(LoadFunc); add_link(func.out(0), load.inp(0))]
     ULoadC     load(node) of a constant defined at the root of a Module
     ULocalFn   define_function(name, ins, outs?, params?, parent=self.parent_node): a function defined inside a dataflow
                region, its body built at once           [DefinitionBuilder.define_function; Function.new_nested;
                declare_outputs; Function.set_outputs: with declared outputs the wired types must equal them (ValueError)]
     UCfg       add_cfg(args...) ... blocks ... branches   [dfg.py add_cfg; cfg.py Cfg.new_nested / _init_impl (CFG node, entry
                Block with its Input / Output, ExitBlock — in this order), add_entry, add_block, add_successor (= add_block of
                the predecessor's row + branch), Block.set_block_outputs / set_single_succ_outputs (a Unit constant is loaded
                first), branch, branch_exit (the first exit branch fixes the outputs of the ExitBlock and of the CFG, the others
                must agree: MismatchedExit), ops.DataflowBlock._set_out_types]
                Inside a Block every _wire_up of the block's OWN builder goes through Block._wire_up_port: when the source
                has no sibling ancestor, but its parent chain reaches the CFG node, the value link is added WITHOUT an order
                edge (a Dom edge; dominance itself is left to validation).  Builders nested in the block wire as before.
     roots      RDfg, RLoop, RCond (as Builder2), RFunc (Function(name, ins) [+ declare_outputs]), RCfg (Cfg(ins...)), and
                RModule: Module(); add_const for every constant; declare_function / define_function / define_main for every
                function IN ORDER (all function nodes first), then the bodies of the definitions in order.
     UInsert    any root but a module may be built separately and inserted (insert_nested / insert_tail_loop /
                insert_conditional / insert_cfg are all _insert_nested_impl).

   Interned data the harness supplies with the program (as it supplies the type table): `sigs`, the table of polymorphic
   function signatures indexed by the interned signature id (parameter-list id — 0 is the empty list —, body inputs, body
   outputs).  ops.FuncDefn builds its signature from params / inputs / outputs when asked: the model searches `sigs` for it
   (find_sig), as Builder.v searches the type table for the tuple type of MakeTuple.
   An incomplete ops.FuncDefn (outputs not set: `signature` raises IncompleteOp) is the placeholder
   `FuncDefn (len sigs + params) ins []` — an id outside the table, keeping the parameter-list id; an incomplete
   DataflowBlock is `Block ins [] [] 0` (no successor row exists: nth_outputs fails as IncompleteOp does), incomplete
   ExitBlock / CFG outputs are tracked in the Cfg builder's state (hugr-py: `_cfg_outputs is None`).

   The interpreter of harness/progs.py keeps one dictionary of functions / module constants for the whole program
   (`Result.funcs`), next to the wire and statement dictionaries: env3.
   Errors are values as in Builder.v; assertion failures / IncompleteOp / NoConcreteFunc / MismatchedExit / ValueError are
   all EIncomplete, NotInSameCfg is ENoSibling (a raising program is not compared).
   Function-valued constants: the Const node holds `VFun ty k`; the k-th sub-program is run separately (run3s).
   OUTSIDE this model: TrackedDfg, aliases, function constants nested in function constants.
   No proofs in this file. *)
From Coq Require Import NArith List Bool Arith.
Import ListNotations.
From HV Require Import lib.Harness model.Validity model.Builder model.Builder2.
Local Open Scope N_scope.

Definition fname := N.
Record sinfo := { si_params : N; si_ins : row; si_outs : row }.

Inductive bkind := BEntry | BBlock (ins : row) | BSucc (pred : wid).
Inductive btarget := BTo (blk : sid) | BExit.

Inductive stmt3 :=
| UOp (id : sid) (o : opspec) (args res : list wid)
| ULoad (id : sid) (v : value) (cp : cparent) (res : wid)
| UNested (id : sid) (args : list wid) (body : region3) (res : list wid)
| UOrder (src dst : nref)
| ULoop (id : sid) (just rest : list wid) (body : region3) (res : list wid)
| UCond (id : sid) (cond : wid) (args : list wid) (cases : cases3) (res : list wid)
| UInsert (id : sid) (sub : prog3) (args res : list wid)
| UCallInd (id : sid) (args res : list wid)
| UCall (id : sid) (f : fname) (args res : list wid) (inst : option (row * row))
| ULoadFn (id : sid) (f : fname) (res : wid) (inst : option (row * row)) (fnty : tyid)
| ULoadC (id : sid) (c : N) (res : wid)
| ULocalFn (id : sid) (f : fname) (params : N) (ins : row) (douts : option row) (body : region3)
| UCfg (id : sid) (args : list wid) (blocks : blocks3) (branches : list (wid * btarget)) (res : list wid)
with region3 := Rg (ins : list wid) (body : stmts3) (outs : list wid)
with stmts3 := UNil | UCons (s : stmt3) (r : stmts3)
with cases3 := KNil | KCons (i : N) (r : region3) (rest : cases3)
(* the blocks in the order the program builds them; bw: the wires bound to the block's control-flow out ports *)
with blocks3 := BNil | BCons (id : sid) (k : bkind) (body : region3) (single : bool) (bw : list wid) (rest : blocks3)
with prog3 :=
| RDfg (ins : row) (body : region3)
| RLoop (just rest : row) (body : region3)
| RCond (rows : list row) (others : row) (sumty : tyid) (cases : cases3)
| RFunc (params : N) (ins : row) (douts : option row) (body : region3)
| RCfg (ins : row) (blocks : blocks3) (branches : list (wid * btarget))
| RModule (consts : list value) (funcs : funcs3)
with funcs3 :=
| FNil
| FDecl (f : fname) (sig : N) (rest : funcs3)
| FDefn (f : fname) (params : N) (ins : row) (douts : option row) (body : region3) (rest : funcs3).

(* ------------------------------------------------------------------ environment *)
Record env3 := { e_env : env; e_funcs : list (fname * N); e_consts : list N }.
Definition env3_0 : env3 := {| e_env := env0; e_funcs := []; e_consts := [] |}.
Definition with_env (e : env3) (e' : env) : env3 := {| e_env := e'; e_funcs := e_funcs e; e_consts := e_consts e |}.
Definition bind_fn (e : env3) (f : fname) (n : N) : env3 :=
  {| e_env := e_env e; e_funcs := (f, n) :: e_funcs e; e_consts := e_consts e |}.
Definition bind_const (e : env3) (n : N) : env3 :=
  {| e_env := e_env e; e_funcs := e_funcs e; e_consts := e_consts e ++ [n] |}.
Definition get_fn (e : env3) (f : fname) : res N :=
  match lookup (e_funcs e) f with Some n => Ok n | None => Err EUnbound end.

(* ------------------------------------------------------------------ Block._wire_up_port (cfg.py) *)
(* while cfg_node != src_parent: if src_parent is None or src_parent == root: raise NotInSameCfg; src_parent = parent *)
Fixpoint up_to_cfg (fuel : nat) (st : store) (cfg : N) (sp : option N) : bool :=
  match fuel with
  | O => false
  | S f =>
      match sp with
      | Some p => if p =? cfg then true else if p =? 0 then false else up_to_cfg f st cfg (s_parent st p)
      | None => false
      end
  end.
Definition wire_up_port_blk (cfg : N) (st : store) (node : N) (i : N) (w : N * N) : res (store * tyid) :=
  match anc_sib st (fst w) node with
  | Some a =>
      st1 <- (if a =? node then Ok st else add_order_link st (fst w) a) ;;
      st2 <- add_link st1 (fst w) (Some (snd w)) node (Some i) ;;
      t <- port_type st2 w ;;
      Ok (st2, t)
  | None =>
      if up_to_cfg (length (s_nodes st)) st cfg (s_parent st (fst w)) then
        st2 <- add_link st (fst w) (Some (snd w)) node (Some i) ;;
        t <- port_type st2 w ;;
        Ok (st2, t)
      else Err ENoSibling
  end.
Fixpoint wire_up_from_blk (cfg : N) (st : store) (node : N) (i : N) (ws : list (N * N)) : res (store * row) :=
  match ws with
  | [] => Ok (st, [])
  | w :: r =>
      x <- wire_up_port_blk cfg st node i w ;;
      y <- wire_up_from_blk cfg (fst x) node (i + 1) r ;;
      Ok (fst y, snd x :: snd y)
  end.
(* cf: Some cfg when the current builder is a Block of that CFG *)
Definition wire_up3 (cf : option N) (st : store) (node : N) (ws : list (N * N)) : res (store * row) :=
  match cf with
  | None => wire_up st node ws
  | Some cfg => wire_up_from_blk cfg st node 0 ws
  end.

(* ------------------------------------------------------------------ operations *)
Section Exec3.
  Variable tys : list tyinfo.
  Variable sigs : list sinfo.

  (* the interned id of PolyFuncType(params, FunctionType(ins, outs)) *)
  Fixpoint find_sig_from (l : list sinfo) (params : N) (ins outs : row) (i : N) : option N :=
    match l with
    | [] => None
    | s :: r => if (si_params s =? params) && row_eqb (si_ins s) ins && row_eqb (si_outs s) outs then Some i
                else find_sig_from r params ins outs (i + 1)
    end.
  Definition find_sig (params : N) (ins outs : row) : option N := find_sig_from sigs params ins outs 0.

  (* ops.FuncDefn(name, inputs, params) [+ declare_outputs] *)
  Definition new_funcdefn (params : N) (ins : row) (douts : option row) : res vop :=
    match douts with
    | Some o => match find_sig params ins o with Some sg => Ok (FuncDefn sg ins o) | None => Err EIncomplete end
    | None => Ok (FuncDefn (lenN sigs + params) ins [])
    end.

  (* parent_op._set_out_types of DFG / Case / TailLoop (Builder2), FuncDefn (with Function.set_outputs' check of declared
     outputs) and DataflowBlock *)
  Definition set_out_types3 (o : vop) (outs : row) : res vop :=
    match o with
    | FuncDefn f i o0 =>
        if f <? lenN sigs then (if row_eqb o0 outs then Ok o else Err EIncomplete)
        else match find_sig (f - lenN sigs) i outs with Some sg => Ok (FuncDefn sg i outs) | None => Err EIncomplete end
    | Block i _ _ _ =>
        match outs with
        | t :: others => match nthN tys t with
                         | Some (TSum _ rows) => Ok (Block i rows others t)
                         | _ => Err EIncomplete
                         end
        | [] => Err EIncomplete
        end
    | other => set_out_types2 tys other outs
    end.

  Definition set_outputs3 (cf : option N) (st : store) (b : dfb) (ws : list (N * N)) : res store :=
    x <- wire_up3 cf st (b_out b) ws ;;
    st1 <- set_op (fst x) (b_out b) (Output (snd x)) ;;
    match s_op st1 (b_parent b) with
    | Some po => po' <- set_out_types3 po (snd x) ;; set_op st1 (b_parent b) po'
    | None => Err EKey
    end.

  (* DfBase._fn_sig: the FunctionKind of port 0 of the function node *)
  Definition fn_sig (st : store) (n : N) : res N :=
    match s_op st n with
    | Some (FuncDefn f _ _) => if f <? lenN sigs then Ok f else Err EIncomplete
    | Some (FuncDecl f) => Ok f
    | Some _ => Err EIncomplete
    | None => Err EKey
    end.
  (* _CallOrLoad.__init__ *)
  Definition instantiate (sg : N) (inst : option (row * row)) : res (row * row) :=
    match nthN sigs sg with
    | Some s => if si_params s =? 0 then Ok (si_ins s, si_outs s)
                else match inst with Some io => Ok io | None => Err EIncomplete end
    | None => Err EIncomplete
    end.

  (* DataflowBlock.nth_outputs of the block a control-flow wire starts at *)
  Definition nth_outputs (st : store) (p : N * N) : res row :=
    match s_op st (fst p) with
    | Some (Block _ rows others _) => match nthN rows (snd p) with Some r => Ok (r ++ others) | None => Err EIncomplete end
    | Some _ => Err EIncomplete
    | None => Err EKey
    end.

  (* ---------------------------------------------------------------- Cfg *)
  (* the Cfg builder: its node, the entry block's builder, the exit block; state: the outputs fixed by the first exit
     branch, whether the entry block has been built *)
  Record cfgb := { c_node : N; c_entry : dfb; c_exit : N }.
  Record cfgs := { cs_outs : option row; cs_entry : bool }.

  (* Cfg._init_impl *)
  Definition init_cfg (st : store) (cfg : N) (ins : row) : res (store * cfgb) :=
    a <- add_node st (Block ins [] [] 0) cfg ;;
    io <- init_io (fst a) (snd a) ins ;;
    x <- add_node (fst io) (ExitB []) cfg ;;
    Ok (fst x, {| c_node := cfg; c_entry := snd io; c_exit := snd x |}).

  (* Cfg.branch_exit *)
  Definition branch_exit (st : store) (cb : cfgb) (cs : cfgs) (p : N * N) : res (store * cfgs) :=
    st1 <- add_link st (fst p) (Some (snd p)) (c_exit cb) (Some 0) ;;
    rows <- nth_outputs st1 p ;;
    match cs_outs cs with
    | Some o => if row_eqb o rows then Ok (st1, cs) else Err EIncomplete
    | None =>
        st2 <- set_op st1 (c_exit cb) (ExitB rows) ;;
        match s_op st2 (c_node cb) with
        | Some (CFG i _) => st3 <- set_op st2 (c_node cb) (CFG i rows) ;;
                            Ok (st3, {| cs_outs := Some rows; cs_entry := cs_entry cs |})
        | _ => Err EKey
        end
    end.
  (* Cfg.branch *)
  Definition do_branch (st : store) (e : env3) (cb : cfgb) (cs : cfgs) (br : wid * btarget) : res (store * cfgs) :=
    p <- get_wire (e_env e) (fst br) ;;
    match snd br with
    | BExit => branch_exit st cb cs p
    | BTo s =>
        match lookup (e_stmts (e_env e)) s with
        | Some n => if n =? c_exit cb then branch_exit st cb cs p
                    else st1 <- add_link st (fst p) (Some (snd p)) n (Some 0) ;; Ok (st1, cs)
        | None => Err EUnbound
        end
    end.
  Fixpoint do_branches (st : store) (e : env3) (cb : cfgb) (cs : cfgs) (l : list (wid * btarget)) : res (store * cfgs) :=
    match l with
    | [] => Ok (st, cs)
    | br :: r => x <- do_branch st e cb cs br ;; do_branches (fst x) e cb (snd x) r
    end.
  Definition cfg_done (cs : cfgs) : bool := is_some (cs_outs cs) && cs_entry cs.

  (* the value loaded by Block.set_single_succ_outputs: val.Unit, of type UnitSum(1) *)
  Definition unit_value : res value :=
    match find_sum tys [[]] with Some t => Ok (VSum t 0 []) | None => Err EIncomplete end.

  (* ---------------------------------------------------------------- module: the function nodes, before any body *)
  Fixpoint decl_funcs (fs : funcs3) (st : store) (e : env3) : res (store * env3 * list (option dfb)) :=
    match fs with
    | FNil => Ok (st, e, [])
    | FDecl f sg rest =>
        a <- add_node st (FuncDecl sg) 0 ;;
        x <- decl_funcs rest (fst a) (bind_fn e f (snd a)) ;;
        let '(st', e', bs) := x in Ok (st', e', None :: bs)
    | FDefn f params ins douts _ rest =>
        o <- new_funcdefn params ins douts ;;
        a <- add_node st o 0 ;;
        io <- init_io (fst a) (snd a) ins ;;
        x <- decl_funcs rest (fst io) (bind_fn e f (snd a)) ;;
        let '(st', e', bs) := x in Ok (st', e', Some (snd io) :: bs)
    end.
  Fixpoint add_consts (vs : list value) (st : store) (e : env3) : res (store * env3) :=
    match vs with
    | [] => Ok (st, e)
    | v :: r => a <- add_node st (Const v) 0 ;; add_consts r (fst a) (bind_const e (snd a))
    end.

  Definition bind3 (e : env3) (id : sid) (n : N) (rs : list wid) : env3 :=
    with_env e (bind_outs (bind_stmt (e_env e) id n) n rs).

  (* ---------------------------------------------------------------- the builders *)
  Fixpoint exec_stmt3 (s : stmt3) (cf : option N) (b : dfb) (st : store) (e : env3) {struct s} : res (store * env3) :=
    match s with
    | UOp id o args rs =>
        ws <- get_wires (e_env e) args ;;
        a <- add_node st (initial_op o) (b_parent b) ;;
        x <- wire_up3 cf (fst a) (snd a) ws ;;
        op' <- completed_op tys o (snd x) ;;
        st' <- set_op (fst x) (snd a) op' ;;
        Ok (st', bind3 e id (snd a) rs)
    | ULoad id v cp r =>
        c <- add_node st (Const v) (match cp with CHere => b_parent b | CRoot => 0 end) ;;
        l <- add_node (fst c) (LoadConst (value_ty v)) (b_parent b) ;;
        st' <- add_link (fst l) (snd c) (Some 0) (snd l) (Some 0) ;;
        Ok (st', bind3 e id (snd l) [r])
    | UNested id args body rs =>
        ws <- get_wires (e_env e) args ;;
        ts <- wire_types st ws ;;
        d <- add_node st (DFG ts []) (b_parent b) ;;
        io <- init_io (fst d) (snd d) ts ;;
        x <- wire_up3 cf (fst io) (snd d) ws ;;
        y <- exec_region3 body false None (snd io) (fst x) e ;;
        Ok (fst y, bind3 (snd y) id (snd d) rs)
    | UOrder src dst =>
        a <- node_of b (e_env e) src ;;
        c <- node_of b (e_env e) dst ;;
        st' <- add_order_link st a c ;;
        Ok (st', e)
    | ULoop id just rest body rs =>
        jw <- get_wires (e_env e) just ;;
        rw <- get_wires (e_env e) rest ;;
        jt <- wire_types st jw ;;
        rt <- wire_types st rw ;;
        d <- add_node st (TailLoop (jt ++ rt) [] [] (lenN jt)) (b_parent b) ;;
        io <- init_io (fst d) (snd d) (jt ++ rt) ;;
        x <- wire_up3 cf (fst io) (snd d) (jw ++ rw) ;;
        y <- exec_region3 body false None (snd io) (fst x) e ;;
        Ok (fst y, bind3 (snd y) id (snd d) rs)
    | UCond id cond args cs rs =>
        cw <- get_wire (e_env e) cond ;;
        ws <- get_wires (e_env e) args ;;
        ts <- wire_types st (cw :: ws) ;;
        match ts with
        | t :: others =>
            match nthN tys t with
            | Some (TSum _ rows) =>
                c <- add_node st (Conditional rows others [] t) (b_parent b) ;;
                mk <- make_cases (fst c) (snd c) rows others ;;
                x <- wire_up3 cf (fst mk) (snd c) (cw :: ws) ;;
                y <- exec_cases3 cs (snd c) (snd mk) None (fst x) e ;;
                let '(st', e', bs, cur) := y in
                if cases_done bs cur then Ok (st', bind3 e' id (snd c) rs) else Err EIncomplete
            | _ => Err EIncomplete
            end
        | [] => Err EIncomplete
        end
    | UInsert id sub args rs =>
        y <- exec_prog3 sub e ;;
        ws <- get_wires (e_env (snd y)) args ;;
        m <- insert_hugr st (fst y) (b_parent b) ;;
        match nthN (snd m) 0 with
        | Some r =>
            x <- wire_up3 cf (fst m) r ws ;;
            Ok (fst x, bind3 (snd y) id r rs)
        | None => Err EKey
        end
    | UCallInd id args rs =>
        ws <- get_wires (e_env e) args ;;
        a <- add_node st (CallIndirect [] [] 0) (b_parent b) ;;
        x <- wire_up3 cf (fst a) (snd a) ws ;;
        op' <- completed_callind tys (snd x) ;;
        st' <- set_op (fst x) (snd a) op' ;;
        Ok (st', bind3 e id (snd a) rs)
    | UCall id f args rs inst =>
        fn <- get_fn e f ;;
        ws <- get_wires (e_env e) args ;;
        sg <- fn_sig st fn ;;
        io <- instantiate sg inst ;;
        a <- add_node st (Call sg (fst io) (snd io)) (b_parent b) ;;
        st1 <- add_link (fst a) fn (Some 0) (snd a) (Some (lenN (fst io))) ;;
        x <- wire_up3 cf st1 (snd a) ws ;;
        Ok (fst x, bind3 e id (snd a) rs)
    | ULoadFn id f r inst fnty =>
        fn <- get_fn e f ;;
        sg <- fn_sig st fn ;;
        io <- instantiate sg inst ;;
        a <- add_node st (LoadFunc sg (fst io) (snd io) fnty) (b_parent b) ;;
        st1 <- add_link (fst a) fn (Some 0) (snd a) (Some 0) ;;
        Ok (st1, bind3 e id (snd a) [r])
    | ULoadC id c r =>
        match nthN (e_consts e) c with
        | Some cn =>
            match s_op st cn with
            | Some (Const v) =>
                l <- add_node st (LoadConst (value_ty v)) (b_parent b) ;;
                st' <- add_link (fst l) cn (Some 0) (snd l) (Some 0) ;;
                Ok (st', bind3 e id (snd l) [r])
            | Some _ => Err EIncomplete
            | None => Err EKey
            end
        | None => Err EUnbound
        end
    | ULocalFn id f params ins douts body =>
        o <- new_funcdefn params ins douts ;;
        a <- add_node st o (b_parent b) ;;
        io <- init_io (fst a) (snd a) ins ;;
        y <- exec_region3 body false None (snd io) (fst io) e ;;
        Ok (fst y, bind_fn (with_env (snd y) (bind_stmt (e_env (snd y)) id (snd a))) f (snd a))
    | UCfg id args blocks branches rs =>
        ws <- get_wires (e_env e) args ;;
        ts <- wire_types st ws ;;
        c <- add_node st (CFG ts []) (b_parent b) ;;
        cb <- init_cfg (fst c) (snd c) ts ;;
        x <- wire_up3 cf (fst cb) (snd c) ws ;;
        y <- exec_blocks3 blocks (snd cb) false (fst x) e ;;
        let '(st1, e1, ent) := y in
        z <- do_branches st1 e1 (snd cb) {| cs_outs := None; cs_entry := ent |} branches ;;
        if cfg_done (snd z) then Ok (fst z, bind3 e1 id (snd c) rs) else Err EIncomplete
    end
  (* single: Block.set_single_succ_outputs (a Unit constant is loaded in front of the outputs) *)
  with exec_region3 (r : region3) (single : bool) (cf : option N) (b : dfb) (st : store) (e : env3) {struct r}
       : res (store * env3) :=
    match r with
    | Rg ins body outs =>
        y <- exec_stmts3 body cf b st (with_env e (bind_outs (e_env e) (b_in b) ins)) ;;
        ws <- get_wires (e_env (snd y)) outs ;;
        if single then
          v <- unit_value ;;
          c <- add_node (fst y) (Const v) (b_parent b) ;;
          l <- add_node (fst c) (LoadConst (value_ty v)) (b_parent b) ;;
          st1 <- add_link (fst l) (snd c) (Some 0) (snd l) (Some 0) ;;
          st' <- set_outputs3 cf st1 b ((snd l, 0) :: ws) ;;
          Ok (st', snd y)
        else
          st' <- set_outputs3 cf (fst y) b ws ;;
          Ok (st', snd y)
    end
  with exec_stmts3 (l : stmts3) (cf : option N) (b : dfb) (st : store) (e : env3) {struct l} : res (store * env3) :=
    match l with
    | UNil => Ok (st, e)
    | UCons s r => y <- exec_stmt3 s cf b st e ;; exec_stmts3 r cf b (fst y) (snd y)
    end
  with exec_cases3 (cs : cases3) (cond : N) (bs : list (dfb * bool)) (cur : option row) (st : store) (e : env3)
         {struct cs} : res (store * env3 * list (dfb * bool) * option row) :=
    match cs with
    | KNil => Ok (st, e, bs, cur)
    | KCons i r rest =>
        match nthN bs i with
        | Some (cb, false) =>
            y <- exec_region3 r false None cb st e ;;
            ts <- out_types (fst y) cb ;;
            u <- update_outputs (fst y) cond cur ts ;;
            exec_cases3 rest cond (set_nth bs (N.to_nat i) (cb, true)) (snd u) (fst u) (snd y)
        | _ => Err EIncomplete
        end
    end
  (* the blocks of a Cfg; ent: the entry block has been built *)
  with exec_blocks3 (bl : blocks3) (cb : cfgb) (ent : bool) (st : store) (e : env3) {struct bl} : res (store * env3 * bool) :=
    match bl with
    | BNil => Ok (st, e, ent)
    | BCons id k body single bw rest =>
        x <- match k with
             | BEntry => Ok (st, c_entry cb)
             | BBlock ins =>
                 a <- add_node st (Block ins [] [] 0) (c_node cb) ;;
                 init_io (fst a) (snd a) ins
             | BSucc pred =>
                 p <- get_wire (e_env e) pred ;;
                 ins <- nth_outputs st p ;;
                 a <- add_node st (Block ins [] [] 0) (c_node cb) ;;
                 io <- init_io (fst a) (snd a) ins ;;
                 st1 <- add_link (fst io) (fst p) (Some (snd p)) (snd a) (Some 0) ;;
                 Ok (st1, snd io)
             end ;;
        y <- exec_region3 body single (Some (c_node cb)) (snd x) (fst x) e ;;
        let n := b_parent (snd x) in
        exec_blocks3 rest cb (ent || match k with BEntry => true | _ => false end) (fst y) (bind3 (snd y) id n bw)
    end
  with exec_prog3 (p : prog3) (e : env3) {struct p} : res (store * env3) :=
    match p with
    | RDfg ins body =>
        io <- init_io (new_store (DFG ins [])) 0 ins ;;
        exec_region3 body false None (snd io) (fst io) e
    | RLoop just rest body =>
        io <- init_io (new_store (TailLoop (just ++ rest) [] [] (lenN just))) 0 (just ++ rest) ;;
        exec_region3 body false None (snd io) (fst io) e
    | RCond rows others sumty cs =>
        mk <- make_cases (new_store (Conditional rows others [] sumty)) 0 rows others ;;
        y <- exec_cases3 cs 0 (snd mk) None (fst mk) e ;;
        let '(st', e', bs, cur) := y in
        if cases_done bs cur then Ok (st', e') else Err EIncomplete
    | RFunc params ins douts body =>
        o <- new_funcdefn params ins douts ;;
        io <- init_io (new_store o) 0 ins ;;
        exec_region3 body false None (snd io) (fst io) e
    | RCfg ins blocks branches =>
        cb <- init_cfg (new_store (CFG ins [])) 0 ins ;;
        y <- exec_blocks3 blocks (snd cb) false (fst cb) e ;;
        let '(st1, e1, ent) := y in
        z <- do_branches st1 e1 (snd cb) {| cs_outs := None; cs_entry := ent |} branches ;;
        if cfg_done (snd z) then Ok (fst z, e1) else Err EIncomplete
    | RModule consts funcs =>
        c <- add_consts consts (new_store Module) e ;;
        d <- decl_funcs funcs (fst c) (snd c) ;;
        let '(st1, e1, bs) := d in
        exec_funcs3 funcs bs st1 e1
    end
  (* the bodies of the definitions of a module, in order *)
  with exec_funcs3 (fs : funcs3) (bs : list (option dfb)) (st : store) (e : env3) {struct fs} : res (store * env3) :=
    match fs, bs with
    | FNil, _ => Ok (st, e)
    | FDecl _ _ rest, _ :: bs' => exec_funcs3 rest bs' st e
    | FDefn _ _ _ _ body rest, Some b :: bs' =>
        y <- exec_region3 body false None b st e ;;
        exec_funcs3 rest bs' (fst y) (snd y)
    | _, _ => Err EKey
    end.
End Exec3.

Definition run3 (tys : list tyinfo) (sigs : list sinfo) (p : prog3) : res graph :=
  y <- exec_prog3 tys sigs p env3_0 ;; Ok (to_serial (fst y)).

(* a program with the sub-programs of its function-valued constants (val.Function(hugr): each built by its own
   interpreter, on its own Hugr; `VFun ty k` names the k-th of them) *)
Fixpoint run3_list (tys : list tyinfo) (sigs : list sinfo) (l : list prog3) : res (list graph) :=
  match l with
  | [] => Ok []
  | p :: r => g <- run3 tys sigs p ;; gs <- run3_list tys sigs r ;; Ok (g :: gs)
  end.
Definition run3s (tys : list tyinfo) (sigs : list sinfo) (p : prog3) (subs : list prog3) : res (graph * list graph) :=
  g <- run3 tys sigs p ;; gs <- run3_list tys sigs subs ;; Ok (g, gs).

(* ------------------------------------------------------------------ the embedding of the second language *)
Fixpoint emb2_stmt (s : stmt2) : stmt3 :=
  match s with
  | TOp id o args rs => UOp id o args rs
  | TLoad id v cp r => ULoad id v cp r
  | TNested id args body rs => UNested id args (emb2_region body) rs
  | TOrder src dst => UOrder src dst
  | TLoop id just rest body rs => ULoop id just rest (emb2_region body) rs
  | TCond id cond args cs rs => UCond id cond args (emb2_cases cs) rs
  | TInsert id sub args rs => UInsert id (emb2 sub) args rs
  | TCallInd id args rs => UCallInd id args rs
  end
with emb2_region (r : region2) : region3 :=
  match r with Reg ins body outs => Rg ins (emb2_stmts body) outs end
with emb2_stmts (l : stmts2) : stmts3 :=
  match l with TNil => UNil | TCons s r => UCons (emb2_stmt s) (emb2_stmts r) end
with emb2_cases (cs : cases2) : cases3 :=
  match cs with CNil => KNil | CCons i r rest => KCons i (emb2_region r) (emb2_cases rest) end
with emb2 (p : prog2) : prog3 :=
  match p with
  | QDfg ins body => RDfg ins (emb2_region body)
  | QLoop just rest body => RLoop just rest (emb2_region body)
  | QCond rows others sumty cs => RCond rows others sumty (emb2_cases cs)
  end.
