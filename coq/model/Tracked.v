(* Model of hugr.build.tracked_dfg.TrackedDfg on top of the plain Dfg builder (build/dfg.py:
   add_op / add / _wire_up / _wire_up_port / set_outputs), for one flat dataflow graph.
   Nodes are named by creation order: 0 = the Input node, 1 = the Output node, k+2 = the k-th node
   added (the index-allocation policy is not what C15 speaks about).  A wire is (node name, out
   offset).  The HUGR is a log: nodes in creation order (operation identity, number of value outputs,
   metadata) and links in insertion order ((source wire), (target node, in offset)).
   Error branches are values: the state reached when the exception propagates is kept.
   No proofs here. *)
From Coq Require Import ZArith NArith List Bool Arith.
Import ListNotations.

Definition wire := (N * N)%type.
Definition NIN : N := 0%N.
Definition NOUT : N := 1%N.
Definition meta := list (N * N).              (* metadata dict: interned key, interned JSON value *)
Record opd := mkOp { op_id : N; op_out : N }. (* identity of the operation object; op.num_out *)
Definition link := (wire * (N * N))%type.

Inductive err :=
| EIndex        (* IndexError *)
| EKey          (* KeyError: Hugr.__getitem__ on a node that does not exist *)
| EIncomplete   (* IncompleteOp *)
| EValue.       (* ValueError *)

Record hugr := mkH {
  h_nin : N;                          (* number of inputs of the Dfg *)
  h_nodes : list (opd * meta);        (* added nodes, creation order *)
  h_links : list link;                (* insertion order *)
  h_outset : bool }.                  (* Output._types has been set (a set_outputs call completed) *)

Definition node_count (h : hugr) : N := N.of_nat (length (h_nodes h)).
Definition new_name (h : hugr) : N := (2 + node_count h)%N.

(* ---------------------------------------------------------------- plain builder (Dfg) *)

Definition add_node (h : hugr) (op : opd) (m : meta) : hugr :=
  mkH (h_nin h) (h_nodes h ++ [(op, m)]) (h_links h) (h_outset h).
Definition add_link (h : hugr) (w : wire) (d : N * N) : hugr :=
  mkH (h_nin h) (h_nodes h) (h_links h ++ [(w, d)]) (h_outset h).
Definition src_exists (h : hugr) (n : N) : bool := (n <? 2 + node_count h)%N.

(* number of value outputs the source operation reports (None: IncompleteOp) *)
Definition nout (h : hugr) (n : N) : option N :=
  if (n =? NIN)%N then Some (h_nin h)
  else if (n =? NOUT)%N then (if h_outset h then Some 0%N else None)
  else match nth_error (h_nodes h) (N.to_nat (n - 2)) with
       | Some (op, _) => Some (op_out op)
       | None => Some 0%N
       end.

(* DfBase._wire_up_port: _ancestral_sibling looks the source node up (KeyError), all nodes here are
   siblings so no state-order edge; add_link; then _get_dataflow_type indexes the source signature
   (IndexError / IncompleteOp after the link was recorded) *)
Definition wire_up_port (h : hugr) (dst i : N) (w : wire) : hugr * option err :=
  if negb (src_exists h (fst w)) then (h, Some EKey)
  else let h' := add_link h w (dst, i) in
       match nout h (fst w) with
       | None => (h', Some EIncomplete)
       | Some k => if (snd w <? k)%N then (h', None) else (h', Some EIndex)
       end.

Fixpoint wire_up (h : hugr) (dst i : N) (ws : list wire) : hugr * option err :=
  match ws with
  | [] => (h, None)
  | w :: r => match wire_up_port h dst i w with
              | (h', None) => wire_up h' dst (i + 1)%N r
              | e => e
              end
  end.

(* DfBase.add_op: add_node(op, parent, metadata=metadata) then _wire_up *)
Definition add_op (h : hugr) (op : opd) (m : meta) (ws : list wire) : hugr * option err :=
  wire_up (add_node h op m) (new_name h) 0%N ws.

(* Dfg.set_outputs: _wire_up(output_node, args), then the output types are recorded *)
Definition set_outputs (h : hugr) (ws : list wire) : hugr * option err :=
  match wire_up h NOUT 0%N ws with
  | (h', None) => (mkH (h_nin h') (h_nodes h') (h_links h') true, None)
  | e => e
  end.

Inductive pcmd :=
| PAdd (op : opd) (m : meta) (ws : list wire)
| PSetOutputs (ws : list wire).

Definition pstep (h : hugr) (c : pcmd) : hugr * option err :=
  match c with
  | PAdd op m ws => add_op h op m ws
  | PSetOutputs ws => set_outputs h ws
  end.

Fixpoint prun (h : hugr) (q : list pcmd) : hugr * option err :=
  match q with
  | [] => (h, None)
  | c :: r => match pstep h c with
              | (h', None) => prun h' r
              | e => e
              end
  end.

(* ---------------------------------------------------------------- command arguments *)

Inductive arg := AW (w : wire) | AI (i : Z).

(* Dfg.add (plain builder): an integer argument raises ValueError before anything is added *)
Fixpoint all_wires (args : list arg) : option (list wire) :=
  match args with
  | [] => Some []
  | AW w :: r => match all_wires r with Some ws => Some (w :: ws) | None => None end
  | AI _ :: _ => None
  end.
Definition dfg_add (h : hugr) (op : opd) (m : meta) (args : list arg) : hugr * option err :=
  match all_wires args with
  | Some ws => add_op h op m ws
  | None => (h, Some EValue)
  end.

(* ---------------------------------------------------------------- TrackedDfg *)

Definition tracked := list (option wire).

(* tracked_wire (after the D29 repair: a negative index is not a tracked wire) *)
Definition tracked_wire (tr : tracked) (i : Z) : option wire :=
  if (i <? 0)%Z then None
  else match nth_error tr (Z.to_nat i) with
       | Some (Some w) => Some w
       | _ => None
       end.

Definition to_wire (tr : tracked) (a : arg) : option wire :=
  match a with AW w => Some w | AI i => tracked_wire tr i end.
Fixpoint to_wires (tr : tracked) (args : list arg) : option (list wire) :=
  match args with
  | [] => Some []
  | a :: r => match to_wire tr a with
              | Some w => match to_wires tr r with Some ws => Some (w :: ws) | None => None end
              | None => None
              end
  end.

(* l[n] = x for an index inside the list *)
Fixpoint set_nth {A} (l : list A) (n : nat) (x : A) : list A :=
  match l, n with
  | [], _ => []
  | _ :: r, O => x :: r
  | y :: r, S n' => y :: set_nth r n' x
  end.

(* the loop at the end of TrackedDfg.add: for port_offset, com_wire in enumerate(com.incoming) *)
Fixpoint rebind (tr : tracked) (n j : N) (args : list arg) : tracked :=
  match args with
  | [] => tr
  | AW _ :: r => rebind tr n (j + 1)%N r
  | AI i :: r => rebind (set_nth tr (Z.to_nat i) (Some (n, j))) n (j + 1)%N r
  end.

(* TrackedDfg.add (after the D19 repair: metadata is passed on).  The wire generator is expanded before add_op
   runs, so an IndexError leaves the HUGR untouched; an error inside add_op skips the rebinding *)
Definition t_add (h : hugr) (tr : tracked) (op : opd) (m : meta) (args : list arg)
  : hugr * tracked * option err :=
  match to_wires tr args with
  | None => (h, tr, Some EIndex)
  | Some ws => match add_op h op m ws with
               | (h', None) => (h', rebind tr (new_name h) 0%N args, None)
               | (h', Some e) => (h', tr, Some e)
               end
  end.

(* DfBase.extend: [self.add(com) for com in coms], no metadata *)
Fixpoint t_extend (h : hugr) (tr : tracked) (coms : list (opd * list arg))
  : hugr * tracked * option err :=
  match coms with
  | [] => (h, tr, None)
  | (op, args) :: r => match t_add h tr op [] args with
                       | (h', tr', None) => t_extend h' tr' r
                       | e => e
                       end
  end.

Definition inputs (nin : N) : list wire := map (fun k => (NIN, N.of_nat k)) (seq 0 (N.to_nat nin)).
Definition live (tr : tracked) : list wire :=
  flat_map (fun o => match o with Some w => [w] | None => [] end) tr.

Inductive cmd :=
| TrackWire (w : wire)
| TrackWires (ws : list wire)
| TrackInputs
| Untrack (i : Z)
| Add (op : opd) (m : meta) (args : list arg)
| Extend (coms : list (opd * list arg))
| SetIndexedOutputs (args : list arg)
| SetTrackedOutputs.

Definition step (h : hugr) (tr : tracked) (c : cmd) : hugr * tracked * option err :=
  match c with
  | TrackWire w => (h, tr ++ [Some w], None)
  | TrackWires ws => (h, tr ++ map Some ws, None)
  | TrackInputs => (h, tr ++ map Some (inputs (h_nin h)), None)
  | Untrack i => match tracked_wire tr i with
                 | Some _ => (h, set_nth tr (Z.to_nat i) None, None)
                 | None => (h, tr, Some EIndex)
                 end
  | Add op m args => t_add h tr op m args
  | Extend coms => t_extend h tr coms
  | SetIndexedOutputs args => match to_wires tr args with
                              | None => (h, tr, Some EIndex)
                              | Some ws => let '(h', e) := set_outputs h ws in (h', tr, e)
                              end
  | SetTrackedOutputs => let '(h', e) := set_outputs h (live tr) in (h', tr, e)
  end.

Fixpoint run (h : hugr) (tr : tracked) (p : list cmd) : hugr * tracked * option err :=
  match p with
  | [] => (h, tr, None)
  | c :: r => match step h tr c with
              | (h', tr', None) => run h' tr' r
              | e => e
              end
  end.

(* TrackedDfg(input types..., track_inputs=...) *)
Definition init_h (nin : N) : hugr := mkH nin [] [] false.
Definition init_tr (nin : N) (track : bool) : tracked := if track then map Some (inputs nin) else [].
Definition run_tracked (nin : N) (track : bool) (p : list cmd) := run (init_h nin) (init_tr nin track) p.
Definition run_plain (nin : N) (q : list pcmd) := prun (init_h nin) q.
