(* C06, histories: the operations a Hugr holds, by node index, across add_node / delete_node (the freed
   index is handed to the next node) / assignment of `hugr[n].op` (also what resolve_extensions does) /
   in-place completion of an operation by a builder -- and the port queries of model/Ops.v asked of the node
   store.  Mirrors hugr/hugr/base.py: `_nodes[idx] = NodeData(op, ..)`, `_nodes[idx] = None`,
   `Hugr.port_kind(port) = self[port.node].op.port_kind(port)`, `Hugr.port_type`.  Nothing is remembered
   between two queries: every answer is computed from the operation stored at the index at that moment.
   No proofs here. *)
From Coq Require Import ZArith List Bool.
Import ListNotations.
From HV Require Import lib.Harness model.Types model.Ops.
Local Open Scope Z_scope.

Section Store.
  Variable V : Type.
  Variable vtype : V -> result ty.
  Notation op := (op V).

  (* what a step of a history does to the slot of one node index *)
  Inductive sstep :=
  | SPut (n : Z) (o : op)       (* the operation now held at index n (new node, op assigned, op completed in place) *)
  | SDel (n : Z).               (* delete_node: `_nodes[n] = None` *)

  Definition store := list (Z * op).          (* index -> operation; at most one binding per index *)

  Fixpoint lookup (s : store) (n : Z) : option op :=
    match s with
    | [] => None
    | (m, o) :: r => if m =? n then Some o else lookup r n
    end.
  Fixpoint remove (s : store) (n : Z) : store :=
    match s with
    | [] => []
    | (m, o) :: r => if m =? n then remove r n else (m, o) :: remove r n
    end.
  Definition apply (s : store) (st : sstep) : store :=
    match st with
    | SPut n o => (n, o) :: remove s n
    | SDel n => remove s n
    end.
  Definition run (s : store) (l : list sstep) : store := fold_left apply l s.

  (* `self[port.node]` raises KeyError for an index that holds no node: None = that KeyError *)
  Definition at_node {A} (s : store) (n : Z) (f : op -> result A) : option (result A) :=
    match lookup s n with Some o => Some (f o) | None => None end.

  Definition store_port_kind (s : store) (n : Z) (d : dir) (z : Z) : option (result kind) :=
    at_node s n (fun o => port_kind vtype o d z).                 (* Hugr.port_kind; hugr[n].op.port_kind *)
  Definition store_port_type (s : store) (n : Z) (d : dir) (z : Z) : option (result (option ty)) :=
    at_node s n (fun o => hugr_port_type vtype o d z).            (* Hugr.port_type *)
  Definition store_op_port_type (s : store) (n : Z) (d : dir) (z : Z) : option (result ty) :=
    at_node s n (fun o => op_port_type o d z).                    (* hugr[n].op.port_type *)
  Definition store_outer_sig (s : store) (n : Z) : option (result functy) := at_node s n (@outer_sig V).
  Definition store_inner_sig (s : store) (n : Z) : option (result functy) := at_node s n (@inner_sig V).
  Definition store_num_out (s : store) (n : Z) : option (result Z) := at_node s n (@num_out V).
End Store.

Arguments SPut {V}. Arguments SDel {V}. Arguments lookup {V}. Arguments remove {V}. Arguments apply {V}.
Arguments run {V}. Arguments at_node {V A}. Arguments store_port_kind {V}. Arguments store_port_type {V}.
Arguments store_op_port_type {V}. Arguments store_outer_sig {V}. Arguments store_inner_sig {V}.
Arguments store_num_out {V}.
