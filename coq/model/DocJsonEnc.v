(* C03 -- Package documents whose modules carry an `encoder` string.  model/DocJson.v `pkg_json` writes every module
   with "encoder": null (Package._to_serial goes through Hugr._to_serial, and the code as it stood set the encoder only
   in SerialHugr.to_json).  The field is optional in the schema (string | null) and named by no clause of C03: the
   value is the writer's choice, module by module.  pkg_json = pkg_json_e with every encoder None.  No proofs here. *)
From Coq Require Import List String.
Import ListNotations.
From HV Require Import model.Schema model.SerialHugr model.DocJson.
Open Scope string_scope.

Definition pkg_json_e {sop md} (op_fields : sop -> obj) (md_fields : md -> obj)
    (mods : list (option string * serial sop md)) (exts : list json) : json :=
  JObj [("modules", JArr (map (fun m => doc_json op_fields md_fields (fst m) (snd m)) mods)); ("extensions", JArr exts)].
