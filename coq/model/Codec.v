(* hugr-py's own conversions between the API classes of hugr.tys and the pydantic serial models of
   hugr._serialization.tys, both directions (tys.py `_to_serial` / `_to_serial_root`,
   _serialization/tys.py `deserialize`).  API layer: model/Types.v (shared).  No proofs. *)
From Coq Require Import NArith List Bool Arith.
Import ListNotations.
From HV Require Import lib.Harness model.Types model.SerialTypes.

(* ---- TypeParam ---- *)
Fixpoint param_to_serial (p : typaram) : stparam :=
  match p with
  | PType b => SPType b
  | PNat ub => SPBoundedNat ub
  | PString => SPString
  | PList q => SPList (param_to_serial q)
  | PTuple ps => SPTuple (map param_to_serial ps)
  | PExts => SPExtensions
  end.
Fixpoint param_deserialize (s : stparam) : typaram :=
  match s with
  | SPType b => PType b
  | SPBoundedNat ub => PNat ub
  | SPString => PString
  | SPList q => PList (param_deserialize q)
  | SPTuple ps => PTuple (map param_deserialize ps)
  | SPExtensions => PExts
  end.

(* ---- Type / TypeArg ---- *)
Definition bound_or_any (o : option bound) : bound := match o with Some b => b | None => Any end.

(* `_to_serial_root` of every Type class.  ExtType goes through `_to_opaque`, whose bound is the
   computed type_bound(); where the Python raises (see [ty_ok]) the value below is irrelevant. *)
Fixpoint ty_to_serial (t : ty) : sty :=
  match t with
  | TSum rs => SGeneralSum (map (map ty_to_serial) rs)           (* Sum._to_serial, inherited by Tuple/Option/Either *)
  | TUnitSum n => SUnitSum (N.of_nat n)
  | TVar i b => SVariable (N.of_nat i) b
  | TRowVar i b => SRowVar (N.of_nat i) b
  | TUSize => SUSize
  | TQubit => SQubit
  | TAlias nm b => SAlias b nm
  | TFunc i o r => SFunctionType (map ty_to_serial i) (map ty_to_serial o) r
  | TPoly _ i o r => SFunctionType (map ty_to_serial i) (map ty_to_serial o) r   (* raises: not in the union *)
  | TOpaque e id a b => SOpaque e id (map arg_to_serial a) b
  | TExt d a c => SOpaque (td_ext d) (td_name d) (map arg_to_serial a) (bound_or_any (tbound t))
  end
with arg_to_serial (a : tyarg) : starg :=
  match a with
  | AType t => SATy (ty_to_serial t)
  | ANat n => SANat n
  | AString s => SAString s
  | ASeq l => SASeq (map arg_to_serial l)
  | AExts es => SAExts es
  | AVar i p => SAVar (N.of_nat i) (param_to_serial p)
  end.

(* when `_to_serial_root` returns: every definition-backed type inside can compute its bound, and no
   PolyFuncType sits where a Type is expected (pydantic rejects it) *)
Fixpoint ty_ok (t : ty) : bool :=
  match t with
  | TSum rs => forallb (forallb ty_ok) rs
  | TFunc i o _ => forallb ty_ok i && forallb ty_ok o
  | TPoly _ _ _ _ => false
  | TOpaque _ _ a _ => forallb targ_ok a
  | TExt _ a _ => forallb targ_ok a && match tbound t with Some _ => true | None => false end
  | _ => true
  end
with targ_ok (a : tyarg) : bool :=
  match a with
  | AType t => ty_ok t
  | ASeq l => forallb targ_ok l
  | _ => true
  end.

(* `deserialize()` of every serial class *)
Fixpoint ty_deserialize (s : sty) : ty :=
  match s with
  | SQubit => TQubit
  | SVariable i b => TVar (N.to_nat i) b
  | SRowVar i b => TRowVar (N.to_nat i) b
  | SUSize => TUSize
  | SFunctionType i o r => TFunc (map ty_deserialize i) (map ty_deserialize o) r
  | SUnitSum n => TUnitSum (N.to_nat n)
  | SGeneralSum rs => TSum (map (map ty_deserialize) rs)
  | SOpaque e id a b => TOpaque e id (map arg_deserialize a) b
  | SAlias b nm => TAlias nm b
  end
with arg_deserialize (a : starg) : tyarg :=
  match a with
  | SATy t => AType (ty_deserialize t)
  | SANat n => ANat n
  | SAString s => AString s
  | SASeq l => ASeq (map arg_deserialize l)
  | SAExts es => AExts es
  | SAVar i p => AVar (N.to_nat i) (param_deserialize p)
  end.

(* ---- FunctionType / PolyFuncType used as a class of their own ---- *)
Record functype := FT { ft_in : list ty; ft_out : list ty; ft_reqs : list name }.
Record polytype := PT { pt_params : list typaram; pt_body : functype }.
Definition func_to_serial (f : functype) : sfunc :=
  SFunc (map ty_to_serial (ft_in f)) (map ty_to_serial (ft_out f)) (ft_reqs f).
Definition func_deserialize (s : sfunc) : functype :=
  FT (map ty_deserialize (sf_input s)) (map ty_deserialize (sf_output s)) (sf_reqs s).
Definition poly_to_serial (p : polytype) : spoly :=
  SPoly (map param_to_serial (pt_params p)) (func_to_serial (pt_body p)).
Definition poly_deserialize (s : spoly) : polytype :=
  PT (map param_deserialize (sp_params s)) (func_deserialize (sp_body s)).
Definition func_ok (f : functype) : bool := forallb ty_ok (ft_in f) && forallb ty_ok (ft_out f).
Definition func_as_ty (f : functype) : ty := TFunc (ft_in f) (ft_out f) (ft_reqs f).
Definition poly_as_ty (p : polytype) : ty :=
  TPoly (pt_params p) (ft_in (pt_body p)) (ft_out (pt_body p)) (ft_reqs (pt_body p)).

(* ---- the normal form a decoded object has: definition-backed extension types in opaque form ---- *)
Fixpoint ty_nf (t : ty) : ty :=
  match t with
  | TSum rs => TSum (map (map ty_nf) rs)
  | TFunc i o r => TFunc (map ty_nf i) (map ty_nf o) r
  | TPoly ps i o r => TFunc (map ty_nf i) (map ty_nf o) r        (* only reached where encoding raises *)
  | TOpaque e id a b => TOpaque e id (map arg_nf a) b
  | TExt d a c => TOpaque (td_ext d) (td_name d) (map arg_nf a) (bound_or_any (tbound t))
  | _ => t
  end
with arg_nf (a : tyarg) : tyarg :=
  match a with
  | AType t => AType (ty_nf t)
  | ASeq l => ASeq (map arg_nf l)
  | _ => a
  end.
Definition func_nf (f : functype) : functype := FT (map ty_nf (ft_in f)) (map ty_nf (ft_out f)) (ft_reqs f).
Definition poly_nf (p : polytype) : polytype := PT (pt_params p) (func_nf (pt_body p)).

(* ---- the sugar subclasses of tys.Sum: each constructor only fills variant_rows (tys.py:360-433) ---- *)
Inductive sumsugar :=
| SgTuple (tys : list ty) | SgOption (tys : list ty) | SgEither (l r : list ty) | SgUnitSum (n : nat).
Definition sugar_rows (s : sumsugar) : list (list ty) :=
  match s with
  | SgTuple l => [l]
  | SgOption l => [[]; l]
  | SgEither l r => [l; r]
  | SgUnitSum n => repeat [] n                                   (* [[]] * size *)
  end.
(* the object a sugar constructor builds: UnitSum keeps its own class (own _to_serial); the other three
   inherit everything from Sum *)
Definition sugar_ty (s : sumsugar) : ty :=
  match s with SgUnitSum n => TUnitSum n | _ => TSum (sugar_rows s) end.
(* variant_rows of a Sum object *)
Definition variant_rows (t : ty) : option (list (list ty)) :=
  match t with TSum rs => Some rs | TUnitSum n => Some (repeat [] n) | _ => None end.

(* Python `==` between type objects: dataclass equality, except that Sum.__eq__ compares variant_rows only
   (so a UnitSum equals the general Sum with the same rows); [ty_canon] rewrites every UnitSum into that
   general form, after which `==` is structural *)
Fixpoint ty_canon (t : ty) : ty :=
  match t with
  | TSum rs => TSum (map (map ty_canon) rs)
  | TUnitSum n => TSum (repeat [] n)
  | TFunc i o r => TFunc (map ty_canon i) (map ty_canon o) r
  | TPoly ps i o r => TPoly ps (map ty_canon i) (map ty_canon o) r
  | TOpaque e id a b => TOpaque e id (map arg_canon a) b
  | TExt d a c => TExt d (map arg_canon a) c
  | _ => t
  end
with arg_canon (a : tyarg) : tyarg :=
  match a with
  | AType t => AType (ty_canon t)
  | ASeq l => ASeq (map arg_canon l)
  | _ => a
  end.
(* the same on the serial side: used to compare derived facts "up to Python equality" by encoded form *)
Fixpoint sty_canon (s : sty) : sty :=
  match s with
  | SFunctionType i o r => SFunctionType (map sty_canon i) (map sty_canon o) r
  | SUnitSum n => SGeneralSum (repeat [] (N.to_nat n))
  | SGeneralSum rs => SGeneralSum (map (map sty_canon) rs)
  | SOpaque e id a b => SOpaque e id (map sarg_canon a) b
  | _ => s
  end
with sarg_canon (a : starg) : starg :=
  match a with
  | SATy t => SATy (sty_canon t)
  | SASeq l => SASeq (map sarg_canon l)
  | _ => a
  end.

(* ---- boolean equalities on the API layer (correspondence runs only) ---- *)
Fixpoint typaram_eqb (a b : typaram) : bool :=
  match a, b with
  | PType x, PType y => bound_eqb x y
  | PNat x, PNat y => option_eqb N.eqb x y
  | PString, PString | PExts, PExts => true
  | PList x, PList y => typaram_eqb x y
  | PTuple x, PTuple y =>
      (fix go (l m : list typaram) : bool :=
         match l, m with [], [] => true | p :: r, q :: s => typaram_eqb p q && go r s | _, _ => false end) x y
  | _, _ => false
  end.
Definition typedef_eqb (a b : typedef) : bool :=
  N.eqb (td_ext a) (td_ext b) && N.eqb (td_name a) (td_name b) && N.eqb (td_descr a) (td_descr b) &&
  list_eqb typaram_eqb (td_params a) (td_params b) && defbound_eqb (td_bound a) (td_bound b).
Definition extclass_eqb (a b : extclass) : bool :=
  match a, b with Generic, Generic => true | ElemAt i, ElemAt j => Nat.eqb i j | _, _ => false end.
Fixpoint ty_eqb (a b : ty) : bool :=
  let fix row (l m : list ty) : bool :=
    match l, m with [], [] => true | p :: r, q :: s => ty_eqb p q && row r s | _, _ => false end in
  let fix rows (l m : list (list ty)) : bool :=
    match l, m with [], [] => true | p :: r, q :: s => row p q && rows r s | _, _ => false end in
  let fix args (l m : list tyarg) : bool :=
    match l, m with [], [] => true | p :: r, q :: s => tyarg_eqb p q && args r s | _, _ => false end in
  match a, b with
  | TSum r, TSum s => rows r s
  | TUnitSum n, TUnitSum m => Nat.eqb n m
  | TVar i x, TVar j y | TRowVar i x, TRowVar j y => Nat.eqb i j && bound_eqb x y
  | TUSize, TUSize | TQubit, TQubit => true
  | TAlias n x, TAlias m y => N.eqb n m && bound_eqb x y
  | TFunc i o r, TFunc i' o' r' => row i i' && row o o' && names_eqb r r'
  | TPoly ps i o r, TPoly ps' i' o' r' => list_eqb typaram_eqb ps ps' && row i i' && row o o' && names_eqb r r'
  | TOpaque e i a x, TOpaque e' i' a' y => N.eqb e e' && N.eqb i i' && args a a' && bound_eqb x y
  | TExt d a c, TExt d' a' c' => typedef_eqb d d' && args a a' && extclass_eqb c c'
  | _, _ => false
  end
with tyarg_eqb (a b : tyarg) : bool :=
  let fix args (l m : list tyarg) : bool :=
    match l, m with [], [] => true | p :: r, q :: s => tyarg_eqb p q && args r s | _, _ => false end in
  match a, b with
  | AType x, AType y => ty_eqb x y
  | ANat x, ANat y => N.eqb x y
  | AString x, AString y => N.eqb x y
  | ASeq x, ASeq y => args x y
  | AExts x, AExts y => names_eqb x y
  | AVar i p, AVar j q => Nat.eqb i j && typaram_eqb p q
  | _, _ => false
  end.
Definition functype_eqb (a b : functype) : bool :=
  list_eqb ty_eqb (ft_in a) (ft_in b) && list_eqb ty_eqb (ft_out a) (ft_out b) && names_eqb (ft_reqs a) (ft_reqs b).
Definition polytype_eqb (a b : polytype) : bool :=
  list_eqb typaram_eqb (pt_params a) (pt_params b) && functype_eqb (pt_body a) (pt_body b).
