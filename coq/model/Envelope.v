(* Model of hugr.envelope (envelope.py:44-197) over byte strings = list N.
   zstd, the JSON text codec and UTF-8 validation are Section variables (oracles).  No proofs here. *)
From Coq Require Import NArith List Bool.
Import ListNotations.
From HV Require Import lib.Harness.
Open Scope N_scope.

Definition bytes := list N.
Definition MAGIC : bytes := [72; 85; 71; 82; 105; 72; 74; 118].   (* b"HUGRiHJv" *)

Inductive format := MODULE | MODULE_WITH_EXTS | JSON.
Definition fmt_value (f : format) : N := match f with MODULE => 1 | MODULE_WITH_EXTS => 2 | JSON => 63 end.
(* EnvelopeFormat(byte): ValueError for a value that is not a member *)
Definition fmt_of (b : N) : option format :=
  if b =? 1 then Some MODULE else if b =? 2 then Some MODULE_WITH_EXTS else if b =? 63 then Some JSON else None.
Definition ascii_printable (f : format) : bool := match f with JSON => true | _ => false end.

Record header := { hformat : format; hzstd : bool }.
Inductive err := ValueError | ZstdError | DecodeError | Unsupported.
Inductive res (A : Type) := Ok (a : A) | Err (e : err).
Arguments Ok {A}. Arguments Err {A}.

Definition bytes_eqb : bytes -> bytes -> bool := list_eqb N.eqb.

(* EnvelopeHeader.to_bytes *)
Definition header_to_bytes (h : header) : bytes :=
  MAGIC ++ [fmt_value (hformat h); N.lor 64 (if hzstd h then 1 else 0)].
(* EnvelopeHeader.from_bytes *)
Definition header_from_bytes (d : bytes) : res header :=
  if Nat.ltb (length d) 10 then Err ValueError
  else if negb (bytes_eqb (firstn 8 d) MAGIC) then Err ValueError
  else match fmt_of (nth 8 d 0) with
       | None => Err ValueError
       | Some f => Ok {| hformat := f; hzstd := negb (N.land (nth 9 d 0) 1 =? 0) |}
       end.

Record config := { cformat : format; czstd : option N (* level, offset-encoded by the harness *) }.
Definition make_header (c : config) : header :=
  {| hformat := cformat c; hzstd := match czstd c with Some _ => true | None => false end |}.

Section Codec.
  Variable package : Type.
  Variable json_payload : package -> bytes.              (* package._to_serial().model_dump_json().encode() *)
  Variable json_parse : bytes -> option package.          (* Package.model_validate_json(..).deserialize() *)
  Variable compress : N -> bytes -> bytes.                (* pyzstd.compress *)
  Variable decompress : bytes -> option bytes.            (* pyzstd.decompress *)
  Variable utf8_ok : bytes -> bool.                       (* bytes.decode("utf-8") succeeds *)

  (* make_envelope; MODULE formats need the native module: not encodable here *)
  Definition make_envelope (p : package) (c : config) : res bytes :=
    match cformat c with
    | JSON =>
        let payload := json_payload p in
        let payload := match czstd c with Some lvl => compress lvl payload | None => payload end in
        Ok (header_to_bytes (make_header c) ++ payload)
    | _ => Err Unsupported
    end.
  Definition make_envelope_str (p : package) (c : config) : res bytes :=
    if negb (ascii_printable (cformat c)) then Err ValueError
    else match make_envelope p c with
         | Ok e => if utf8_ok e then Ok e else Err DecodeError
         | Err e => Err e
         end.
  Definition read_envelope (e : bytes) : res package :=
    match header_from_bytes e with
    | Err x => Err x
    | Ok h =>
        let payload := skipn 10 e in
        match (if hzstd h then decompress payload else Some payload) with
        | None => Err ZstdError
        | Some payload =>
            match hformat h with
            | JSON => match json_parse payload with Some p => Ok p | None => Err DecodeError end
            | _ => Err ValueError
            end
        end
    end.

  (* A Package object is not a value: the lists it holds, the Hugr modules and the extensions in them
     stay mutable (only the two attribute bindings of the dataclass are frozen).  Package._to_serial
     (package.py:50-54) rebuilds the serial form from self.modules / self.extensions at every call and
     keeps nothing between calls, so a history of operations on ONE object is a fold over the steps in
     which each encoding sees the contents the object has at that moment. *)
  Inductive step :=
  | SEncode (c : config)                      (* package.to_bytes(c) *)
  | SEncodeStr (c : config)                   (* package.to_str(c) *)
  | SMutate (f : package -> package).         (* any change of the module list / a module / an extension *)
  (* the outputs of the encodings of a history, each paired with the contents encoded *)
  Fixpoint run_steps (p : package) (s : list step) : list (package * res bytes) :=
    match s with
    | [] => []
    | SEncode c :: s => (p, make_envelope p c) :: run_steps p s
    | SEncodeStr c :: s => (p, make_envelope_str p c) :: run_steps p s
    | SMutate f :: s => run_steps (f p) s
    end.
End Codec.
