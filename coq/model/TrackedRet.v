(* Return values of the TrackedDfg calls (hugr.build.tracked_dfg), on top of model/Tracked.v.
   The integers a program passes to add / untrack_wire / set_indexed_outputs are the indices that
   track_wire / track_wires / track_inputs RETURNED: "the wire stored at that index" is known to the
   caller through these values only.  The state transitions stay in Tracked.step; this file says what
   each call hands back, from the state before the call, mirroring the code:
     track_wire    self.tracked.append(wire); return len(self.tracked) - 1
     track_wires   [self.track_wire(w) for w in wires]        (one pass over the argument)
     track_inputs  self.track_wires(self.inputs())
     untrack_wire  w = self.tracked_wire(index); self.tracked[index] = None; return w
     add           the new node;   extend   [self.add(com) for com in coms]
   No proofs here. *)
From Coq Require Import ZArith NArith List Bool Arith.
Import ListNotations.
From HV Require Import model.Tracked.

Inductive retv :=
| RNone                    (* set_indexed_outputs / set_tracked_outputs *)
| RIdx (i : Z)             (* track_wire *)
| RIdxs (l : list Z)       (* track_wires / track_inputs *)
| RWire (w : wire)         (* untrack_wire *)
| RNode (n : N)            (* add: node name (creation order) *)
| RNodes (l : list N).     (* extend *)

(* track_wire: the list after the append and the index returned *)
Definition track_wire_ret (tr : tracked) (w : wire) : tracked * Z :=
  let tr1 := tr ++ [Some w] in (tr1, (Z.of_nat (length tr1) - 1)%Z).

(* track_wires: the comprehension, one track_wire per element *)
Fixpoint track_wires_ret (tr : tracked) (ws : list wire) : tracked * list Z :=
  match ws with
  | [] => (tr, [])
  | w :: r => let '(tr1, i) := track_wire_ret tr w in
              let '(tr2, l) := track_wires_ret tr1 r in (tr2, i :: l)
  end.

(* extend: names of the nodes made by a call that did not raise (one per command, creation order) *)
Fixpoint node_names (n : N) (k : nat) : list N :=
  match k with O => [] | S k' => n :: node_names (n + 1)%N k' end.

(* the value handed back by a call that does not raise, from the state before the call *)
Definition ret_of (h : hugr) (tr : tracked) (c : cmd) : retv :=
  match c with
  | TrackWire w => RIdx (snd (track_wire_ret tr w))
  | TrackWires ws => RIdxs (snd (track_wires_ret tr ws))
  | TrackInputs => RIdxs (snd (track_wires_ret tr (inputs (h_nin h))))
  | Untrack i => match tracked_wire tr i with Some w => RWire w | None => RNone end
  | Add _ _ _ => RNode (new_name h)
  | Extend coms => RNodes (node_names (new_name h) (length coms))
  | SetIndexedOutputs _ => RNone
  | SetTrackedOutputs => RNone
  end.

(* the values handed back by the calls of a program, up to the first call that raises *)
Fixpoint run_rets (h : hugr) (tr : tracked) (p : list cmd) : list retv :=
  match p with
  | [] => []
  | c :: r => match step h tr c with
              | (h', tr', None) => ret_of h tr c :: run_rets h' tr' r
              | _ => []
              end
  end.

Definition run_tracked_rets (nin : N) (track : bool) (p : list cmd) : list retv :=
  run_rets (init_h nin) (init_tr nin track) p.
