(* C03 — a syntactic certificate that a schema definition's verdict on an operation object does not depend on
   WHICH integer its `parent` member holds (so that "the operation objects are valid" need only be assumed for one
   parent index).  `names` is a set of $ref strings closed under the references that apply to the object itself
   (oneOf alternatives, $ref); each named definition must not compare the whole object with a constant, and the
   only schema it applies to the member `parent` constrains nothing but the JSON type.  No proofs in this file. *)
From Coq Require Import List Bool ZArith String Ascii Arith.
Import ListNotations.
From HV Require Import lib.Harness model.Schema.
Open Scope string_scope.

(* the verdict of s on an integer does not depend on the integer: only `type` and annotations *)
Definition type_only (s : json) : bool :=
  match s with
  | JObj kvs => forallb (fun k => match kw_of k with KType | KAnnot => true | _ => false end) (keys kvs)
  | _ => true
  end.
Definition absent (k : string) (kvs : obj) : bool := match lookup k kvs with None => true | Some _ => false end.
Definition ref_in (names : list string) (s : json) : bool :=
  match s with
  | JObj [(k, JStr r)] => (k =? "$ref") && mem String.eqb r names
  | _ => false
  end.
Definition plocal (names : list string) (s : json) : bool :=
  match s with
  | JObj kvs =>
      absent "const" kvs && absent "enum" kvs && absent "anyOf" kvs &&
      match lookup "properties" kvs with
      | Some (JObj ps) => match lookup "parent" ps with Some sp => type_only sp | None => true end
      | _ => true
      end &&
      match lookup "additionalProperties" kvs with
      | Some sa => in_props "parent" (lookup "properties" kvs) || type_only sa
      | None => true
      end &&
      match lookup "oneOf" kvs with
      | Some (JArr ss) => forallb (ref_in names) ss
      | _ => true
      end &&
      match lookup "$ref" kvs with
      | Some (JStr r) => mem String.eqb r names
      | _ => true
      end
  | _ => true
  end.
Definition pclosed (root : json) (names : list string) : bool :=
  forallb (fun r => match resolve root r with Some t => plocal names t | None => true end) names.

(* OpType and the alternatives of its oneOf *)
Definition optype_names (root : json) : list string :=
  let r0 := ref_prefix ++ "OpType" in
  r0 :: match resolve root r0 with
        | Some (JObj kvs) =>
            match lookup "oneOf" kvs with
            | Some (JArr ss) => flat_map (fun s => match s with JObj [(_, JStr r)] => [r] | _ => [] end) ss
            | _ => []
            end
        | _ => []
        end.
