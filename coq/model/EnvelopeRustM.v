(* The DOCUMENTED envelope header: `EnvelopeHeader::read` / `::write`, `EnvelopeFormat::from_repr` and
   `ascii_printable` of hugr-core/src/envelope/header.rs, transcribed over the constants that
   harness/translators/envelope_rs.py scans from that file on every run (coq/gen/EnvelopeRust.v), the
   correspondence of names between the Rust variants, the Python members and the constructors of the model's
   `format`, and the boolean comparisons of the scanned constants (Rust, Python) with the hand-written
   constants of model/Envelope.v.  No proofs here (proofs/EnvelopeRustP.v). *)
From Coq Require Import NArith String List Bool Arith.
Import ListNotations.
From HV Require Import lib.Harness model.Envelope gen.EnvelopeRust gen.EnvelopePy.
Open Scope N_scope.

(* ---- names: the three sides call the same formats differently (hand-written table) *)
Definition all_formats : list format := [MODULE; MODULE_WITH_EXTS; JSON].
Definition rust_name (f : format) : string :=
  match f with MODULE => "Model" | MODULE_WITH_EXTS => "ModelWithExtensions" | JSON => "PackageJson" end%string.
Definition py_name (f : format) : string :=
  match f with MODULE => "MODULE" | MODULE_WITH_EXTS => "MODULE_WITH_EXTS" | JSON => "JSON" end%string.

(* ---- the Rust side, over the scanned constants *)
Inductive rust_err :=
| RIo                      (* read_exact: UnexpectedEof *)
| RMagic                   (* EnvelopeError::MagicNumber *)
| RFormat (descriptor : N) (* EnvelopeError::InvalidFormatDescriptor *).
Inductive rust_res := ROk (variant : string) (zstd : bool) | RErr (e : rust_err).

(* strum::FromRepr: the variant whose discriminant is d *)
Definition rust_from_repr (d : N) : option string :=
  option_map fst (find (fun x => snd x =? d) rust_formats).
(* `self.format as u8` *)
Definition rust_discriminant (variant : string) : option N :=
  option_map snd (find (fun x => String.eqb (fst x) variant) rust_formats).
Definition rust_variant_ascii_printable (variant : string) : bool :=
  mem String.eqb variant rust_ascii_printable.

(* reader.read_exact(&mut [0; n]): the next n bytes and the rest, or an io error *)
Definition read_exact (n : nat) (d : bytes) : option (bytes * bytes) :=
  if Nat.ltb (length d) n then None else Some (firstn n d, skipn n d).

(* EnvelopeHeader::read *)
Definition rust_read (d : bytes) : rust_res :=
  match read_exact rust_magic_read_len d with
  | None => RErr RIo
  | Some (magic, d1) =>
      if negb (bytes_eqb magic rust_magic) then RErr RMagic else
      match read_exact rust_format_read_len d1 with
      | None => RErr RIo
      | Some (fb, d2) =>
          let descriptor := nth 0 fb 0 in
          match rust_from_repr descriptor with
          | None => RErr (RFormat descriptor)
          | Some v =>
              match read_exact rust_flags_read_len d2 with
              | None => RErr RIo
              | Some (fl, _) => ROk v (negb (N.land (nth 0 fl 0) rust_zstd_mask =? 0))
              end
          end
      end
  end.

(* EnvelopeHeader::write (None: the name is not a variant — not expressible in Rust) *)
Definition rust_write (variant : string) (zstd : bool) : option bytes :=
  match rust_discriminant variant with
  | None => None
  | Some d => Some (rust_magic ++ [d; N.lor rust_flags_base (if zstd then 1 else 0)])
  end.

(* ---- comparisons of constants (each is the computational content of one theorem of props/C09.v; the run
   module evaluates them too, so that a failing one can be named with its differing constant) *)
Definition name_eqb (a b : string * N) : bool := String.eqb (fst a) (fst b) && (snd a =? snd b).
Definition model_formats (name : format -> string) : list (string * N) :=
  map (fun f => (name f, fmt_value f)) all_formats.
Definition model_printable (name : format -> string) : list string :=
  map name (filter ascii_printable all_formats).

Definition chk_rust_magic : bool := bytes_eqb rust_magic MAGIC.
Definition chk_rust_formats : bool := seteq_b name_eqb rust_formats (model_formats rust_name).
Definition chk_rust_printable : bool := seteq_b String.eqb rust_ascii_printable (model_printable rust_name).
Definition chk_rust_flags : bool := (rust_flags_base =? 64) && (rust_zstd_mask =? 1).
Definition chk_rust_lengths : bool :=
  Nat.eqb rust_magic_read_len 8 && Nat.eqb rust_format_read_len 1 && Nat.eqb rust_flags_read_len 1 &&
  match rust_header_len_stated with Some n => Nat.eqb n 10 | None => true end.

Definition py_as_rust : list (string * N) :=
  flat_map (fun f => match rust_discriminant (rust_name f) with Some d => [(py_name f, d)] | None => [] end) all_formats.
Definition py_printable_as_rust : list string :=
  map py_name (filter (fun f => rust_variant_ascii_printable (rust_name f)) all_formats).
Definition chk_py_magic : bool := bytes_eqb py_magic rust_magic.
Definition chk_py_formats : bool :=
  seteq_b name_eqb py_formats py_as_rust &&
  forallb (fun x => mem String.eqb (fst x) (map rust_name all_formats)) rust_formats.
Definition chk_py_printable : bool := seteq_b String.eqb py_ascii_printable py_printable_as_rust.
