(* C12, second pass — model of _UnionFind (hugr-py/src/hugr/model/export.py:595-626) as the code has
   it: a parents map and a sizes map, `__getitem__` = find with path splitting, `union` by size; and of
   ModelExport.__init__ / link_name on top of it.  No proofs in this file.

   parents / sizes are dicts in the code; an item that is not yet in them is inserted as its own parent with
   size 1 the first time it is looked up, so a dict is modelled by a total function with these defaults.
   The `while` loop of find becomes recursion on fuel; the proofs (proofs/ExportUFP.v) show that the fuel
   given (number of links + 1) is never exhausted. *)
From Coq Require Import ZArith List Bool Arith.
Import ListNotations.
From HV Require Import model.Export model.ExportNum.
Open Scope Z_scope.

Definition upd {A} (m : port -> A) (k : port) (v : A) : port -> A :=
  fun x => if port_eqb x k then v else m x.

Record uf := mkUF { parents : port -> port; sizes : port -> nat }.
Definition uf_empty : uf := mkUF (fun x => x) (fun _ => 1%nat).

(* __getitem__: walk to the root, pointing every visited item to its grandparent (path splitting) *)
Fixpoint uf_find (fuel : nat) (par : port -> port) (x : port) : port * (port -> port) :=
  match fuel with
  | O => (x, par)
  | S n =>
      let p := par x in
      if port_eqb p x then (x, par) else uf_find n (upd par x (par p)) p
  end.

(* union: the root of the smaller class is attached below the root of the larger one *)
Definition uf_union (fuel : nat) (u : uf) (a b : port) : uf :=
  let (ra, p1) := uf_find fuel (parents u) a in
  let (rb, p2) := uf_find fuel p1 b in
  if port_eqb ra rb then mkUF p2 (sizes u)
  else
    let (big, small) := if Nat.ltb (sizes u ra) (sizes u rb) then (rb, ra) else (ra, rb) in
    mkUF (upd p2 small big) (upd (sizes u) big (sizes u big + sizes u small)%nat).

(* ModelExport.__init__: for a, b in hugr.links(): union(a, b) *)
Definition uf_fuel (ls : list link) : nat := S (length ls).
Definition uf_build (ls : list link) : uf :=
  fold_left (fun u l => uf_union (uf_fuel ls) u (srcp l) (dstp l)) ls uf_empty.

(* the root the built structure gives for a port *)
Definition uf_root (ls : list link) (x : port) : port :=
  fst (uf_find (uf_fuel ls) (parents (uf_build ls)) x).

(* link_name over the union-find: every lookup may rewrite parents (path splitting) *)
Definition name_of_root (st : list port) (r : port) : nat * list port :=
  if known r st then (idx r st, st) else (length st, st ++ [r]).
Fixpoint link_names_uf (fuel : nat) (par : port -> port) (st : list port) (ps : list port)
  : list nat * ((port -> port) * list port) :=
  match ps with
  | [] => ([], (par, st))
  | p :: q =>
      let (r, par1) := uf_find fuel par p in
      let (k, st1) := name_of_root st r in
      let (ks, rest) := link_names_uf fuel par1 st1 q in (k :: ks, rest)
  end.

(* the names the code computes for the calls of an export, and the export named by them *)
Definition code_names (h : hugr) : list nat :=
  let ls := h_links h in fst (link_names_uf (uf_fuel ls) (parents (uf_build ls)) [] (visits h)).
Definition num_uf (h : hugr) : port -> nat :=
  let ls := h_links h in
  let R := uf_root ls in
  let fn := snd (link_names R [] (visits h)) in fun p => idx (R p) fn.
Definition export_code (h : hugr) : eregion nat Z :=
  let nu := num_uf h in map_region nu (fun s => s) (export_ports h).
