(* Specification for C06, written from specification/hugr.md (node descriptions in "Dataflow", "Control
   flow", the edge-kind table of Appendix 2) and hugr-core/src/ops/{dataflow,controlflow}.rs + ops.rs
   (OpType::port_kind: value ports first, then the static port, then the "other" port), independently of
   model/Ops.v: only the data types (op, kind, functy) are shared, none of its functions.  Rows are indexed
   by naturals (a port is the i-th element of a row); the order ("other") port is the offset -1 of the
   Python API. *)
From Coq Require Import ZArith NArith List Bool Arith.
Import ListNotations.
From HV Require Import lib.Harness model.Types model.Ops.

Definition rows := (list ty * list ty)%type.          (* value inputs, value outputs *)

(* a sum type and its variant rows *)
Inductive sum_rows : ty -> list (list ty) -> Prop :=
| SR_sum rs : sum_rows (TSum rs) rs
| SR_unit n : sum_rows (TUnitSum n) (repeat [] n).
Definition sum_rows_f (t : ty) : option (list (list ty)) :=
  match t with TSum rs => Some rs | TUnitSum n => Some (repeat [] n) | _ => None end.

Section Spec.
  Variable V : Type.
  Variable ctype : V -> option ty.             (* the type of a constant value (C14's typing judgment) *)
  Notation op := (op V).

  (* ---- dataflow signature of a node (only complete operations have one) ---- *)
  Inductive has_sig : op -> rows -> Prop :=
  | S_Input ts : has_sig (OInput ts) ([], ts)
  | S_Output ts : has_sig (OOutput (Some ts)) (ts, [])
  | S_Custom e n d s a : has_sig (OCustom e n d s a) (f_in s, f_out s)
  | S_ExtCached e n d s a : has_sig (OExtOp e n d (Some s) a) (f_in s, f_out s)
  | S_ExtMono e n p a : p_params p = [] -> has_sig (OExtOp e n (Some p) None a) (f_in (p_body p), f_out (p_body p))
  | S_MakeTuple ts : has_sig (OMakeTuple (Some ts)) (ts, [TSum [ts]])
  | S_UnpackTuple ts : has_sig (OUnpackTuple (Some ts)) ([TSum [ts]], ts)
  | S_Noop t : has_sig (ONoop (Some t)) ([t], [t])
  (* Tag: the variant's row to the sum *)
  | S_Tag i s rs r : sum_rows s rs -> nth_error rs i = Some r -> has_sig (OTag (Z.of_nat i) s) (r, [s])
  (* DFG / CFG: the node's signature is the one of the contained graph *)
  | S_DFG i o d : has_sig (ODFG i (Some o) d) (i, o)
  | S_CFG i o : has_sig (OCFG i (Some o)) (i, o)
  | S_LoadConst t : has_sig (OLoadConst (Some t)) ([], [t])
  (* Conditional: the sum first, then the other inputs *)
  | S_Conditional s oth outs : has_sig (OConditional s oth (Some outs)) (s :: oth, outs)
  (* TailLoop: #I:#X -> #O:#X *)
  | S_TailLoop ji x jo d : has_sig (OTailLoop ji x (Some jo) d) (ji ++ x, jo ++ x)
  (* CallIndirect: the function value first *)
  | S_CallIndirect f : has_sig (OCallIndirect (Some f)) (fty f :: f_in f, f_out f)
  (* Call / LoadFunction: the (type-instantiated) function *)
  | S_Call p inst ta : has_sig (OCall p inst ta) (f_in inst, f_out inst)
  | S_LoadFunc p inst ta : has_sig (OLoadFunc p inst ta) ([], [fty inst]).

  Definition spec_sig (o : op) : option rows :=
    match o with
    | OInput ts => Some ([], ts)
    | OOutput (Some ts) => Some (ts, [])
    | OCustom _ _ _ s _ => Some (f_in s, f_out s)
    | OExtOp _ _ _ (Some s) _ => Some (f_in s, f_out s)
    | OExtOp _ _ (Some p) None _ =>
        match p_params p with [] => Some (f_in (p_body p), f_out (p_body p)) | _ => None end
    | OMakeTuple (Some ts) => Some (ts, [TSum [ts]])
    | OUnpackTuple (Some ts) => Some ([TSum [ts]], ts)
    | ONoop (Some t) => Some ([t], [t])
    | OTag z s =>
        if (z <? 0)%Z then None
        else match sum_rows_f s with
             | Some rs => match nth_error rs (Z.to_nat z) with Some r => Some (r, [s]) | None => None end
             | None => None
             end
    | ODFG i (Some o) _ | OCFG i (Some o) => Some (i, o)
    | OLoadConst (Some t) => Some ([], [t])
    | OConditional s oth (Some outs) => Some (s :: oth, outs)
    | OTailLoop ji x (Some jo) _ => Some (ji ++ x, jo ++ x)
    | OCallIndirect (Some f) => Some (fty f :: f_in f, f_out f)
    | OCall _ inst _ => Some (f_in inst, f_out inst)
    | OLoadFunc _ inst _ => Some ([], [fty inst])
    | _ => None
    end.

  (* ---- signature of the dataflow graph contained in a node ---- *)
  Inductive has_inner_sig : op -> rows -> Prop :=
  | I_DFG i o d : has_inner_sig (ODFG i (Some o) d) (i, o)
  | I_Case i o : has_inner_sig (OCase i (Some o)) (i, o)
  | I_FuncDefn n i ps o : has_inner_sig (OFuncDefn n i ps (Some o)) (i, o)
  (* loop body: #I:#X -> Sum(#I, #O):#X *)
  | I_TailLoop ji x jo d : has_inner_sig (OTailLoop ji x (Some jo) d) (ji ++ x, TSum [ji; jo] :: x)
  (* block body: inputs -> Sum(#t0..#tn-1):#x *)
  | I_Block i s oth d : has_inner_sig (OBlock i (Some s) (Some oth) d) (i, s :: oth).
  Definition spec_inner_sig (o : op) : option rows :=
    match o with
    | ODFG i (Some o) _ | OCase i (Some o) | OFuncDefn _ i _ (Some o) => Some (i, o)
    | OTailLoop ji x (Some jo) _ => Some (ji ++ x, TSum [ji; jo] :: x)
    | OBlock i (Some s) (Some oth) _ => Some (i, s :: oth)
    | _ => None
    end.

  (* inputs of the i-th Case of a Conditional; inputs of the i-th successor of a block *)
  Inductive case_inputs : op -> nat -> list ty -> Prop :=
  | CI s rs oth outs i r : sum_rows s rs -> nth_error rs i = Some r ->
      case_inputs (OConditional s oth outs) i (r ++ oth).
  Inductive successor_inputs : op -> nat -> list ty -> Prop :=
  | SI ins s rs oth d i r : sum_rows s rs -> nth_error rs i = Some r ->
      successor_inputs (OBlock ins (Some s) (Some oth) d) i (r ++ oth).
  Definition spec_case_inputs (o : op) (i : nat) : option (list ty) :=
    match o with
    | OConditional s oth _ =>
        match sum_rows_f s with
        | Some rs => match nth_error rs i with Some r => Some (r ++ oth) | None => None end
        | None => None
        end
    | _ => None
    end.
  Definition spec_successor_inputs (o : op) (i : nat) : option (list ty) :=
    match o with
    | OBlock _ (Some s) (Some oth) _ =>
        match sum_rows_f s with
        | Some rs => match nth_error rs i with Some r => Some (r ++ oth) | None => None end
        | None => None
        end
    | _ => None
    end.

  (* ---- ports ---- *)
  (* node types with Value / Order columns in the table of Appendix 2 (dataflow nodes) *)
  Definition dataflow_node (o : op) : bool :=
    match o with
    | OInput _ | OOutput _ | OCustom _ _ _ _ _ | OExtOp _ _ _ _ _ | OMakeTuple _ | OUnpackTuple _ | ONoop _
    | OTag _ _ | ODFG _ _ _ | OCFG _ _ | OLoadConst _ | OConditional _ _ _ | OTailLoop _ _ _ _
    | OCallIndirect _ | OLoadFunc _ _ _ | OCall _ _ _ => true
    | _ => false
    end.
  (* Order column: Input "0, *", Output "*, 0", every other dataflow node "*, *" *)
  Definition has_order_port (o : op) (d : dir) : bool :=
    dataflow_node o &&
    match o, d with OInput _, In => false | OOutput _, Out => false | _, _ => true end.
  (* Const / Function columns: the single static port, placed right after the value ports *)
  Definition static_port (o : op) (d : dir) : option kind :=
    match d, o with
    | In, OCall p _ _ | In, OLoadFunc p _ _ => Some (FunctionKind p)
    | In, OLoadConst (Some t) => Some (ConstKind t)
    | Out, OConst v => match ctype v with Some t => Some (ConstKind t) | None => None end
    | Out, OFuncDefn _ i ps (Some o) => Some (FunctionKind (mkP ps (mkF i o [])))
    | Out, OFuncDecl _ p => Some (FunctionKind p)
    | _, _ => None
    end.
  (* ControlFlow column: blocks have one incoming port; a DFB has one outgoing port per successor *)
  Definition cf_ports (o : op) (d : dir) : option nat :=
    match o, d with
    | OBlock _ _ _ _, In | OExit _, In => Some 1
    | OBlock _ (Some s) _ _, Out => match sum_rows_f s with Some rs => Some (length rs) | None => None end
    | OExit _, Out => Some 0
    | _, _ => None
    end.

  (* does the node type have a static port in this direction at all *)
  Definition static_site (o : op) (d : dir) : bool :=
    match d, o with
    | In, OCall _ _ _ | In, OLoadFunc _ _ _ | In, OLoadConst _
    | Out, OConst _ | Out, OFuncDefn _ _ _ _ | Out, OFuncDecl _ _ => true
    | _, _ => false
    end.

  (* what the specification says about offset z in direction d of a node:
       Port k       the node has this port and its kind is k
       NoPort       the node has no such port
       Unspecified  nothing is said: the operation is incomplete (a builder still has to fill in types),
                    an extension operation is polymorphic without a cached signature, or z < -1 is not a
                    port offset *)
  Inductive pspec := Port (k : kind) | NoPort | Unspecified.
  Definition spec_port_kind (o : op) (d : dir) (z : Z) : pspec :=
    if (z =? -1)%Z then (if has_order_port o d then Port OrderKind else NoPort)
    else if (z <? 0)%Z then Unspecified
    else
      let i := Z.to_nat z in
      match spec_sig o with
      | Some (ins, outs) =>
          let row := match d with In => ins | Out => outs end in
          match nth_error row i with
          | Some t => Port (ValueKind t)
          | None => if Nat.eqb i (length row) then
                      match static_port o d with
                      | Some k => Port k
                      | None => if static_site o d then Unspecified else NoPort
                      end
                    else NoPort
          end
      | None =>
          if dataflow_node o then Unspecified
          else match o, d with
               | OBlock _ _ _ _, _ | OExit _, _ =>
                   match cf_ports o d with
                   | Some n => if Nat.ltb i n then Port CFKind else NoPort
                   | None => Unspecified
                   end
               | _, _ =>
                   if Nat.eqb i 0 then
                     match static_port o d with
                     | Some k => Port k
                     | None => if static_site o d then Unspecified else NoPort
                     end
                   else NoPort
               end
      end.

  (* number of outgoing ports other than the order port: values, then static, or control flow *)
  Definition spec_num_out (o : op) : option nat :=
    match spec_sig o with
    | Some (_, outs) => Some (length outs)
    | None =>
        match o with
        | OConst _ | OFuncDefn _ _ _ _ | OFuncDecl _ _ => Some 1
        | OBlock _ _ _ _ => cf_ports o Out
        | OExit _ | OCase _ _ | OModule | OAliasDecl _ _ | OAliasDefn _ _ => Some 0
        | _ => None
        end
    end.

  (* a port carries a type exactly when it is a Value port *)
  Definition spec_port_type (o : op) (d : dir) (z : Z) : option ty :=
    match spec_port_kind o d z with Port (ValueKind t) => Some t | _ => None end.

  (* kinds that claim a typed edge *)
  Definition typed_kind (k : kind) : bool :=
    match k with ValueKind _ | ConstKind _ | FunctionKind _ => true | _ => false end.
End Spec.

Arguments has_sig {V}. Arguments spec_sig {V}. Arguments has_inner_sig {V}. Arguments spec_inner_sig {V}.
Arguments case_inputs {V}. Arguments successor_inputs {V}. Arguments spec_case_inputs {V}.
Arguments spec_successor_inputs {V}. Arguments dataflow_node {V}. Arguments has_order_port {V}.
Arguments static_port {V}. Arguments cf_ports {V}. Arguments spec_port_kind {V}. Arguments spec_num_out {V}.
Arguments spec_port_type {V}. Arguments static_site {V}.
