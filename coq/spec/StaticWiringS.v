(* C03 — "the static (function / constant) port sits immediately after the value inputs", read off the DOCUMENT
   against the reader's contract only (hugr-core/src/ops.rs static_port / value_port_count): written against the
   serial records of model/SerialHugr.v, with the two facts a reader derives from an encoded operation as
   parameters:
     has_sout o      the operation has a static output, port 0 (FuncDefn, FuncDecl, Const)
     sin_port o      Some v: the operation has a static input and it is port v = its number of value inputs
                     (Call: inputs of the instantiation; LoadFunction / LoadConstant: 0)
   static_edges_ok:  every edge leaving a static output ends at exactly the static input port of its target
   static_wired_ok:  every operation with a static input has an edge from a static output into that port
   Both are clauses about HUGRs the builder API wired (DfBase.call / load / load_function use
   ops.Call._function_port_offset etc. to choose the port); a raw Hugr.add_link may connect a static output to any
   port, and delete_node / delete_link may unwire a static input, without the document being wrong -- the harness
   says per HUGR which clause applies. *)
From Coq Require Import List Bool Arith.
Import ListNotations.
From HV Require Import lib.Harness model.SerialHugr.

Section StaticWiring.
  Variables sop md : Type.
  Variable has_sout : sop -> bool.
  Variable sin_port : sop -> option nat.

  Definition op_at (s : serial sop md) (k : nat) : option sop := option_map (@s_op sop) (nth_error (s_nodes s) k).
  Definition from_static (s : serial sop md) (p : sport) : bool :=
    match op_at s (fst p), snd p with
    | Some o, Some 0 => has_sout o
    | _, _ => false
    end.
  Definition into_static_port (s : serial sop md) (p : sport) : bool :=
    match op_at s (fst p) with
    | Some o => match sin_port o, snd p with Some v, Some k => k =? v | _, _ => false end
    | None => false
    end.
  Definition static_edges_ok (s : serial sop md) : bool :=
    forallb (fun e : sedge => if from_static s (fst e) then into_static_port s (snd e) else true) (s_edges s).
  Fixpoint wired_from (s : serial sop md) (k : nat) (l : list (snode sop)) : bool :=
    match l with
    | [] => true
    | n :: r =>
        match sin_port (s_op n) with
        | Some v => existsb (fun e : sedge => from_static s (fst e) && (fst (snd e) =? k) &&
                                              match snd (snd e) with Some j => j =? v | None => false end) (s_edges s)
        | None => true
        end && wired_from s (S k) r
    end.
  Definition static_wired_ok (s : serial sop md) : bool := wired_from s 0 (s_nodes s).
End StaticWiring.
Arguments static_edges_ok {sop md}. Arguments static_wired_ok {sop md}.
