(* C12 — comparison of exported trees up to renaming: every link name / symbol is replaced by the
   position of its first occurrence in a fixed traversal (used by run/C12Run.v: corr).  No proofs. *)
From Coq Require Import ZArith List Bool Arith.
Import ListNotations.
From HV Require Import lib.Harness model.Export.
Open Scope Z_scope.

Section Canon.
  Context {L Sy : Type} (leqb : L -> L -> bool) (seqb : Sy -> Sy -> bool).
  Definition op_syms (o : eop Sy) : list Sy :=
    match o with
    | ODefFunc s | ODeclFunc s | ODefAlias s | ODeclAlias s | OCall s | OLoadFunc s => [s]
    | _ => []
    end.
  Fixpoint names_node (e : enode L Sy) : list L :=
    match e with
    | ENode _ _ i o regs _ _ =>
        i ++ o ++ flat_map (fun r => match r with
                                     | ERegion _ s t ch _ => s ++ t ++ flat_map names_node ch
                                     end) regs
    end.
  Fixpoint syms_node (e : enode L Sy) : list Sy :=
    match e with
    | ENode op _ _ _ regs _ _ =>
        op_syms op ++ flat_map (fun r => match r with
                                         | ERegion _ _ _ ch _ => flat_map syms_node ch
                                         end) regs
    end.
  Fixpoint rank {A} (eqb : A -> A -> bool) (x : A) (l : list A) : nat :=
    match l with [] => 0%nat | y :: r => if eqb x y then 0%nat else S (rank eqb x r) end.
  Definition canon (m : eregion L Sy) : eregion nat nat :=
    match m with
    | ERegion _ s t ch _ =>
        let ln := s ++ t ++ flat_map names_node ch in
        let sn := flat_map syms_node ch in
        map_region (fun x => rank leqb x ln) (fun x => rank seqb x sn) m
    end.
End Canon.

(* ---- order-hint keys up to renaming.  The property asks for matching keys on the two nodes of a hint and
   prescribes no numbering; keys only have to be distinct within one region.  Every key on a child of a
   region, and both keys of every hint of that region, are replaced by the position of the key's first
   occurrence among the keys of the region's children (in child order); one renaming per region. *)
Section CanonKeys.
  Context {L Sy : Type}.
  Definition rk (kl : list Z) (k : Z) : Z := Z.of_nat (rank Z.eqb k kl).
  Definition rk_hint (kl : list Z) (ab : Z * Z) : Z * Z := (rk kl (fst ab), rk kl (snd ab)).
  Fixpoint ck_node (kl : list Z) (e : enode L Sy) : enode L Sy :=
    match e with
    | ENode op sg i o regs keys meta =>
        ENode op sg i o
              (map (fun r => match r with
                             | ERegion k s t ch h =>
                                 let kl' := flat_map e_keys ch in
                                 ERegion k s t (map (ck_node kl') ch) (map (rk_hint kl') h)
                             end) regs)
              (map (rk kl) keys) meta
    end.
  Definition canon_keys (r : eregion L Sy) : eregion L Sy :=
    match r with
    | ERegion k s t ch h =>
        let kl := flat_map e_keys ch in ERegion k s t (map (ck_node kl) ch) (map (rk_hint kl) h)
    end.
End CanonKeys.

(* the comparison of the correspondence check: link names, symbols and order-hint keys up to renaming *)
Definition canon_full {L Sy} (leqb : L -> L -> bool) (seqb : Sy -> Sy -> bool) (m : eregion L Sy) : eregion nat nat :=
  canon_keys (canon leqb seqb m).

(* ---- keys that no hint mentions.  The property asks for a key on the two nodes of every order hint; whether
   a node that no hint of its region mentions carries a key as well (a node with order edges to the region
   boundary only, every node, ...) is not prescribed.  Before the comparison every key on a child of a region
   that none of the hints of that region mentions is dropped, on both trees. *)
Section PruneKeys.
  Context {L Sy : Type}.
  Definition hint_keys (h : list (Z * Z)) : list Z := flat_map (fun ab => [fst ab; snd ab]) h.
  Definition keep_used (used keys : list Z) : list Z := filter (fun k => mem Z.eqb k used) keys.
  Fixpoint pk_node (used : list Z) (e : enode L Sy) : enode L Sy :=
    match e with
    | ENode op sg i o regs keys meta =>
        ENode op sg i o
              (map (fun r => match r with
                             | ERegion k s t ch h => ERegion k s t (map (pk_node (hint_keys h)) ch) h
                             end) regs)
              (keep_used used keys) meta
    end.
  Definition prune_keys (r : eregion L Sy) : eregion L Sy :=
    match r with ERegion k s t ch h => ERegion k s t (map (pk_node (hint_keys h)) ch) h end.
End PruneKeys.

(* the comparison of the correspondence check since the correction of the false alarms on harmless changes:
   link names, symbols and the keys the hints use, up to renaming *)
Definition canon_cmp {L Sy} (leqb : L -> L -> bool) (seqb : Sy -> Sy -> bool) (m : eregion L Sy) : eregion nat nat :=
  canon_keys (prune_keys (canon leqb seqb m)).
