(* Specification of C02 (JSON round trip is lossless and a fixed point) and C03 (wire format:
   index sanity and port addressing), written against the data types of model/SerialHugr.v but
   independently of its functions (no use of to_serial / from_serial / rekey / constrain).
   Each statement has a boolean form (evaluated by the monitor on the implementation's observations)
   and, where the theorems need it, a Prop form. *)
From Coq Require Import List Bool Arith Lia Permutation.
Import ListNotations.
From HV Require Import lib.Harness model.SerialHugr.

Section Spec.
  Variables op sop md : Type.
  Variable enc : op -> sop.
  Variable sop_eqb : sop -> sop -> bool.
  Variable md_eqb : md -> md -> bool.
  (* the reader's contract (hugr-core/src/ops.rs): number of value ports and of static ports of an
     operation in a direction, and whether it has an order ("other") port after them *)
  Variables vports sports : op -> dir -> nat.
  Variable has_order : op -> bool.

  Notation node := (node op md).
  Notation hugr := (hugr op md).
  Notation serial := (serial sop md).

  Definition is_live (h : hugr) (i : nat) : bool :=
    match nth_error (h_nodes h) i with Some (Some _) => true | _ => false end.
  Definition lives (h : hugr) : list nat := filter (is_live h) (seq 0 (length (h_nodes h))).
  (* the order-preserving renumbering: a live node's new index is the number of live nodes below it *)
  Definition rank_in (L : list nat) (i : nat) : nat := length (filter (fun j => j <? i) L).
  Definition rank (h : hugr) (i : nat) : nat := rank_in (lives h) i.

  (* ---- guards ---- *)
  Definition parent_of (h : hugr) (c : nat) : option nat :=
    match get_node h c with Some m => n_parent m | None => None end.
  Definition is_child (h : hugr) (p c : nat) : bool :=
    match parent_of h c with Some q => q =? p | None => false end.
  (* the children of p in index order, read off the table [(c, parent of c)] of the live nodes
     (the table is computed once per HUGR by the boolean checks) *)
  Definition child_table (h : hugr) (L : list nat) : list (nat * option nat) := map (fun c => (c, parent_of h c)) L.
  Definition children_in (T : list (nat * option nat)) (p : nat) : list nat :=
    map fst (filter (fun cp => match snd cp with Some q => q =? p | None => false end) T).
  (* hierarchy consistent with index order: the root is the only parentless node, every parent is a
     live node of smaller index, every children list is exactly the node's children in index order *)
  Definition node_ordered (h : hugr) (T : list (nat * option nat)) (i : nat) : bool :=
    match get_node h i with
    | None => false
    | Some n =>
        match n_parent n with
        | None => i =? h_root h
        | Some p => is_live h p && (p <? i) && negb (i =? h_root h)
        end && list_eqb Nat.eqb (n_children n) (children_in T i)
    end.
  Definition index_ordered_b (h : hugr) : bool :=
    let L := lives h in let T := child_table h L in
    is_live h (h_root h) && forallb (node_ordered h T) L.
  (* the hierarchy alone, whatever the indices: the root is the only parentless node, every other live
     node has a live parent different from itself, every children list holds exactly the node's children
     (in any order).  Used to state the index-reuse refutations: such HUGRs are well formed. *)
  Definition hierarchy_ok_b (h : hugr) : bool :=
    let L := lives h in let T := child_table h L in
    is_live h (h_root h) &&
    forallb (fun i =>
      match get_node h i with
      | None => false
      | Some n =>
          match n_parent n with
          | None => i =? h_root h
          | Some p => is_live h p && negb (p =? i) && negb (i =? h_root h)
          end && perm_eqb Nat.eqb (n_children n) (children_in T i)
      end) L.
  (* links attach only to live nodes and to ports their operations have (an order link needs an
     operation with an order port; a numbered port of such an operation is a value or static port) *)
  Definition port_exists (h : hugr) (p : port) (d : dir) : bool :=
    match get_node h (fst p) with
    | None => false
    | Some n =>
        if has_order (n_op n)
        then match snd p with AOrder => true | APort k => k <? vports (n_op n) d + sports (n_op n) d end
        else match snd p with AOrder => false | APort _ => true end
    end.
  Definition ports_exist_b (h : hugr) : bool :=
    forallb (fun l : link => port_exists h (fst l) DOut && port_exists h (snd l) DIn) (h_links h).
  Definition guard_b (h : hugr) : bool := index_ordered_b h && ports_exist_b h.

  (* ---- C02: same observable structure under the renumbering ---- *)
  Definition rename_port (f : nat -> nat) (p : port) : port := (f (fst p), snd p).
  Definition rename_link (f : nat -> nat) (l : link) : link := (rename_port f (fst l), rename_port f (snd l)).
  Definition aoff_eqb (a b : aoff) : bool :=
    match a, b with AOrder, AOrder => true | APort x, APort y => x =? y | _, _ => false end.
  Definition port_eqb (a b : port) : bool := (fst a =? fst b) && aoff_eqb (snd a) (snd b).
  Definition link_eqb (a b : link) : bool := port_eqb (fst a) (fst b) && port_eqb (snd a) (snd b).

  Record Iso (h h' : hugr) : Prop := {
    iso_dense : forall k, is_live h' k = true <-> k < length (lives h);
    iso_node : forall i n, get_node h i = Some n ->
        exists n', get_node h' (rank h i) = Some n' /\
          enc (n_op n') = enc (n_op n) /\                      (* same operation, by encoded form *)
          n_parent n' = option_map (rank h) (n_parent n) /\    (* same hierarchy ... *)
          n_children n' = map (rank h) (n_children n) /\       (* ... with the same child order *)
          n_md n' = n_md n;                                    (* same metadata *)
    iso_root : h_root h' = rank h (h_root h);
    (* same multiset of links on every port; order links (AOrder) stay order links *)
    iso_links : Permutation (h_links h') (map (rename_link (rank h)) (h_links h))
  }.
  Definition iso_b (h h' : hugr) : bool :=
    let L := lives h in let rank := fun (_ : hugr) i => rank_in L i in let lives := fun _ : hugr => L in
    (length (h_nodes h') =? length (lives h)) &&
    forallb (is_live h') (seq 0 (length (h_nodes h'))) &&
    forallb (fun i =>
      match get_node h i, get_node h' (rank h i) with
      | Some n, Some n' =>
          sop_eqb (enc (n_op n')) (enc (n_op n)) &&
          option_eqb Nat.eqb (n_parent n') (option_map (rank h) (n_parent n)) &&
          list_eqb Nat.eqb (n_children n') (map (rank h) (n_children n)) &&
          md_eqb (n_md n') (n_md n)
      | _, _ => false
      end) (lives h) &&
    (h_root h' =? rank h (h_root h)) &&
    perm_eqb link_eqb (h_links h') (map (rename_link (rank h)) (h_links h)).

  (* ---- C03: index sanity of a document ---- *)
  Definition IndexSane (s : serial) : Prop :=
    (exists r, nth_error (s_nodes s) 0 = Some r /\ s_parent r = 0) /\
    (forall k x, 0 < k -> nth_error (s_nodes s) k = Some x -> s_parent x < k) /\
    (forall e, In e (s_edges s) -> fst (fst e) < length (s_nodes s) /\ fst (snd e) < length (s_nodes s)).
  Fixpoint parents_earlier (k : nat) (l : list (snode sop)) : bool :=
    match l with [] => true | x :: r => (s_parent x <? k) && parents_earlier (S k) r end.
  Definition index_sane_b (s : serial) : bool :=
    match s_nodes s with
    | [] => false
    | r :: rest => (s_parent r =? 0) && parents_earlier 1 rest
    end &&
    forallb (fun e : sedge => (fst (fst e) <? length (s_nodes s)) && (fst (snd e) <? length (s_nodes s)))
            (s_edges s).

  (* ---- C03: port addressing ---- *)
  (* a numbered port keeps its position in the operation's signature (value ports first, the static
     port immediately after the value inputs); the order port is the first one after those,
     whatever the recorded port counts and whatever is connected *)
  Definition addr (h : hugr) (p : port) (d : dir) : option nat :=
    match snd p with
    | APort k => Some k
    | AOrder => match get_node h (fst p) with
                | Some n => Some (vports (n_op n) d + sports (n_op n) d)
                | None => None
                end
    end.
  Definition expected_edge (h : hugr) (l : link) : sedge :=
    ((rank h (fst (fst l)), addr h (fst l) DOut), (rank h (fst (snd l)), addr h (snd l) DIn)).
  Definition sport_eqb (a b : sport) : bool := (fst a =? fst b) && option_eqb Nat.eqb (snd a) (snd b).
  Definition sedge_eqb (a b : sedge) : bool := sport_eqb (fst a) (fst b) && sport_eqb (snd a) (snd b).
  Definition expected_edge_in (h : hugr) (L : list nat) (l : link) : sedge :=
    ((rank_in L (fst (fst l)), addr h (fst l) DOut), (rank_in L (fst (snd l)), addr h (snd l) DIn)).
  Definition port_addressing_b (h : hugr) (s : serial) : bool :=
    let L := lives h in perm_eqb sedge_eqb (s_edges s) (map (expected_edge_in h L) (h_links h)).
  (* the document lists the live nodes in index order: operation by encoded form, parent renumbered
     (the root as its own parent), and the metadata list position by position *)
  Fixpoint forall2b {A B} (f : A -> B -> bool) (a : list A) (b : list B) : bool :=
    match a, b with [], [] => true | x :: r, y :: t => f x y && forall2b f r t | _, _ => false end.
  Definition nodes_listed_b (h : hugr) (s : serial) : bool :=
    let L := lives h in let rank := fun (_ : hugr) i => rank_in L i in let lives := fun _ : hugr => L in
    (rank h (h_root h) =? 0) &&
    forall2b (fun (x : snode sop) (i : nat) =>
                match get_node h i with
                | Some n => sop_eqb (s_op x) (enc (n_op n)) &&
                            (s_parent x =? rank h (match n_parent n with Some p => p | None => i end))
                | None => false
                end) (s_nodes s) (lives h).
End Spec.

Arguments is_live {op md}. Arguments lives {op md}. Arguments rank {op md}.
Arguments IndexSane {sop md}. Arguments index_sane_b {sop md}.
Arguments port_addressing_b {op sop md}. Arguments nodes_listed_b {op sop md}. Arguments iso_b {op sop md}.
Arguments guard_b {op md}. Arguments index_ordered_b {op md}. Arguments hierarchy_ok_b {op md}. Arguments ports_exist_b {op md}.
Arguments Iso {op sop md}. Arguments addr {op md}. Arguments expected_edge {op md}.
Arguments port_exists {op md}. Arguments node_ordered {op md}. Arguments child_table {op md}. Arguments expected_edge_in {op md}. Arguments is_child {op md}. Arguments parent_of {op md}.
