(* C01 — what "the same document up to the numbering of the nodes" means (written independently of the traversal of
   model/DocIso.v; only the renaming of an edge and the explicit offsets are shared).

   DocIso R pi g h: pi (a list: node i of g |-> nthN pi i) is a bijection between the node indices of g and of h that
   fixes the root, relates the operation of every node to the operation of its image (R), carries the parent of every
   node to the parent of its image, keeps the order of siblings (the serialised child order: Input / Output, entry /
   exit block and Case positions are the same in both documents), and carries the edges of g onto the edges of h
   (multisets, offsets explicit). *)
From Coq Require Import NArith List Bool Arith Permutation.
Import ListNotations.
From HV Require Import lib.Harness model.Validity model.DocIso.
Local Open Scope N_scope.

Record DocIso (R : vop -> vop -> Prop) (pi : list N) (g h : graph) : Prop := {
  iso_len_h : length (g_nodes h) = length (g_nodes g);
  iso_len_pi : length pi = length (g_nodes g);
  (* a bijection of {0 .. n-1}: every image in range, no image twice *)
  iso_range : forall j, In j pi -> j < lenN (g_nodes g);
  iso_inj : NoDup pi;
  iso_root : nthN pi 0 = Some 0;
  iso_nodes : forall i a, nthN (g_nodes g) i = Some a ->
              exists j b, nthN pi i = Some j /\ nthN (g_nodes h) j = Some b /\
                          R (n_op a) (n_op b) /\ nthN pi (n_parent a) = Some (n_parent b);
  iso_siblings : forall i i' a a' j j',
              (N.to_nat i < N.to_nat i')%nat ->
              nthN (g_nodes g) i = Some a -> nthN (g_nodes g) i' = Some a' -> n_parent a = n_parent a' ->
              nthN pi i = Some j -> nthN pi i' = Some j' -> j < j';
  iso_edges : Permutation (map (ren_edge pi) (norm_edges g)) (norm_edges h)
}.
