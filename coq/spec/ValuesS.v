(* Specification for C14: the typing judgment for (serial) constant values, after
   hugr-core/src/ops/constant.rs (Value::validate, get_type), types/check.rs (SumType::check_type) and the
   CustomConst::validate of the std constants.  Written independently of type_of / ser of model/Values.v
   (only the data types are shared). *)
From Coq Require Import ZArith NArith List Bool Arith.
Import ListNotations.
From HV Require Import lib.Harness model.Types model.TypesEq model.Values.

(* types are compared up to the normal form of model/TypesEq.v (extension type = the opaque type it
   serialises to; unit sum = sum of empty rows) *)
Definition same_ty (a b : ty) : Prop := tnorm a = tnorm b.

Definition sum_rows (t : ty) : option (list (list ty)) :=
  match t with TSum rs => Some rs | TUnitSum n => Some (repeat [] n) | _ => None end.
Definition rows_same (a b : list ty) : Prop := Forall2 same_ty a b.

Section Std.
  Variable std : stddefs.
  (* the std types, from the definitions *)
  Definition s_int (w : nat) : ty := TExt (d_int std) [ANat (N.of_nat w)] Generic.
  Definition s_float : ty := TExt (d_float std) [] Generic.
  Definition s_string : ty := TExt (d_string std) [] Generic.
  Definition s_array (n : nat) (elem : ty) : ty := TExt (d_array std) [ANat (N.of_nat n); AType elem] Generic.
  Definition s_list (elem : ty) : ty := TExt (d_list std) [AType elem] Generic.
  Definition s_static (elem : ty) : ty := TExt (d_static std) [AType elem] Generic.

  Inductive has_type : sval -> ty -> Prop :=
  (* SumType::check_type: the tag selects a variant; one value per element of the variant row; each value has
     exactly that element's type; the value's type is its sum type *)
  | HT_sum tag typ vs t rows row :
      same_ty typ t -> sum_rows typ = Some rows -> nth_error rows tag = Some row ->
      Forall2 has_type vs row -> has_type (SSum tag typ vs) t
  (* a TupleValue carries no type: it inhabits the single-variant sum of its values' types *)
  | HT_tuple vs t row :
      sum_rows t = Some [row] -> Forall2 has_type vs row -> has_type (STuple vs) t
  (* a function constant has the signature of its body (declared root signature = Input / Output rows) *)
  | HT_func decl bi bo t :
      same_ty (TFunc (fs_in decl) (fs_out decl) (fs_reqs decl)) t ->
      rows_same (fs_in decl) bi -> rows_same (fs_out decl) bo -> has_type (SFunc decl bi bo) t
  (* an extension constant has its declared custom type, which must be the one its payload determines *)
  | HT_ext nm typ p exts t :
      same_ty typ t -> payload_ok nm typ p exts -> has_type (SExt nm typ p exts) t
  with payload_ok : cname -> ty -> spayload -> list name -> Prop :=
  | PO_int w v typ exts : w <= 6 -> same_ty typ (s_int w) -> In (td_ext (d_int std)) exts ->
      payload_ok CInt typ (SPInt w v) exts
  | PO_float typ exts : same_ty typ s_float -> In (td_ext (d_float std)) exts -> payload_ok CF64 typ SPFloat exts
  | PO_string typ exts : same_ty typ s_string -> In (td_ext (d_string std)) exts -> payload_ok CString typ SPString exts
  (* ArrayValue::validate: size = number of values, every value is an instance of the element type *)
  | PO_array vs elem typ exts : same_ty typ (s_array (length vs) elem) -> Forall (fun v => has_type v elem) vs ->
      In (td_ext (d_array std)) exts -> payload_ok CArray typ (SPSeq vs elem) exts
  | PO_list vs elem typ exts : same_ty typ (s_list elem) -> Forall (fun v => has_type v elem) vs ->
      In (td_ext (d_list std)) exts -> payload_ok CList typ (SPSeq vs elem) exts
  | PO_static vs elem nm typ exts : same_ty typ (s_static elem) -> Forall (fun v => has_type v elem) vs ->
      In (td_ext (d_static std)) exts -> payload_ok CStatic typ (SPStatic vs elem nm) exts
  (* any other custom constant is opaque to the specification (CustomSerialized: type as declared) *)
  | PO_other n typ exts : payload_ok (COther n) typ SPOther exts.

  (* ---- boolean form ---- *)
  Definition rows_sameb (a b : list ty) : bool := list_eqb same_tyb a b.
  Definition has_ext (e : name) (exts : list name) : bool := mem N.eqb e exts.

  Fixpoint has_type_b (s : sval) (t : ty) {struct s} : bool :=
    let fix all2 (vs : list sval) (row : list ty) : bool :=
      match vs, row with
      | [], [] => true
      | v :: vr, t' :: tr => has_type_b v t' && all2 vr tr
      | _, _ => false
      end in
    let fix alle (vs : list sval) (elem : ty) : bool :=
      match vs with [] => true | v :: r => has_type_b v elem && alle r elem end in
    match s with
    | SSum tag typ vs =>
        same_tyb typ t &&
        match sum_rows typ with
        | Some rows => match nth_error rows tag with Some row => all2 vs row | None => false end
        | None => false
        end
    | STuple vs => match sum_rows t with Some [row] => all2 vs row | _ => false end
    | SFunc decl bi bo =>
        same_tyb (TFunc (fs_in decl) (fs_out decl) (fs_reqs decl)) t &&
        rows_sameb (fs_in decl) bi && rows_sameb (fs_out decl) bo
    | SExt nm typ p exts =>
        same_tyb typ t &&
        match nm, p with
        | CInt, SPInt w v => Nat.leb w 6 && same_tyb typ (s_int w) && has_ext (td_ext (d_int std)) exts
        | CF64, SPFloat => same_tyb typ s_float && has_ext (td_ext (d_float std)) exts
        | CString, SPString => same_tyb typ s_string && has_ext (td_ext (d_string std)) exts
        | CArray, SPSeq vs elem =>
            same_tyb typ (s_array (length vs) elem) && alle vs elem && has_ext (td_ext (d_array std)) exts
        | CList, SPSeq vs elem => same_tyb typ (s_list elem) && alle vs elem && has_ext (td_ext (d_list std)) exts
        | CStatic, SPStatic vs elem _ =>
            same_tyb typ (s_static elem) && alle vs elem && has_ext (td_ext (d_static std)) exts
        | COther _, SPOther => true
        | _, _ => false
        end
    end.
End Std.

(* ---- spellings of one value ----
   The serial format has a shorthand for tuples, {"v":"Tuple","vs":[..]}, which hugr-core reads as an alias of the
   general {"v":"Sum","tag":0,"typ":<the one-row sum of the fields' types>,"vs":[..]} (and writes as the latter).
   `general s t` is the general spelling of a serial value s read at type t: every STuple met at a one-row sum type
   becomes the tag-0 sum value that carries this type; field / element types are read off the enclosing sum type /
   the payload's element type.  (proofs/ValuesP.v: general_has_type — the judgment does not see the spelling.) *)
Fixpoint gzip {A B} (f : A -> B -> A) (vs : list A) (row : list B) : list A :=
  match vs, row with
  | v :: vr, t' :: tr => f v t' :: gzip f vr tr
  | _, _ => vs
  end.
Fixpoint general (s : sval) (t : ty) {struct s} : sval :=
  let fix zip (vs : list sval) (row : list ty) : list sval :=
    match vs, row with
    | v :: vr, t' :: tr => general v t' :: zip vr tr
    | _, _ => vs
    end in
  let fix each (vs : list sval) (elem : ty) : list sval :=
    match vs with [] => [] | v :: r => general v elem :: each r elem end in
  match s with
  | SSum tag typ vs =>
      SSum tag typ match sum_rows typ with
                   | Some rows => match nth_error rows tag with Some row => zip vs row | None => vs end
                   | None => vs
                   end
  | STuple vs => match sum_rows t with Some [row] => SSum 0 t (zip vs row) | _ => STuple vs end
  | SFunc _ _ _ => s
  | SExt nm typ p exts =>
      SExt nm typ match p with
                  | SPSeq vs elem => SPSeq (each vs elem) elem
                  | SPStatic vs elem n => SPStatic (each vs elem) elem n
                  | _ => p
                  end exts
  end.

(* ---- guards of the theorems (what a caller who picks types by hand must ensure); they mention type_of ---- *)
Fixpoint forall2b {A B} (f : A -> B -> bool) (l : list A) (m : list B) : bool :=
  match l, m with [], [] => true | x :: r, y :: s => f x y && forall2b f r s | _, _ => false end.

Section Guards.
  Variable std : stddefs.
  (* the std collection definitions bound their types as the JSON files say (gen/StdBounds.v) *)
  Definition std_ok : Prop :=
    td_bound (d_array std) = FromParams [1] /\ td_bound (d_list std) = FromParams [0] /\
    td_bound (d_static std) = Explicit Copyable.

  Definition field_ok (x : vexpr) (t : ty) : bool :=
    match type_of std x with Some t' => same_tyb t' t | None => false end.
  (* the guard: what a caller who picks types by hand must ensure.  Helpers need nothing. *)
  Fixpoint wf_expr (e : vexpr) : bool :=
    match e with
    | ESum tag typ vs =>
        forallb wf_expr vs &&
        match sum_rows typ with
        | Some rows => match nth_error rows tag with Some row => forall2b field_ok vs row | None => false end
        | None => false
        end
    | EUnitSum tag n => Nat.ltb tag n
    | EBool _ | ENone _ | EFunc _ | EFloat | EString => true
    | EExt (COther _) _ _ => true
    | EExt _ _ _ => false            (* a raw Extension claiming a std constant's name: payload unconstrained *)
    | ETuple vs | ESome vs | ELeft vs _ | ERight _ vs => forallb wf_expr vs
    | EInt _ w => Nat.leb w 6
    | EArray vs elem | EList vs elem | EStatic vs elem _ =>
        forallb wf_expr vs && forallb (fun x => field_ok x elem) vs
    end.
  (* expressions built only from the helpers (no caller-chosen sum / element types) *)
  Fixpoint helper_only (e : vexpr) : bool :=
    match e with
    | EUnitSum tag n => Nat.ltb tag n
    | EBool _ | ENone _ | EFunc _ | EFloat | EString => true
    | EExt (COther _) _ _ => true
    | ETuple vs | ESome vs | ELeft vs _ | ERight _ vs => forallb helper_only vs
    | EInt _ w => Nat.leb w 6
    | _ => false
    end.


  Definition std_okb : bool :=
    defbound_eqb (td_bound (d_array std)) (FromParams [1]) && defbound_eqb (td_bound (d_list std)) (FromParams [0]) &&
    defbound_eqb (td_bound (d_static std)) (Explicit Copyable).
End Guards.

(* ---- histories on one Const node (written without looking at run_hist) ----
   the value held at the moment of each observation: the last one set before it *)
Fixpoint held_at (cur : vexpr) (steps : list hstep) : list vexpr :=
  match steps with
  | [] => []
  | HObs :: r => cur :: held_at cur r
  | HSet e :: r => held_at e r
  end.
(* what the property promises of one observation of a node that holds e at that moment: the reported type is
   inhabited by the serial form, is what the static port offers and what a LoadConstant built now produces *)
Definition obs_ok (std : stddefs) (e : vexpr) (o : hobs) : Prop :=
  wf_expr std e = true -> forall t s, ho_type o = Some t -> ho_ser o = Some s ->
  has_type std s t /\ ho_port o = Some t /\ ho_load o = Some ([], [t]).
