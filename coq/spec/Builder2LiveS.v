(* C01 (fourth pass) — the liveness-aware premises for rules 9, 10, 11 on programs of the extended builder language
   (model/Builder2.v), as booleans computed from the program text alone.

   ord_prog2 p   (rule 10, and the order-edge half of rule 11)
     - statement ids are globally unique (one statement dictionary for the whole program, separately built
       sub-programs included);
     - wire ids are never re-bound (one wire dictionary for the whole program);
     - a wire is LIVE only in the region that binds it and in the regions nested in it: every argument wire of a
       statement and every output wire of a region is live there.  The body of add_nested / add_tail_loop and every
       case of a conditional has its own scope on top of the enclosing one; wires bound inside are dead after the
       region is closed (hugr-py raises NoSiblingAncestor for most such uses — but not for all: see
       C01_dead_wire_cycle_refuted); a separately built program (insert_nested / insert_tail_loop /
       insert_conditional) starts with NO live wire (the enclosing program's wires name nodes of another Hugr) and all
       its wires die at the insertion;
     - every add_state_order joins Input / statements of the region it is written in / Output in program order
       (as ord_prog of spec/BuilderWFS.v).

   lin_prog2 tys p   (rule 9, and the value-edge half of rule 11), for a well-typed p (wt_prog2):
     - binders are fresh; every output of non-copyable type is bound to a wire;
     - every wire of non-copyable type is consumed exactly once, in the region that bound it: as an argument of a
       statement of that region (add_op, add_nested, add_tail_loop, add_conditional, insert_*, CallIndirect) or by its
       set_outputs.  Each region — nested Dfg, loop body, case, separately built program — starts with the
       non-copyable wires of its own Input node and must end with none pending. *)
From Coq Require Import NArith List Bool Arith.
Import ListNotations.
From HV Require Import lib.Harness model.Validity model.Builder model.Builder2 spec.BuilderWFS spec.Builder2WFS.
Local Open Scope N_scope.

(* ------------------------------------------------------------------ ord_prog2 *)
Definition fresh_ids (usedw : list wid) (rs : list wid) : bool :=
  nodupb N.eqb rs && forallb (fun r => negb (memN r usedw)) rs.
Definition all_live (live : list wid) (args : list wid) : bool := forallb (fun a => memN a live) args.

(* scope: ids of the statements of the current region so far (most recent first); used: all statement ids so far;
   live: the wires that may be used here; usedw: all wire ids bound so far *)
Definition ostate := (list sid * list sid * list wid * list wid)%type.

Fixpoint ord_stmt2 (s : stmt2) (scope used : list sid) (live usedw : list wid) {struct s} : option ostate :=
  match s with
  | TOp id _ args rs =>
      if negb (memN id used) && all_live live args && fresh_ids usedw rs
      then Some (id :: scope, id :: used, rs ++ live, rs ++ usedw) else None
  | TCallInd id args rs =>
      if negb (memN id used) && all_live live args && fresh_ids usedw rs
      then Some (id :: scope, id :: used, rs ++ live, rs ++ usedw) else None
  | TLoad id _ _ r =>
      if negb (memN id used) && fresh_ids usedw [r]
      then Some (id :: scope, id :: used, [r] ++ live, [r] ++ usedw) else None
  | TNested id args body rs =>
      if negb (memN id used) && all_live live args then
        match ord_region2 body (id :: used) live usedw with
        | Some (used1, usedw1) =>
            if fresh_ids usedw1 rs then Some (id :: scope, used1, rs ++ live, rs ++ usedw1) else None
        | None => None
        end
      else None
  | TOrder src dst => if order_fwd scope src dst then Some (scope, used, live, usedw) else None
  | TLoop id just rest body rs =>
      if negb (memN id used) && all_live live (just ++ rest) then
        match ord_region2 body (id :: used) live usedw with
        | Some (used1, usedw1) =>
            if fresh_ids usedw1 rs then Some (id :: scope, used1, rs ++ live, rs ++ usedw1) else None
        | None => None
        end
      else None
  | TCond id cond args cs rs =>
      if negb (memN id used) && all_live live (cond :: args) then
        match ord_cases2 cs (id :: used) live usedw with
        | Some (used1, usedw1) =>
            if fresh_ids usedw1 rs then Some (id :: scope, used1, rs ++ live, rs ++ usedw1) else None
        | None => None
        end
      else None
  | TInsert id sub args rs =>
      if negb (memN id used) && all_live live args then
        match ord_progx sub (id :: used) usedw with
        | Some (used1, usedw1) =>
            if fresh_ids usedw1 rs then Some (id :: scope, used1, rs ++ live, rs ++ usedw1) else None
        | None => None
        end
      else None
  end
with ord_region2 (r : region2) (used : list sid) (live usedw : list wid) {struct r} : option (list sid * list wid) :=
  match r with
  | Reg ins body outs =>
      if fresh_ids usedw ins then
        match ord_stmts2 body [] used (ins ++ live) (ins ++ usedw) with
        | Some (_, used1, live1, usedw1) => if all_live live1 outs then Some (used1, usedw1) else None
        | None => None
        end
      else None
  end
with ord_stmts2 (l : stmts2) (scope used : list sid) (live usedw : list wid) {struct l} : option ostate :=
  match l with
  | TNil => Some (scope, used, live, usedw)
  | TCons s r =>
      match ord_stmt2 s scope used live usedw with
      | Some (sc, us, lv, uw) => ord_stmts2 r sc us lv uw
      | None => None
      end
  end
with ord_cases2 (cs : cases2) (used : list sid) (live usedw : list wid) {struct cs} : option (list sid * list wid) :=
  match cs with
  | CNil => Some (used, usedw)
  | CCons _ r rest =>
      match ord_region2 r used live usedw with
      | Some (used1, usedw1) => ord_cases2 rest used1 live usedw1
      | None => None
      end
  end
(* a separately built program: no live wire of the enclosing program *)
with ord_progx (p : prog2) (used : list sid) (usedw : list wid) {struct p} : option (list sid * list wid) :=
  match p with
  | QDfg _ body => ord_region2 body used [] usedw
  | QLoop _ _ body => ord_region2 body used [] usedw
  | QCond _ _ _ cs => ord_cases2 cs used [] usedw
  end.

Definition ord_prog2 (p : prog2) : bool := is_some (ord_progx p [] []).

(* ------------------------------------------------------------------ lin_prog2 *)
Section LIN2.
  Variable tys : list tyinfo.

  Fixpoint lin_stmt2 (s : stmt2) (G : tenv) (S : senv) (pend : list wid) {struct s} : option (list wid) :=
    match s with
    | TOp _ o args rs =>
        match wire_tys G args with
        | Some ts =>
            match completed_op tys o ts, use_wires tys G pend args with
            | Ok op', Some pend1 =>
                if fresh_ws G rs && covers tys rs (val_out op') then Some (lin_outs tys rs (val_out op') ++ pend1) else None
            | _, _ => None
            end
        | None => None
        end
    | TCallInd _ args rs =>
        match wire_tys G args with
        | Some ts =>
            match completed_callind tys ts, use_wires tys G pend args with
            | Ok op', Some pend1 =>
                if fresh_ws G rs && covers tys rs (val_out op') then Some (lin_outs tys rs (val_out op') ++ pend1) else None
            | _, _ => None
            end
        | None => None
        end
    | TLoad _ v _ r => if fresh_ws G [r] then Some (lin_outs tys [r] [value_ty v] ++ pend) else None
    | TNested _ args body rs =>
        match wire_tys G args with
        | Some ts =>
            match use_wires tys G pend args, wt_region2 tys body ts G S with
            | Some pend1, Some (G1, _, outs) =>
                if lin_region2 body ts G S && fresh_ws G1 rs && covers tys rs outs
                then Some (lin_outs tys rs outs ++ pend1) else None
            | _, _ => None
            end
        | None => None
        end
    | TOrder _ _ => Some pend
    | TLoop _ just rest body rs =>
        match wire_tys G just, wire_tys G rest with
        | Some jt, Some rt =>
            match use_wires tys G pend (just ++ rest), wt_region2 tys body (jt ++ rt) G S with
            | Some pend1, Some (G1, _, t :: _) =>
                match nthN tys t with
                | Some (TSum _ [_; jo]) =>
                    if lin_region2 body (jt ++ rt) G S && fresh_ws G1 rs && covers tys rs (jo ++ rt)
                    then Some (lin_outs tys rs (jo ++ rt) ++ pend1) else None
                | _ => None
                end
            | _, _ => None
            end
        | _, _ => None
        end
    | TCond _ cond args cs rs =>
        match wire_ty G cond, wire_tys G args with
        | Some t, Some others =>
            match nthN tys t with
            | Some (TSum _ rows) =>
                match use_wires tys G pend (cond :: args), wt_cases2 tys cs rows others G S None with
                | Some pend1, Some (G1, _, Some outs) =>
                    if lin_cases2 cs rows others G S && fresh_ws G1 rs && covers tys rs outs
                    then Some (lin_outs tys rs outs ++ pend1) else None
                | _, _ => None
                end
            | _ => None
            end
        | _, _ => None
        end
    | TInsert _ sub args rs =>
        match wt_progx tys sub (killw G) (kills S) with
        | Some (Gs, _, (_, sout)) =>
            let G1 := splicew Gs G in
            match use_wires tys G1 pend args with
            | Some pend1 =>
                if lin_progx sub (killw G) (kills S) && fresh_ws G1 rs && covers tys rs sout
                then Some (lin_outs tys rs sout ++ pend1) else None
            | None => None
            end
        | None => None
        end
    end
  with lin_region2 (r : region2) (ins : row) (G : tenv) (S : senv) {struct r} : bool :=
    match r with
    | Reg ws body oids =>
        fresh_ws G ws && covers tys ws ins &&
        match lin_stmts2 body (tbind G ws ins) S (lin_outs tys ws ins), wt_stmts2 tys body (tbind G ws ins) S with
        | Some pend1, Some (G1, _) => match use_wires tys G1 pend1 oids with Some [] => true | _ => false end
        | _, _ => false
        end
    end
  with lin_stmts2 (l : stmts2) (G : tenv) (S : senv) (pend : list wid) {struct l} : option (list wid) :=
    match l with
    | TNil => Some pend
    | TCons s r =>
        match lin_stmt2 s G S pend, wt_stmt2 tys s G S with
        | Some p1, Some (G1, S1) => lin_stmts2 r G1 S1 p1
        | _, _ => None
        end
    end
  with lin_cases2 (cs : cases2) (rows : list row) (others : row) (G : tenv) (S : senv) {struct cs} : bool :=
    match cs with
    | CNil => true
    | CCons i r rest =>
        match nthN rows i with
        | Some row =>
            lin_region2 r (row ++ others) G S &&
            match wt_region2 tys r (row ++ others) G S with
            | Some (G1, S1, _) => lin_cases2 rest rows others G1 S1
            | None => false
            end
        | None => false
        end
    end
  with lin_progx (p : prog2) (G : tenv) (S : senv) {struct p} : bool :=
    match p with
    | QDfg ins body => lin_region2 body ins G S
    | QLoop just rest body => lin_region2 body (just ++ rest) G S
    | QCond rows others _ cs => lin_cases2 cs rows others G S
    end.

  Definition lin_prog2 (p : prog2) : bool := lin_progx p [] [].
End LIN2.

(* the well-formedness premise for the extended language: all of them *)
Definition wf_prog2 (tys : list tyinfo) (p : prog2) : bool :=
  croot_ok p && wt_prog2 tys p && ord_prog2 p && lin_prog2 tys p.
