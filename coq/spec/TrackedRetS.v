(* Specification of the values the tracked-builder calls hand back, written on the abstract binding
   history of spec/TrackedS.v (no tracked list): track_wire(s) / track_inputs return the fresh indices
   the wires were bound at, in the order the wires were given; untrack_wire returns the wire the index
   denoted; add / extend return the new nodes.  `expected_rets` follows a program as long as every
   integer denotes a wire (where one does not, the builder raises and nothing is returned). *)
From Coq Require Import ZArith NArith List Bool Arith.
Import ListNotations.
From HV Require Import lib.Harness model.Tracked model.TrackedRet spec.TrackedS.

(* n fresh indices, in order *)
Definition fresh_indices (st : astate) (n : nat) : list Z :=
  map (fun k => (a_next st + Z.of_nat k)%Z) (seq 0 n).
Definition fresh_nodes (st : astate) (n : nat) : list N :=
  map (fun k => (2 + a_cnt st + N.of_nat k)%N) (seq 0 n).

Definition a_ret (nin : N) (st : astate) (c : cmd) : retv :=
  match c with
  | TrackWire _ => RIdx (a_next st)
  | TrackWires ws => RIdxs (fresh_indices st (length ws))
  | TrackInputs => RIdxs (fresh_indices st (N.to_nat nin))
  | Untrack i => match denotes st i with Some w => RWire w | None => RNone end
  | Add _ _ _ => RNode (2 + a_cnt st)%N
  | Extend coms => RNodes (fresh_nodes st (length coms))
  | SetIndexedOutputs _ => RNone
  | SetTrackedOutputs => RNone
  end.

Fixpoint expected_rets (nin : N) (st : astate) (p : list cmd) : list retv :=
  match p with
  | [] => []
  | c :: r => match explicit_cmd nin st c with
              | (_, true, st') => a_ret nin st c :: expected_rets nin st' r
              | (_, false, _) => []
              end
  end.

Definition expected (nin : N) (track : bool) (p : list cmd) : list retv :=
  expected_rets nin (a_init nin track) p.

(* what a returned index list must mean, on the history: index k of the list denotes wire k of the
   argument right after the call, and every index that denoted something before still denotes it *)
Definition indices_denote (st' : astate) (l : list Z) (ws : list wire) : Prop :=
  length l = length ws /\
  forall k w, nth_error ws k = Some w -> exists i, nth_error l k = Some i /\ denotes st' i = Some w.

Definition retv_eqb (a b : retv) : bool :=
  match a, b with
  | RNone, RNone => true
  | RIdx i, RIdx j => Z.eqb i j
  | RIdxs l, RIdxs m => list_eqb Z.eqb l m
  | RWire w, RWire v => pair_eqb N.eqb N.eqb w v
  | RNode n, RNode m => N.eqb n m
  | RNodes l, RNodes m => list_eqb N.eqb l m
  | _, _ => false
  end.
