(* Specification for C05, written without reference to the codec functions of model/Codec.v:
   what "survives encoding and decoding unchanged" means. *)
From Coq Require Import NArith List Bool Arith.
Import ListNotations.
From HV Require Import lib.Harness model.Types.

(* "decoding the encoded form yields an object that encodes to the same document" *)
Definition same_encoding {A S} (enc : A -> S) (x y : A) : Prop := enc x = enc y.
(* "... and has the same derived facts" *)
Definition same_facts {A F} (facts : A -> F) (x y : A) : Prop := facts x = facts y.

(* "come back equal attribute by attribute (... extension types appear in their opaque form)":
   [OpaqueForm t u] = u is t with every definition-backed extension type replaced by the opaque type of
   the same extension, name and (recursively related) arguments, carrying the bound t reports; every other
   attribute (rows, indices, bounds, names, extension sets, parameters) is identical *)
Inductive OpaqueForm : ty -> ty -> Prop :=
| OF_Sum r r' : Forall2 (Forall2 OpaqueForm) r r' -> OpaqueForm (TSum r) (TSum r')
| OF_UnitSum n : OpaqueForm (TUnitSum n) (TUnitSum n)
| OF_Var i b : OpaqueForm (TVar i b) (TVar i b)
| OF_RowVar i b : OpaqueForm (TRowVar i b) (TRowVar i b)
| OF_USize : OpaqueForm TUSize TUSize
| OF_Qubit : OpaqueForm TQubit TQubit
| OF_Alias n b : OpaqueForm (TAlias n b) (TAlias n b)
| OF_Func i o i' o' r : Forall2 OpaqueForm i i' -> Forall2 OpaqueForm o o' -> OpaqueForm (TFunc i o r) (TFunc i' o' r)
| OF_Poly ps i o i' o' r : Forall2 OpaqueForm i i' -> Forall2 OpaqueForm o o' ->
    OpaqueForm (TPoly ps i o r) (TPoly ps i' o' r)
| OF_Opaque e id a a' b : Forall2 OpaqueFormA a a' -> OpaqueForm (TOpaque e id a b) (TOpaque e id a' b)
| OF_Ext d a a' c b : Forall2 OpaqueFormA a a' -> tbound (TExt d a c) = Some b ->
    OpaqueForm (TExt d a c) (TOpaque (td_ext d) (td_name d) a' b)
with OpaqueFormA : tyarg -> tyarg -> Prop :=
| OFA_Type t t' : OpaqueForm t t' -> OpaqueFormA (AType t) (AType t')
| OFA_Nat n : OpaqueFormA (ANat n) (ANat n)
| OFA_String s : OpaqueFormA (AString s) (AString s)
| OFA_Seq l l' : Forall2 OpaqueFormA l l' -> OpaqueFormA (ASeq l) (ASeq l')
| OFA_Exts es : OpaqueFormA (AExts es) (AExts es)
| OFA_Var i p : OpaqueFormA (AVar i p) (AVar i p).

(* a type of the core language: no definition-backed extension type inside *)
Inductive Core : ty -> Prop :=
| Co_Sum r : Forall (Forall Core) r -> Core (TSum r)
| Co_UnitSum n : Core (TUnitSum n) | Co_Var i b : Core (TVar i b) | Co_RowVar i b : Core (TRowVar i b)
| Co_USize : Core TUSize | Co_Qubit : Core TQubit | Co_Alias n b : Core (TAlias n b)
| Co_Func i o r : Forall Core i -> Forall Core o -> Core (TFunc i o r)
| Co_Opaque e id a b : Forall CoreA a -> Core (TOpaque e id a b)
with CoreA : tyarg -> Prop :=
| CoA_Type t : Core t -> CoreA (AType t)
| CoA_Nat n : CoreA (ANat n) | CoA_String s : CoreA (AString s)
| CoA_Seq l : Forall CoreA l -> CoreA (ASeq l)
| CoA_Exts es : CoreA (AExts es) | CoA_Var i p : CoreA (AVar i p).

(* Python equality of two sum types: Sum.__eq__ looks at the variant rows only *)
Definition unit_rows (n : nat) : list (list ty) := repeat [] n.

(* boolean form of OpaqueForm, evaluated by the monitor on the decoded object the implementation returns *)
Definition bnd_eqb := bound_eqb.
Fixpoint tp_eqb (a b : typaram) : bool :=
  match a, b with
  | PType x, PType y => bound_eqb x y
  | PNat x, PNat y => option_eqb N.eqb x y
  | PString, PString | PExts, PExts => true
  | PList x, PList y => tp_eqb x y
  | PTuple x, PTuple y =>
      (fix go (l m : list typaram) : bool :=
         match l, m with [], [] => true | p :: r, q :: s => tp_eqb p q && go r s | _, _ => false end) x y
  | _, _ => false
  end.
Fixpoint opaque_form_b (t u : ty) : bool :=
  let fix row (l m : list ty) : bool :=
    match l, m with [], [] => true | p :: r, q :: s => opaque_form_b p q && row r s | _, _ => false end in
  let fix rows (l m : list (list ty)) : bool :=
    match l, m with [], [] => true | p :: r, q :: s => row p q && rows r s | _, _ => false end in
  let fix args (l m : list tyarg) : bool :=
    match l, m with [], [] => true | p :: r, q :: s => opaque_form_a_b p q && args r s | _, _ => false end in
  match t, u with
  | TSum r, TSum s => rows r s
  | TUnitSum n, TUnitSum m => Nat.eqb n m
  | TVar i x, TVar j y | TRowVar i x, TRowVar j y => Nat.eqb i j && bound_eqb x y
  | TUSize, TUSize | TQubit, TQubit => true
  | TAlias n x, TAlias m y => N.eqb n m && bound_eqb x y
  | TFunc i o r, TFunc i' o' r' => row i i' && row o o' && list_eqb N.eqb r r'
  | TPoly ps i o r, TPoly ps' i' o' r' => list_eqb tp_eqb ps ps' && row i i' && row o o' && list_eqb N.eqb r r'
  | TOpaque e i a x, TOpaque e' i' a' y => N.eqb e e' && N.eqb i i' && args a a' && bound_eqb x y
  | TExt d a c, TOpaque e' i' a' y =>
      N.eqb (td_ext d) e' && N.eqb (td_name d) i' && args a a' &&
      match tbound t with Some b => bound_eqb b y | None => false end
  | _, _ => false
  end
with opaque_form_a_b (a b : tyarg) : bool :=
  let fix args (l m : list tyarg) : bool :=
    match l, m with [], [] => true | p :: r, q :: s => opaque_form_a_b p q && args r s | _, _ => false end in
  match a, b with
  | AType x, AType y => opaque_form_b x y
  | ANat x, ANat y => N.eqb x y
  | AString x, AString y => N.eqb x y
  | ASeq x, ASeq y => args x y
  | AExts x, AExts y => list_eqb N.eqb x y
  | AVar i p, AVar j q => Nat.eqb i j && tp_eqb p q
  | _, _ => false
  end.
