(* C15 x C01 — well-formedness of a TRACKED program, computed from the program text alone (no HUGR, no explicit
   program): the premise of C15_wellformed_tracked_programs_valid.

   The checker follows the tracked table symbolically (the table functions of model/Tracked.v: to_wires, rebind,
   live, tracked_wire), knows the row of output types of every node by its name (0 = Input: the input row,
   1 = Output: no outputs, k+2 = the k-th added node: the outputs of its completed operation) and keeps the list of
   non-copyable wires that still have to be consumed.

   twf tys ins specs track p holds when
     - p is a sequence of track_wire / track_wires / track_inputs / untrack_wire / add / extend ended by its only
       set_tracked_outputs / set_indexed_outputs;
     - every integer argument (of a command, of untrack_wire, of set_indexed_outputs) is a tracked index at that
       moment, and every wire used (through an index or explicitly) is an existing output port: it has a type;
     - the argument types of a command are the input row of its operation (fixed signature, Tag) or complete it
       (Noop / MakeTuple / UnpackTuple); Tags agree with the type table; the number of outputs the command
       declares (`op_out`, what Tracked.v is told) is the number of outputs of the completed operation;
     - every wire of non-copyable type is consumed exactly once: by one argument of one later command or by the
       final set_*_outputs — whether it is reached through an index or passed explicitly (so a non-copyable wire
       that is tracked must leave through the outputs or be consumed via its index, and an index rebound by a
       command carries the new node's output from then on). *)
From Coq Require Import ZArith NArith List Bool Arith.
Import ListNotations.
From HV Require Import lib.Harness model.Validity model.Builder spec.BuilderWFS model.Tracked model.TrackedBuilder.
Local Open Scope N_scope.

Definition wire_eqb (a b : wire) : bool := (fst a =? fst b) && (snd a =? snd b).

(* the type of a wire: output j of node n *)
Definition wty (rows : list row) (w : wire) : option tyid :=
  match nthN rows (fst w) with Some r => nthN r (snd w) | None => None end.
Fixpoint wtys (rows : list row) (ws : list wire) : option row :=
  match ws with
  | [] => Some []
  | w :: r => match wty rows w, wtys rows r with Some t, Some ts => Some (t :: ts) | _, _ => None end
  end.

Record tstate := mkT {
  t_tr : tracked;           (* the tracked table *)
  t_rows : list row;        (* output row of every node, by name *)
  t_pend : list wire }.     (* non-copyable wires not consumed yet *)

Section TWF.
  Variable tys : list tyinfo.

  (* the wires are typed; a non-copyable one must still be pending and is consumed *)
  Fixpoint consume (rows : list row) (pend : list wire) (ws : list wire) : option (list wire) :=
    match ws with
    | [] => Some pend
    | w :: r =>
        match wty rows w with
        | None => None
        | Some t => if ty_copy tys t then consume rows pend r
                    else if existsb (wire_eqb w) pend
                         then consume rows (filter (fun x => negb (wire_eqb x w)) pend) r
                         else None
        end
    end.

  (* the non-copyable outputs i, i+1, ... (k of them) of node n *)
  Fixpoint fresh_lin (n i : N) (k : nat) (outs : row) : list wire :=
    match k with
    | O => []
    | S k' => match nthN outs i with
              | Some t => if ty_copy tys t then fresh_lin n (i + 1) k' outs else (n, i) :: fresh_lin n (i + 1) k' outs
              | None => fresh_lin n (i + 1) k' outs
              end
    end.
  Definition new_lin (n : N) (outs : row) : list wire := fresh_lin n 0 (length outs) outs.

  (* one command: add(op(args)) where the operation is described by o *)
  Definition twf_add (s : tstate) (o : opspec) (op : opd) (args : list arg) : option tstate :=
    match to_wires (t_tr s) args with
    | None => None
    | Some ws =>
        match wtys (t_rows s) ws with
        | None => None
        | Some ts =>
            match completed_op tys o ts with
            | Err _ => None
            | Ok op' =>
                if row_eqb (val_in op') ts && opspec_ok tys o && (op_out op =? lenN (val_out op'))
                then match consume (t_rows s) (t_pend s) ws with
                     | None => None
                     | Some pend1 =>
                         let n := lenN (t_rows s) in
                         Some (mkT (rebind (t_tr s) n 0 args) (t_rows s ++ [val_out op'])
                                   (new_lin n (val_out op') ++ pend1))
                     end
                else None
            end
        end
    end.

  (* k = number of nodes added so far: the k-th added node is described by the k-th specification *)
  Fixpoint twf_coms (specs : list opspec) (k : nat) (s : tstate) (coms : list (opd * list arg)) : option (nat * tstate) :=
    match coms with
    | [] => Some (k, s)
    | (op, args) :: r =>
        match twf_add s (spec_at specs k) op args with
        | Some s' => twf_coms specs (S k) s' r
        | None => None
        end
    end.

  Definition twf_cmd (nin : N) (specs : list opspec) (k : nat) (s : tstate) (c : cmd) : option (nat * tstate) :=
    match c with
    | TrackWire w => Some (k, mkT (t_tr s ++ [Some w]) (t_rows s) (t_pend s))
    | TrackWires ws => Some (k, mkT (t_tr s ++ map Some ws) (t_rows s) (t_pend s))
    | TrackInputs => Some (k, mkT (t_tr s ++ map Some (inputs nin)) (t_rows s) (t_pend s))
    | Untrack i => match tracked_wire (t_tr s) i with
                   | Some _ => Some (k, mkT (Tracked.set_nth (t_tr s) (Z.to_nat i) None) (t_rows s) (t_pend s))
                   | None => None
                   end
    | Add op _ args => match twf_add s (spec_at specs k) op args with Some s' => Some (S k, s') | None => None end
    | Extend coms => twf_coms specs k s coms
    | SetIndexedOutputs _ | SetTrackedOutputs => None
    end.

  (* the outputs: typed, and they consume every pending non-copyable wire *)
  Definition twf_outs (s : tstate) (ws : list wire) : bool :=
    match wtys (t_rows s) ws, consume (t_rows s) (t_pend s) ws with
    | Some _, Some [] => true
    | _, _ => false
    end.
  Definition twf_last (s : tstate) (c : cmd) : bool :=
    match c with
    | SetTrackedOutputs => twf_outs s (live (t_tr s))
    | SetIndexedOutputs args => match to_wires (t_tr s) args with Some ws => twf_outs s ws | None => false end
    | _ => false
    end.

  Fixpoint twf_from (nin : N) (specs : list opspec) (k : nat) (s : tstate) (p : list cmd) : bool :=
    match p with
    | [] => false
    | [c] => twf_last s c
    | c :: r => match twf_cmd nin specs k s c with
                | Some (k', s') => twf_from nin specs k' s' r
                | None => false
                end
    end.

  Definition twf (ins : row) (specs : list opspec) (track : bool) (p : list cmd) : bool :=
    twf_from (lenN ins) specs 0 (mkT (init_tr (lenN ins) track) [ins; []] (new_lin NIN ins)) p.
End TWF.
