(* C10 — the property statement as predicates over the data model (records of model/ExtDefs.v are
   used as plain data; none of its functions is mentioned here).

   1. names_owner: every operation definition held by an extension reports that extension as its
      owner and names it among its signature's runtime requirements (API layer and document layer).
   2. preserved: what "loading back preserves" means, field by field.  Type expressions and constant
      values are compared through their serial form (the type/value codec is property C05),
      requirement sets as sets, dictionaries as ordered lists of (key, definition).
   3. same document: structural equality of serial documents (boolean, for the monitor).
   4. bundled library: helper tables against definitions (boolean, evaluated on regenerated data). *)
From Coq Require Import NArith ZArith List Bool Arith.
Import ListNotations.
From HV Require Import lib.Harness model.Types model.ExtDefs.

Definition same_set (a b : list name) : Prop := forall x, In x a <-> In x b.

Section Spec.
  Context {T ST V SV M : Type}.
  Variables (ser_t : T -> ST) (ser_v : V -> SV).

  (* ---- 1. owner ---- *)
  Definition op_names_owner (n : name) (od : aopdef T M) : Prop :=
    aod_owner od = Some n /\
    forall p, sig_poly (aod_sig od) = Some p -> In n (pf_reqs p).
  Definition names_owner (e : extension T V M) : Prop :=
    forall k od, In (k, od) (e_ops e) -> op_names_owner (e_name e) od.
  (* the same fact read off a document *)
  Definition s_op_names_owner (n : name) (o : sopdef ST M) : Prop :=
    so_extension o = n /\
    forall p, so_signature o = Some p -> In n (sf_reqs (sp_body p)).
  Definition s_names_owner (s : sextension ST SV M) : Prop :=
    forall k o, In (k, o) (se_ops s) -> s_op_names_owner (se_name s) o.

  (* ---- 2. preservation ---- *)
  Definition same_types (a b : list T) : Prop := map ser_t a = map ser_t b.
  Definition sig_preserved (a b : opdefsig T) : Prop :=
    sig_binary a = sig_binary b /\
    match sig_poly a, sig_poly b with
    | None, None => True
    | Some p, Some q =>
        pf_params p = pf_params q /\ same_types (pf_input p) (pf_input q) /\
        same_types (pf_output p) (pf_output q) /\ same_set (pf_reqs p) (pf_reqs q)
    | _, _ => False
    end.
  Definition td_preserved (a b : name * atypedef) : Prop :=
    fst a = fst b /\ atd_name (snd a) = atd_name (snd b) /\ atd_descr (snd a) = atd_descr (snd b) /\
    atd_params (snd a) = atd_params (snd b) /\ atd_bound (snd a) = atd_bound (snd b) /\
    atd_owner (snd a) = atd_owner (snd b).
  Definition od_preserved (a b : name * aopdef T M) : Prop :=
    fst a = fst b /\ aod_name (snd a) = aod_name (snd b) /\ aod_descr (snd a) = aod_descr (snd b) /\
    aod_misc (snd a) = aod_misc (snd b) /\ sig_preserved (aod_sig (snd a)) (aod_sig (snd b)) /\
    aod_owner (snd a) = aod_owner (snd b).
  Definition v_preserved (a b : name * avalue V) : Prop :=
    fst a = fst b /\ av_name (snd a) = av_name (snd b) /\ ser_v (av_val (snd a)) = ser_v (av_val (snd b)) /\
    av_owner (snd a) = av_owner (snd b).
  Definition preserved (e e' : extension T V M) : Prop :=
    e_name e = e_name e' /\ e_version e = e_version e' /\ same_set (e_reqs e) (e_reqs e') /\
    Forall2 td_preserved (e_types e) (e_types e') /\
    Forall2 od_preserved (e_ops e) (e_ops e') /\
    Forall2 v_preserved (e_values e) (e_values e').
End Spec.

(* ---- 1'. owner, with object identity (several Extension objects, possibly with the same name, and
   definition objects in a heap; records of model/ExtDefs.v Section Heap as plain data) ----
   every address held in the operations dictionary of the Extension object number i is a live cell that
   holds an operation definition whose `_extension` pointer is i — the object itself, not merely an
   extension of the same name — and whose signature names that extension among its requirements *)
Section SpecHeap.
  Context {T V M : Type}.
  Definition held_op_ok (h : list (cell T V M)) (i : nat) (n : name) (a : nat) : Prop :=
    exists c d, nth_error h a = Some c /\ c_obj c = OOp d /\ c_ext c = Some i /\ op_names_owner n d.
  Definition heap_names_owner (w : heapw T V M) : Prop :=
    forall i x, nth_error (hw_exts w) i = Some x ->
    forall k a, In (k, a) (r_ops x) -> held_op_ok (hw_heap w) i (r_name x) a.
End SpecHeap.
(* the same on an observation: (key, index of the Extension object reported as owner, requirements) *)
Definition held_obs_ok (i : nat) (n : name) (o : list (name * option nat * option (list name))) : bool :=
  forallb (fun x : name * option nat * option (list name) =>
    option_eqb Nat.eqb (snd (fst x)) (Some i) &&
    match snd x with Some rs => mem N.eqb n rs | None => true end) o.

(* ---- 2'. one Extension object over time (seeded round 4): definitions are added and, in between, the object is
   serialised (`SSer`) or serialised and replaced by the loaded copy (`SLoad`); `sstep` of model/ExtDefs.v as plain
   data.  "Serializing an extension ..." speaks of the extension AS IT IS when it is serialised: whatever was
   written before, the document written at a point is the document of the definitions added up to that point --
   the one a fresh extension given the same additions in one go (`one_shot`) would write.  Everything the property
   says about a document (preservation, same document again, owners) then holds of every document of a session. *)
Section SpecSession.
  Context {T V M D : Type}.
  (* the history (additions so far, in order) at each point where a document is written *)
  Fixpoint points (acc : list (cmd T V M)) (p : list (sstep T V M)) : list (list (cmd T V M)) :=
    match p with
    | [] => []
    | SAdd c :: r => points (acc ++ [c]) r
    | SSer :: r | SLoad :: r => acc :: points acc r
    end.
  Definition adds (p : list (sstep T V M)) : list (cmd T V M) :=
    flat_map (fun s => match s with SAdd c => [c] | _ => [] end) p.
  Definition session_transparent (one_shot : list (cmd T V M) -> D) (p : list (sstep T V M)) (outs : list D) : Prop :=
    outs = map one_shot (points [] p).
End SpecSession.

(* ---- 3. boolean equality of documents, for payload types with a decidable equality ---- *)
Definition opt_name_eqb := option_eqb N.eqb.
Definition version_eqb (a b : version) : bool :=
  N.eqb (v_major a) (v_major b) && N.eqb (v_minor a) (v_minor b) && N.eqb (v_patch a) (v_patch b) &&
  opt_name_eqb (v_pre a) (v_pre b) && opt_name_eqb (v_build a) (v_build b).
Fixpoint sparam_eqb (a b : sparam) : bool :=
  match a, b with
  | SPType x, SPType y => bound_eqb x y
  | SPNat x, SPNat y => option_eqb N.eqb x y
  | SPString, SPString | SPExts, SPExts => true
  | SPList x, SPList y => sparam_eqb x y
  | SPTuple xs, SPTuple ys =>
      (fix go (l1 l2 : list sparam) : bool :=
         match l1, l2 with
         | [], [] => true
         | x :: r, y :: s => sparam_eqb x y && go r s
         | _, _ => false
         end) xs ys
  | _, _ => false
  end.
Definition sbound_eqb (a b : sbound) : bool :=
  match a, b with
  | SExplicit x, SExplicit y => bound_eqb x y
  | SFromParams x, SFromParams y => list_eqb Nat.eqb x y
  | _, _ => false
  end.

Section DocEq.
  Context {ST SV M : Type}.
  Variables (st_eqb : ST -> ST -> bool) (sv_eqb : SV -> SV -> bool) (m_eqb : M -> M -> bool).
  Definition sfunc_eqb (a b : sfunc ST) : bool :=
    list_eqb st_eqb (sf_input a) (sf_input b) && list_eqb st_eqb (sf_output a) (sf_output b) &&
    list_eqb N.eqb (sf_reqs a) (sf_reqs b).
  Definition spoly_eqb (a b : spoly ST) : bool :=
    list_eqb sparam_eqb (sp_params a) (sp_params b) && sfunc_eqb (sp_body a) (sp_body b).
  Definition stypedef_eqb (a b : stypedef) : bool :=
    N.eqb (std_extension a) (std_extension b) && N.eqb (std_name a) (std_name b) &&
    N.eqb (std_descr a) (std_descr b) && list_eqb sparam_eqb (std_params a) (std_params b) &&
    sbound_eqb (std_bound a) (std_bound b).
  Definition svalue_eqb (a b : svalue SV) : bool :=
    N.eqb (sv_extension a) (sv_extension b) && N.eqb (sv_name a) (sv_name b) &&
    sv_eqb (sv_typed_value a) (sv_typed_value b).
  Definition misc_eqb := list_eqb (pair_eqb N.eqb m_eqb).
  Definition sopdef_eqb (a b : sopdef ST M) : bool :=
    N.eqb (so_extension a) (so_extension b) && N.eqb (so_name a) (so_name b) &&
    N.eqb (so_descr a) (so_descr b) && option_eqb misc_eqb (so_misc a) (so_misc b) &&
    option_eqb spoly_eqb (so_signature a) (so_signature b) && Bool.eqb (so_binary a) (so_binary b).
  Definition sdict_eqb {A} (eqb : A -> A -> bool) := list_eqb (pair_eqb N.eqb eqb).
  Definition sext_eqb (a b : sextension ST SV M) : bool :=
    version_eqb (se_version a) (se_version b) && N.eqb (se_name a) (se_name b) &&
    list_eqb N.eqb (se_reqs a) (se_reqs b) &&
    sdict_eqb stypedef_eqb (se_types a) (se_types b) &&
    sdict_eqb svalue_eqb (se_values a) (se_values b) &&
    sdict_eqb sopdef_eqb (se_ops a) (se_ops b).

  (* boolean form of s_names_owner *)
  Definition s_names_owner_b (s : sextension ST SV M) : bool :=
    forallb (fun ko : name * sopdef ST M =>
      N.eqb (so_extension (snd ko)) (se_name s) &&
      match so_signature (snd ko) with
      | Some p => mem N.eqb (se_name s) (sf_reqs (sp_body p))
      | None => true
      end) (se_ops s).
  (* type definitions and values of a written document carry the extension's name *)
  Definition s_defs_owner_b (s : sextension ST SV M) : bool :=
    forallb (fun kt : name * stypedef => N.eqb (std_extension (snd kt)) (se_name s)) (se_types s) &&
    forallb (fun kv : name * svalue SV => N.eqb (sv_extension (snd kv)) (se_name s)) (se_values s).
End DocEq.

(* ---- 4. the bundled library ---- *)
(* a file's bytes, packed 7 per numeral (little endian), plus its length *)
Record packed := { pk_len : N; pk_words : list N }.
Definition packed_eqb (a b : packed) : bool :=
  N.eqb (pk_len a) (pk_len b) && list_eqb N.eqb (pk_words a) (pk_words b).
Definition path := list N.          (* relative path: code points *)
Definition path_eqb : path -> path -> bool := list_eqb N.eqb.
(* both directories hold the same file names and every file has the same bytes *)
Definition same_tree (a b : list (path * packed)) : bool :=
  nodupb path_eqb (map fst a) && nodupb path_eqb (map fst b) &&
  Nat.eqb (length a) (length b) &&
  forallb (fun fa : path * packed =>
    match find (fun fb : path * packed => path_eqb (fst fa) (fst fb)) b with
    | Some fb => packed_eqb (snd fa) (snd fb)
    | None => false
    end) a.

(* typed helpers of hugr.std.*: what they claim to denote *)
Inductive argkind :=
| KType (b : bound)              (* a type argument whose bound is b *)
| KNat (n : N) | KString | KSeq (l : list argkind) | KExts
| KVar (p : sparam).             (* a variable declared with parameter p *)
Inductive helper_kind := HType | HOp | HConst.
Record helper := { h_label : list N;          (* Python expression, for reports *)
                   h_kind : helper_kind;
                   h_ext : name;              (* extension it reports *)
                   h_def : name;              (* definition it names (for HConst: of its type) *)
                   h_args : list argkind;
                   h_exts : list name }.      (* HConst: extension names the payload reports *)

Definition bound_le (a b : bound) : bool := match a, b with Any, Copyable => false | _, _ => true end.
(* a variable declared with parameter q may stand where parameter p is expected when p admits everything q admits
   (a copyable-type variable for an any-type parameter, a nat variable below 8 for an unbounded nat parameter);
   the KIND must be the same: a type / string / list variable never fits a nat parameter (seeded round 4, C10-h) *)
Fixpoint param_le (q p : sparam) {struct q} : bool :=
  match q, p with
  | SPType b, SPType pb => bound_le b pb
  | SPNat _, SPNat None => true
  | SPNat (Some a), SPNat (Some b) => N.leb a b
  | SPString, SPString | SPExts, SPExts => true
  | SPList x, SPList y => param_le x y
  | SPTuple xs, SPTuple ys =>
      (fix go (l1 l2 : list sparam) {struct l1} : bool :=
         match l1, l2 with
         | [], [] => true
         | x :: r, y :: s => param_le x y && go r s
         | _, _ => false
         end) xs ys
  | _, _ => false
  end.
Fixpoint arg_matches (p : sparam) (a : argkind) {struct a} : bool :=
  match a with
  | KVar q => param_le q p
  | KType b => match p with SPType pb => bound_le b pb | _ => false end
  | KNat n => match p with SPNat None => true | SPNat (Some ub) => N.ltb n ub | _ => false end
  | KString => match p with SPString => true | _ => false end
  | KExts => match p with SPExts => true | _ => false end
  | KSeq l =>
      match p with
      | SPList q => (fix all (l : list argkind) : bool :=
                       match l with [] => true | x :: r => arg_matches q x && all r end) l
      | SPTuple qs => (fix zip (l : list argkind) (qs : list sparam) {struct l} : bool :=
                         match l, qs with
                         | [], [] => true
                         | x :: r, q :: qr => arg_matches q x && zip r qr
                         | _, _ => false
                         end) l qs
      | _ => false
      end
  end.
Fixpoint args_match (ps : list sparam) (l : list argkind) : bool :=
  match ps, l with
  | [], [] => true
  | p :: pr, a :: r => arg_matches p a && args_match pr r
  | _, _ => false
  end.

Section Helpers.
  Context {ST SV M : Type}.
  Definition find_ext (lib : list (sextension ST SV M)) (n : name) : option (sextension ST SV M) :=
    find (fun s => N.eqb (se_name s) n) lib.
  Definition type_denoted (lib : list (sextension ST SV M)) (e d : name) (args : list argkind) : bool :=
    match find_ext lib e with
    | Some s => match find (fun kt : name * stypedef => N.eqb (fst kt) d) (se_types s) with
                | Some kt => N.eqb (std_name (snd kt)) d && args_match (std_params (snd kt)) args
                | None => false
                end
    | None => false
    end.
  Definition op_denoted (lib : list (sextension ST SV M)) (e d : name) (args : list argkind) : bool :=
    match find_ext lib e with
    | Some s => match find (fun ko : name * sopdef ST M => N.eqb (fst ko) d) (se_ops s) with
                | Some ko => N.eqb (so_name (snd ko)) d &&
                             match so_signature (snd ko) with
                             | Some p => args_match (sp_params p) args
                             | None => so_binary (snd ko)      (* computed signature: nothing to match *)
                             end
                | None => false
                end
    | None => false
    end.
  Definition helper_ok (lib : list (sextension ST SV M)) (h : helper) : bool :=
    match h_kind h with
    | HType => type_denoted lib (h_ext h) (h_def h) (h_args h)
    | HOp => op_denoted lib (h_ext h) (h_def h) (h_args h)
    | HConst => type_denoted lib (h_ext h) (h_def h) (h_args h) &&
                forallb (fun n => match find_ext lib n with Some _ => true | None => false end) (h_exts h)
    end.
End Helpers.
