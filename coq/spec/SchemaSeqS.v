(* C17 — what "the models define" must mean when several schema-defining rebuilds happen in one process:
   written without reference to how model/SchemaSeq.v computes states. *)
From Coq Require Import List Bool String Arith.
Import ListNotations.
From HV Require Import lib.Harness model.Schema model.SchemaSeq spec.SchemaS.
Open Scope string_scope.
Open Scope list_scope.

(* the classes a rebuild of root `f` is responsible for: the operation/type classes and the root itself *)
Definition governed (f : family) (g : group) : Prop := g = GOps \/ g = GRoot f.

(* `exec h` = configuration of every class group after the history h of rebuilds (oldest first).
   History independence: after a rebuild (f, c) every governed group carries c, whatever was rebuilt before -
   in particular a rebuild of ANOTHER root with an EQUAL configuration just before does not make it a no-op. *)
Definition HistoryIndependent (exec : list step -> state) : Prop :=
  forall h f c g, governed f g -> exec (h ++ [(f, c)]) g = Some c.
(* ... and it changes nothing else *)
Definition OthersUntouched (exec : list step -> state) : Prop :=
  forall h f c g, ~ governed f g -> exec (h ++ [(f, c)]) g = exec h g.

(* the schemas written by one process (one per step, in order) accept the same documents as the files expected
   in the state reached: every definition name, every document, every budget *)
Fixpoint RunSame (pub : family -> bool -> json) (st : state) (r : list (step * json)) : Prop :=
  match r with
  | [] => True
  | (s, g) :: r' => SameDocuments (expected pub (rebuild st s) (fst s) (snd s)) g /\ RunSame pub (rebuild st s) r'
  end.
