(* Specification for C20, written against the abstract DOT document independently of the renderer:
   what a faithful drawing of a HUGR is. *)
From Coq Require Import ZArith NArith List Bool Arith Permutation.
Import ListNotations.
From HV Require Import lib.Harness model.Render.

(* the facts of the HUGR a drawing is judged against *)
Record hview := { hv_tree : htree; hv_nodes : list Z (* all node indices of the HUGR *); hv_links : list link }.

(* -- one node statement per HUGR node, and no others -- *)
Definition NodesOnce (h : hview) (d : dot) : Prop :=
  Permutation (map ns_id (dot_stmts (d_top d))) (hv_nodes h).
Definition nodes_once_b (h : hview) (d : dot) : bool :=
  perm_eqb Z.eqb (map ns_id (dot_stmts (d_top d))) (hv_nodes h).

(* -- each statement carries the display name, the metadata lines, and one cell per port -- *)
Definition display (c : config) (i : ninfo) : str := if c_qualify c then ni_name_q i else ni_name_u i.
Definition carries_b (c : config) (i : ninfo) (s : nstmt) : bool :=
  Z.eqb (ns_id s) (ni_idx i) && str_eqb (ns_label s) (display c i) &&
  list_eqb Z.eqb (ns_in s) (map Z.of_nat (seq 0 (ni_nin i))) &&
  list_eqb Z.eqb (ns_out s) (map Z.of_nat (seq 0 (ni_nout i))) &&
  str_eqb (ns_data s) (meta_data (ni_meta i)).
Fixpoint find_info (l : list ninfo) (i : Z) : option ninfo :=
  match l with [] => None | x :: r => if Z.eqb (ni_idx x) i then Some x else find_info r i end.
Definition stmts_carry_b (c : config) (h : hview) (d : dot) : bool :=
  forallb (fun s => match find_info (tree_infos (hv_tree h)) (ns_id s) with
                    | Some i => carries_b c i s
                    | None => false
                    end) (dot_stmts (d_top d)).

(* -- clusters mirror the hierarchy: a cluster exactly for the nodes with children, nested as they are -- *)
Inductive Mirrors : htree -> dnode -> Prop :=
| MLeaf i s : ns_id s = ni_idx i -> Mirrors (HNode i []) (DLeaf s)
| MCluster i ch id body s col :
    ch <> [] -> id = ni_idx i -> ns_id s = ni_idx i -> Forall2 Mirrors ch body ->
    Mirrors (HNode i ch) (DCluster id body s col).
Fixpoint mirrors_b (t : htree) (d : dnode) : bool :=
  match t, d with
  | HNode i [], DLeaf s => Z.eqb (ns_id s) (ni_idx i)
  | HNode i (c0 :: cr), DCluster id body s _ =>
      Z.eqb id (ni_idx i) && Z.eqb (ns_id s) (ni_idx i) &&
      (fix go (x : list htree) (y : list dnode) : bool :=
         match x, y with
         | [], [] => true
         | p :: r, q :: r' => mirrors_b p q && go r r'
         | _, _ => false
         end) (c0 :: cr) body
  | _, _ => false
  end.

(* The property fixes how clusters are NESTED, not the order of the statements inside a cluster: the drawing is judged
   up to the order of siblings (the body of a cluster is some permutation of the drawings of the children). *)
Inductive MirrorsP : htree -> dnode -> Prop :=
| MPLeaf i s : ns_id s = ni_idx i -> MirrorsP (HNode i []) (DLeaf s)
| MPCluster i ch id body body' s col :
    ch <> [] -> id = ni_idx i -> ns_id s = ni_idx i -> Permutation body body' -> Forall2 MirrorsP ch body' ->
    MirrorsP (HNode i ch) (DCluster id body s col).
Fixpoint mirrors_perm_b (t : htree) (d : dnode) : bool :=
  match t, d with
  | HNode i [], DLeaf s => Z.eqb (ns_id s) (ni_idx i)
  | HNode i (c0 :: cr), DCluster id body s _ =>
      Z.eqb id (ni_idx i) && Z.eqb (ns_id s) (ni_idx i) &&
      (fix go (x : list htree) (y : list dnode) : bool :=
         match x with
         | [] => match y with [] => true | _ => false end
         | p :: r => match take1 (mirrors_perm_b p) y with Some y' => go r y' | None => false end
         end) (c0 :: cr) body
  | _, _ => false
  end.

(* -- one edge statement per link, right endpoints, value edges labelled by their type -- *)
Definition edge_of_link (l : link) : Z * Z * Z * Z * str :=
  (l_src l, l_soff l, l_dst l, l_doff l, match l_kind l with KValue s => s | _ => [] end).
Definition edge_of_stmt (e : estmt) : Z * Z * Z * Z * str :=
  (e_src e, e_sport e, e_dst e, e_dport e, e_label e).
Definition edge_eqb (a b : Z * Z * Z * Z * str) : bool :=
  match a, b with
  | (a1, a2, a3, a4, a5), (b1, b2, b3, b4, b5) =>
      Z.eqb a1 b1 && Z.eqb a2 b2 && Z.eqb a3 b3 && Z.eqb a4 b4 && str_eqb a5 b5
  end.
Definition EdgesOnce (h : hview) (d : dot) : Prop :=
  Permutation (map edge_of_stmt (d_edges d)) (map edge_of_link (hv_links h)).
Definition edges_once_b (h : hview) (d : dot) : bool :=
  perm_eqb edge_eqb (map edge_of_stmt (d_edges d)) (map edge_of_link (hv_links h)).

Definition spec_b (c : config) (h : hview) (d : dot) : bool :=
  nodes_once_b h d && stmts_carry_b c h d && mirrors_perm_b (hv_tree h) (d_top d) && edges_once_b h d.

(* -- configuration independence: dropping colours, and names when qualification differs -- *)
Definition erase_stmt (names : bool) (s : nstmt) : nstmt :=
  {| ns_id := ns_id s; ns_label := if names then [] else ns_label s; ns_data := ns_data s;
     ns_in := ns_in s; ns_out := ns_out s; ns_back := 0%N; ns_border := 0%N |}.
Fixpoint erase_node (names : bool) (d : dnode) : dnode :=
  match d with
  | DLeaf s => DLeaf (erase_stmt names s)
  | DCluster i body s _ => DCluster i (map (erase_node names) body) (erase_stmt names s) 0%N
  end.
Definition erase (names : bool) (d : dot) : dot :=
  {| d_bg := 0%N; d_top := erase_node names (d_top d);
     d_edges := map (fun e => {| e_src := e_src e; e_sport := e_sport e; e_dst := e_dst e; e_dport := e_dport e;
                                 e_label := e_label e; e_color := 0%N |}) (d_edges d) |}.

(* ---- the specification at the strength of the property text: what the MONITOR evaluates on an observed drawing ----
   The property promises, per node statement, the operation's display name and one cell per input and output port;
   it says nothing about how (or whether) metadata is shown.  It promises a type label on VALUE edges; it says nothing
   about labels on order / constant / function / control-flow edges.  `spec_b` above is the specification the model
   (like today's code) meets - metadata lines present, non-value edges unlabelled; `spec_p_b` keeps exactly the
   promised part of each clause. *)
(* which of the two display names (with or without the extension prefix) a configuration shows is not promised -
   only that nothing but the prefix depends on the option, which the monitor checks across configurations *)
Definition carries_p_b (c : config) (i : ninfo) (s : nstmt) : bool :=
  Z.eqb (ns_id s) (ni_idx i) && (str_eqb (ns_label s) (ni_name_q i) || str_eqb (ns_label s) (ni_name_u i)) &&
  list_eqb Z.eqb (ns_in s) (map Z.of_nat (seq 0 (ni_nin i))) &&
  list_eqb Z.eqb (ns_out s) (map Z.of_nat (seq 0 (ni_nout i))).
Definition stmts_promised_b (c : config) (h : hview) (d : dot) : bool :=
  forallb (fun s => match find_info (tree_infos (hv_tree h)) (ns_id s) with
                    | Some i => carries_p_b c i s
                    | None => false
                    end) (dot_stmts (d_top d)).

(* is (node, offset) the source port of a value link of the HUGR? *)
Definition value_src (ls : list link) (n off : Z) : bool :=
  existsb (fun l => Z.eqb (l_src l) n && Z.eqb (l_soff l) off &&
                    match l_kind l with KValue _ => true | _ => false end) ls.
(* an edge statement, its label read only when it leaves a value port *)
Definition edge_of_stmt_p (ls : list link) (e : estmt) : Z * Z * Z * Z * str :=
  (e_src e, e_sport e, e_dst e, e_dport e, if value_src ls (e_src e) (e_sport e) then e_label e else []).
Definition EdgesOnceP (h : hview) (d : dot) : Prop :=
  Permutation (map (edge_of_stmt_p (hv_links h)) (d_edges d)) (map edge_of_link (hv_links h)).
Definition edges_promised_b (h : hview) (d : dot) : bool :=
  perm_eqb edge_eqb (map (edge_of_stmt_p (hv_links h)) (d_edges d)) (map edge_of_link (hv_links h)).

Definition spec_p_b (c : config) (h : hview) (d : dot) : bool :=
  nodes_once_b h d && stmts_promised_b c h d && mirrors_perm_b (hv_tree h) (d_top d) && edges_promised_b h d.

(* the promised content of a drawing: colours and the metadata text dropped (for the correspondence) *)
Definition promised_stmt (s : nstmt) : nstmt :=
  {| ns_id := ns_id s; ns_label := ns_label s; ns_data := []; ns_in := ns_in s; ns_out := ns_out s;
     ns_back := 0%N; ns_border := 0%N |}.
Fixpoint promised_node (d : dnode) : dnode :=
  match d with
  | DLeaf s => DLeaf (promised_stmt s)
  | DCluster i body s _ => DCluster i (map promised_node body) (promised_stmt s) 0%N
  end.
Definition promised (ls : list link) (d : dot) : dot :=
  {| d_bg := 0%N; d_top := promised_node (d_top d);
     d_edges := map (fun e => {| e_src := e_src e; e_sport := e_sport e; e_dst := e_dst e; e_dport := e_dport e;
                                 e_label := if value_src ls (e_src e) (e_sport e) then e_label e else [];
                                 e_color := 0%N |}) (d_edges d) |}.

(* ---- a drawing is determined by the HUGR and by the options of THAT rendering (seeded round 5) ----
   "Rendering ... is independent of palette and name-qualification options except for colours and the extension prefix
   of operation names": what a rendering shows depends on the HUGR and on the options given to it - not on renderers
   created, configured or used earlier, nor on how often something was drawn before.  Of several renderings of one
   HUGR, any two made under equal options are the same drawing (colours and names included; as everywhere, up to the
   order of edge statements and of sibling statements). *)
Definition palette_eqb (a b : palette) : bool :=
  N.eqb (p_background a) (p_background b) && N.eqb (p_node a) (p_node b) && N.eqb (p_edge a) (p_edge b) &&
  N.eqb (p_dark a) (p_dark b) && N.eqb (p_const a) (p_const b) && N.eqb (p_discard a) (p_discard b) &&
  N.eqb (p_node_border a) (p_node_border b) && N.eqb (p_port_border a) (p_port_border b).
Definition config_eqb (a b : config) : bool :=
  palette_eqb (c_pal a) (c_pal b) && Bool.eqb (c_qualify a) (c_qualify b).
(* renderings in the order they were made: each agrees with every later one made under the same options *)
Inductive Determined : list (config * dot) -> Prop :=
| DetNil : Determined []
| DetCons c d r :
    (forall c' d', In (c', d') r -> c' = c -> dot_peqb d d' = true) -> Determined r -> Determined ((c, d) :: r).
Fixpoint determined_b (rs : list (config * dot)) : bool :=
  match rs with
  | [] => true
  | cd :: r => forallb (fun cd' => negb (config_eqb (fst cd') (fst cd)) || dot_peqb (snd cd) (snd cd')) r &&
               determined_b r
  end.

(* ---- renderers do not interfere (seeded round 5) ----
   Written without heap or addresses: every renderer has its OWN options - those it was created with (the default
   options when it was created without a configuration), changed only by the steps that name THIS renderer; a drawing
   made by renderer r is the drawing of the HUGR under r's own options at that time. *)
Definition own_step (dflt : config) (own : list config) (o : hop) : list config :=
  match o with
  | HNew (Some c) => own ++ [c]
  | HNew None => own ++ [dflt]
  | HSetQual r b => upd r (set_qual b) own
  | HSetPal r p => upd r (set_pal p) own
  | HDraw _ => own
  end.
Definition own_draw (t : htree) (ls : list link) (own : list config) (o : hop) : list dot :=
  match o with
  | HDraw r => match nth_error own r with Some c => [render c t ls] | None => [] end
  | _ => []
  end.
Fixpoint own_draws (dflt : config) (t : htree) (ls : list link) (own : list config) (h : list hop) : list dot :=
  match h with
  | [] => []
  | o :: r => own_draw t ls own o ++ own_draws dflt t ls (own_step dflt own o) r
  end.
