(* C06, histories -- specification side, written without the store of model/OpsStore.v: the operation a node
   index holds after a history is the one put there by the LAST step that touched the index (a later
   delete_node leaves the index without a node); the answers the property speaks about are those the
   specification assigns to THAT operation, whatever was asked, and answered, earlier in the history. *)
From Coq Require Import ZArith List Bool.
Import ListNotations.
From HV Require Import lib.Harness model.Types model.Ops model.OpsStore spec.OpsS.
Local Open Scope Z_scope.

Section StoreS.
  Variable V : Type.
  Notation op := (op V).
  Notation sstep := (sstep V).

  Definition touches (n : Z) (st : sstep) : Prop := match st with SPut m _ | SDel m => m = n end.
  Definition touchesb (n : Z) (st : sstep) : bool := match st with SPut m _ | SDel m => m =? n end.

  (* [current l n o]: after the history l (oldest step first) index n holds the operation o *)
  Inductive current : list sstep -> Z -> op -> Prop :=
  | cur_put l n o : current (l ++ [SPut n o]) n o
  | cur_keep l st n o : current l n o -> ~ touches n st -> current (l ++ [st]) n o.
  (* [vacant l n]: after the history l index n holds no node *)
  Inductive vacant : list sstep -> Z -> Prop :=
  | vac_nil n : vacant [] n
  | vac_del l n : vacant (l ++ [SDel n]) n
  | vac_keep l st n : vacant l n -> ~ touches n st -> vacant (l ++ [st]) n.

  (* computable twin, on the history read backwards (newest step first) *)
  Fixpoint last_touch (rl : list sstep) (n : Z) : option sstep :=
    match rl with
    | [] => None
    | st :: r => if touchesb n st then Some st else last_touch r n
    end.
  Definition spec_current (l : list sstep) (n : Z) : option op :=
    match last_touch (rev l) n with Some (SPut _ o) => Some o | _ => None end.
End StoreS.

Arguments touches {V}. Arguments touchesb {V}. Arguments current {V}. Arguments vacant {V}.
Arguments last_touch {V}. Arguments spec_current {V}.
