(* Specification for C19: register bitstrings by the documented convention, read pointwise and
   backwards from the latest write (the implementation folds forwards over a dictionary). *)
From Coq Require Import ZArith List Bool Arith.
Import ListNotations.
From HV Require Import lib.PyDict lib.Harness model.Shots.

Inductive wr := Whole (bs : list bool) | Idx (i : nat) (b : bool).

(* the write an entry denotes: "name[n]" writes one bit at position n of register name,
   any other tag overwrites the whole register with the bit or list of bits; a non-bit is rejected *)
Definition entry_write (e : entry) : res (tag * wr) :=
  let '(t, d) := e in
  match parse_tag t with
  | Some (name, idx) => bind (cast d) (fun b => Ok (name, Idx idx b))
  | None =>
      match d with
      | DList vs => bind (mapM cast vs) (fun bs => Ok (t, Whole bs))
      | _ => bind (cast d) (fun b => Ok (t, Whole [b]))
      end
  end.

(* writes to register r, most recent first *)
Definition writes_rev (r : tag) (ws : list (tag * wr)) : list wr :=
  rev (map snd (filter (fun tw => tag_eqb (fst tw) r) ws)).

(* looking back from the latest write *)
Fixpoint len_spec (l : list wr) : nat :=
  match l with
  | [] => 0
  | Whole w :: _ => length w
  | Idx i _ :: rest => Nat.max (S i) (len_spec rest)
  end.
Fixpoint bit_spec (l : list wr) (j : nat) : bool :=
  match l with
  | [] => false
  | Whole w :: _ => nth j w false
  | Idx i b :: rest => if Nat.eqb i j then b else bit_spec rest j
  end.
Definition reg_spec (ws : list (tag * wr)) (r : tag) : option (list bool) :=
  match writes_rev r ws with
  | [] => None
  | l => Some (map (bit_spec l) (seq 0 (len_spec l)))
  end.

(* multi-shot: the per-register list is the per-shot strings in shot order *)
Definition per_register (bits : list regs) (r : tag) : list (list bool) :=
  flat_map (fun rb => match dget tag_eqb rb r with Some s => [s] | None => [] end) bits.
Definition names_differ (bits : list regs) : bool :=
  match bits with
  | [] => false
  | b0 :: rest => existsb (fun rb => negb (keys_eqb (map fst rb) (map fst b0))) rest
  end.
Definition lengths_differ (bits : list regs) : bool :=
  existsb (fun rb => existsb (fun '(r, s) =>
     match per_register bits r with s0 :: _ => negb (Nat.eqb (length s0) (length s)) | [] => false end) rb) bits.

(* collation: per tag, all values of the shot in entry order, flattened *)
Definition values_of (es : list entry) (t : tag) : list data :=
  flat_map (fun e => if tag_eqb (fst e) t then [snd e] else []) es.
