(* C13 (seeded round 5) — "... and when an incomplete operation is serialized", stated on what the PROGRAM did,
   independently of which private fields the builders fill in (model/BuilderParts.v): a container is unfinished
   as long as the call that builds its outputs was not made.  Announcing a function's outputs
   (define_function(name, ins, outs) / declare_outputs) is not building them. *)
From Coq Require Import List Bool.
Import ListNotations.
From HV Require Import lib.Harness model.Tracked model.BuilderErr model.BuilderParts.

Definition Unfinished (p : part) : Prop :=
  match p with
  | PFunc _ finished => finished = false                    (* whatever was declared *)
  | PDfg finished => finished = false
  | PCond cases => (exists c, In c cases /\ c <> CFinished) \/ cases = []   (* a case not built / nothing to build *)
  | PCfg blocks exit => In false blocks \/ exit = false      (* a block left open / no exit branch *)
  | PLoop finished => finished = false
  | POp _ wired => wired = false
  end.
(* a program leaves something unfinished, at any position *)
Definition LeftUnfinished (ps : list part) : Prop := exists p, In p ps /\ Unfinished p.

(* boolean form used by the monitor (proved equivalent in proofs/BuilderPartsP.v) *)
Definition unfinished_b (p : part) : bool :=
  match p with
  | PFunc _ finished => negb finished
  | PDfg finished => negb finished
  | PCond cases => existsb (fun c => negb (is_finished c)) cases || match cases with [] => true | _ => false end
  | PCfg blocks exit => existsb negb blocks || negb exit
  | PLoop finished => negb finished
  | POp _ wired => negb wired
  end.
Definition left_unfinished_b (ps : list part) : bool := existsb unfinished_b ps.
