(* Specification side of model/SerialHugrGen.v: what C02 and C03 promise of a document WITHOUT fixing what the wire
   format leaves to the writer.  Written against the data types of model/SerialHugr.v and the definitions of
   spec/SerialHugrS.v, independently of the model's functions.
   * C03 speaks about the document of a HUGR under SOME listing order L of its live nodes (the order the writer
     chose): node 0 is the root and its own parent, parents are listed earlier, edge endpoints exist, ports are
     addressed by the operation -- `pos_in L` replaces the order-preserving `rank` of SerialHugrS.v (which is C02's
     licence, not C03's).
   * C02 compares documents up to their PRESENTATION (SameDoc): same node list, the same multiset of edges, the same
     metadata dictionary for every node as a reader takes it from the table (a missing table, a null entry and {} all
     read as {}). *)
From Coq Require Import List Bool Arith Permutation.
Import ListNotations.
From HV Require Import lib.Harness model.SerialHugr spec.SerialHugrS.

Section GenSpec.
  Variables op sop md : Type.
  Variable enc : op -> sop.
  Variable sop_eqb : sop -> sop -> bool.
  Variable md_nil : md.
  Variables vports sports : op -> dir -> nat.
  Variable has_order : op -> bool.

  Notation hugr := (hugr op md).
  Notation serial := (serial sop md).

  (* ---- the listing order ---- *)
  Fixpoint find_pos (i : nat) (L : list nat) : option nat :=
    match L with
    | [] => None
    | y :: r => if i =? y then Some 0 else option_map S (find_pos i r)
    end.
  (* position of node i in the listing (length L when it is not listed) *)
  Definition pos_in (L : list nat) (i : nat) : nat := match find_pos i L with Some k => k | None => length L end.
  (* admissible: exactly the live nodes, each once *)
  Definition OrderAdmissible (h : hugr) (L : list nat) : Prop := NoDup L /\ forall i, In i L <-> is_live h i = true.
  Definition order_admissible_b (h : hugr) (L : list nat) : bool := perm_eqb Nat.eqb L (lives h).
  (* the root is listed first (and is the only parentless node), every other node's parent is a live node listed
     earlier *)
  Definition order_ok_b (h : hugr) (L : list nat) : bool :=
    match L with [] => false | r :: _ => r =? h_root h end &&
    forallb (fun i =>
      match get_node h i with
      | None => false
      | Some n => match n_parent n with
                  | None => i =? h_root h
                  | Some p => is_live h p && (pos_in L p <? pos_in L i) && negb (i =? h_root h)
                  end
      end) L.

  (* ---- C03 under a listing order ---- *)
  Definition expected_edge_pos (h : hugr) (L : list nat) (l : link) : sedge :=
    ((pos_in L (fst (fst l)), addr vports sports h (fst l) DOut),
     (pos_in L (fst (snd l)), addr vports sports h (snd l) DIn)).
  (* the edges of the document are, as a multiset, the links with their nodes at their listing positions and their
     ports addressed by the operation *)
  Definition port_addressing_in_b (L : list nat) (h : hugr) (s : serial) : bool :=
    perm_eqb sedge_eqb (s_edges s) (map (expected_edge_pos h L) (h_links h)).
  (* the document lists the nodes of the HUGR in the order L: L is admissible, the root comes first, document node k
     carries the encoded operation of node L[k] and the listing position of its parent (the root: itself) *)
  Definition nodes_listed_in_b (L : list nat) (h : hugr) (s : serial) : bool :=
    order_admissible_b h L && (pos_in L (h_root h) =? 0) &&
    forall2b (fun (x : snode sop) (i : nat) =>
                match get_node h i with
                | Some n => sop_eqb (s_op x) (enc (n_op n)) &&
                            (s_parent x =? pos_in L (match n_parent n with Some p => p | None => i end))
                | None => false
                end) (s_nodes s) L.

  (* ---- C02: the same document up to presentation ---- *)
  (* the dictionary a reader takes for node j *)
  Definition meta_at (s : serial) (j : nat) : md :=
    match s_meta s with
    | Some l => match nth_error l j with Some (Some m) => m | _ => md_nil end
    | None => md_nil
    end.
  Definition SameDoc (a b : serial) : Prop :=
    s_nodes a = s_nodes b /\ Permutation (s_edges a) (s_edges b) /\
    forall j, j < length (s_nodes b) -> meta_at a j = meta_at b j.
End GenSpec.

Arguments pos_in L i : simpl never.
Arguments OrderAdmissible {op md}. Arguments order_admissible_b {op md}. Arguments order_ok_b {op md}.
Arguments expected_edge_pos {op md}. Arguments port_addressing_in_b {op sop md}. Arguments nodes_listed_in_b {op sop md}.
Arguments meta_at {sop md}. Arguments SameDoc {sop md}.
