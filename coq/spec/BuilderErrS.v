(* Specification for C13: each inconsistency class of the property text as a predicate on the builder
   state, written relationally and independently of the loops and tests of the code. *)
From Coq Require Import ZArith NArith List Bool Arith.
Import ListNotations.
From HV Require Import lib.Harness model.Tracked model.BuilderErr.

(* a is n itself or one of its ancestors *)
Inductive Anc (pt : ptable) (a : nat) : nat -> Prop :=
| Anc_self : Anc pt a a
| Anc_up : forall n p, parent_of pt n = Some p -> Anc pt a p -> Anc pt a n.

(* "a wire's source has an ancestor-sibling relation to its target": some ancestor-or-self of the target
   is a sibling of the source (same parent) *)
Definition SiblingAncestor (pt : ptable) (src tgt : nat) : Prop :=
  exists a sp, Anc pt a tgt /\ parent_of pt src = Some sp /\ parent_of pt a = Some sp.
(* "lies inside the enclosing control-flow graph": the CFG node is a proper ancestor of the source *)
Definition InsideCfg (pt : ptable) (cfg src : nat) : Prop :=
  exists p, parent_of pt src = Some p /\ Anc pt cfg p.

(* hierarchies built by the builders: parents are created before their children, the root has no parent *)
Definition ParentFirst (pt : ptable) : Prop := forall n p, parent_of pt n = Some p -> p < n.

(* boolean forms for the monitor (bounded search over the table; reflected in the proofs) *)
Fixpoint chain (fuel : nat) (pt : ptable) (n : nat) : list nat :=
  match fuel with
  | O => []
  | S f => n :: match parent_of pt n with Some p => chain f pt p | None => [] end
  end.
Definition ancestors_or_self (pt : ptable) (n : nat) : list nat := chain (S (length pt)) pt n.
Definition sibling_ancestor_b (pt : ptable) (src tgt : nat) : bool :=
  match parent_of pt src with
  | None => false
  | Some sp => existsb (fun a => onat_eqb (parent_of pt a) (Some sp)) (ancestors_or_self pt tgt)
  end.
Definition inside_cfg_b (pt : ptable) (cfg src : nat) : bool :=
  match parent_of pt src with
  | None => false
  | Some p => existsb (Nat.eqb cfg) (ancestors_or_self pt p)
  end.

Section Rows.
  Variable T : Type.

  (* conditional cases *)
  Definition CaseOutOfRange (c : cond T) (i : Z) : Prop := (i < 0 \/ Z.of_nat (length (c_built c)) <= i)%Z.
  Definition CaseBuiltTwice (c : cond T) (i : Z) : Prop :=
    (0 <= i)%Z /\ nth_error (c_built c) (Z.to_nat i) = Some true.
  Definition CasesDisagree (c : cond T) (r : row T) : Prop := exists r0, c_outs c = Some r0 /\ r0 <> r.
  Definition UnbuiltCases (c : cond T) : Prop := In false (c_built c).
  (* exit branches *)
  Definition ExitDisagrees (exit : option (row T)) (out : row T) : Prop := exists r0, exit = Some r0 /\ r0 <> out.
  (* declared function outputs *)
  Definition OutputsDiffer (declared : option (row T)) (given : row T) : Prop :=
    exists d, declared = Some d /\ d <> given.
  (* incomplete operations *)
  Definition Incomplete (nodes : list (opfields T)) : Prop := exists o, In o nodes /\ In None o.
  (* builders used as context managers (`with cond:`, `with cond.add_case(i) as case:`, `with dfg.add_nested() ...`):
     the calls of the body run in sequence and are not caught.  Accepted c os c1: every call of os is accepted,
     taking the conditional from c to c1.  RaisesInside c body c1 e: the body's calls are accepted up to a call
     that is refused with e in state c1 (what follows it never runs).  The property's "raise an error, never
     silently accept" then means: an error leaves the outermost `with`, whatever contexts are in between. *)
  Variable teqb : T -> T -> bool.
  Inductive Accepted : cond T -> list (cond_op T) -> cond T -> Prop :=
  | Acc_nil : forall c, Accepted c [] c
  | Acc_cons : forall c o c1 r c2, cond_step T teqb c o = Ok c1 -> Accepted c1 r c2 -> Accepted c (o :: r) c2.
  Definition RaisesInside (c : cond T) (body : list (cond_op T)) (c1 : cond T) (e : eclass) : Prop :=
    exists pre o post, body = pre ++ o :: post /\ Accepted c pre c1 /\ cond_step T teqb c1 o = Err e.
End Rows.
Arguments CaseOutOfRange {T}. Arguments CaseBuiltTwice {T}. Arguments CasesDisagree {T}.
Arguments Accepted {T}. Arguments RaisesInside {T}.
Arguments UnbuiltCases {T}. Arguments ExitDisagrees {T}. Arguments OutputsDiffer {T}. Arguments Incomplete {T}.

(* polymorphic function called / loaded without a matching instantiation and argument count *)
Definition NoMatchingInstantiation (nparams : nat) (inst : bool) (ntargs : nat) : Prop :=
  nparams <> 0 /\ (inst = false \/ ntargs <> nparams).
(* a non-function port used as a function, a non-dataflow port used as a wire *)
Definition NotFunctionPort (k : pkind) : Prop := k <> KFunction.
Definition NotDataflowPort (k : pkind) : Prop := k <> KValue.
(* integers as wires *)
Definition HasIntegerWire (args : list arg) : Prop := exists i, In (AI i) args.
Definition NamesUntrackedWire (tr : tracked) (i : Z) : Prop :=
  (i < 0)%Z \/ nth_error tr (Z.to_nat i) = None \/ nth_error tr (Z.to_nat i) = Some None.
