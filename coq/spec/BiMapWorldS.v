(* Specification for the multi-object part of C18: every bidirectional map owns its state.  A world is the
   plain VALUES of the caller's seed mappings and of the live pairs of each map variable; a step changes the
   one component it addresses and nothing else (frame), and a constructed map starts from the content its
   source mapping has at that moment ("construction from a mapping").  Written independently of the heap model. *)
From Coq Require Import List Bool Arith.
Import ListNotations.
From HV Require Import lib.PyDict lib.Harness model.BiMapM model.BiMapHeap spec.BiMapS.

Section WorldSpec.
  Context {L R : Type} (leqb : L -> L -> bool) (reqb : R -> R -> bool).

  Record aworld := { a_seeds : list (list (L * R)); a_slots : list (option (list (L * R))) }.

  Fixpoint replace_nth {A} (n : nat) (x : A) (l : list A) : list A :=
    match n, l with
    | _, [] => []
    | O, _ :: r => x :: r
    | S n', y :: r => y :: replace_nth n' x r
    end.

  Definition a_slot (w : aworld) (i : nat) : option (list (L * R)) :=
    match nth_error (a_slots w) i with Some (Some p) => Some p | _ => None end.
  Definition a_src (w : aworld) (s : src) : option (list (L * R)) :=
    match s with
    | SrcNone => Some []
    | SrcSeed s => nth_error (a_seeds w) s
    | SrcMap i => a_slot w i
    end.
  (* the caller's seeds are ordinary Python dicts *)
  Definition a_seed_upd (w : aworld) (s : nat) (f : list (L * R) -> list (L * R)) : aworld :=
    match nth_error (a_seeds w) s with
    | Some m => {| a_seeds := replace_nth s (f m) (a_seeds w); a_slots := a_slots w |}
    | None => w
    end.

  Definition a_wstep (w : aworld) (o : @wop L R) : aworld * out :=
    match o with
    | WNew j s =>
        match a_src w s with
        | None => (w, Done)
        | Some m =>
            if j <? length (a_slots w) then
              match a_init reqb m with
              | None => (w, NotBijection)
              | Some p => ({| a_seeds := a_seeds w; a_slots := replace_nth j (Some p) (a_slots w) |}, Done)
              end
            else (w, Done)
        end
    | WOp i o =>
        match a_slot w i with
        | None => (w, Done)
        | Some p => let '(p', res) := a_step leqb reqb p o in
                    ({| a_seeds := a_seeds w; a_slots := replace_nth i (Some p') (a_slots w) |}, res)
        end
    | WSeedSet s k v => (a_seed_upd w s (fun m => dset leqb m k v), Done)
    | WSeedDel s k => (a_seed_upd w s (fun m => ddel leqb m k), Done)
    | WSeedClear s => (a_seed_upd w s (fun _ => []), Done)
    end.
  Definition a_wrun (w : aworld) (ops : list wop) : aworld := fold_left (fun s o => fst (a_wstep s o)) ops w.
  Definition aworld0 (seeds : list (list (L * R))) (nm : nat) : aworld :=
    {| a_seeds := seeds; a_slots := repeat None nm |}.
End WorldSpec.
