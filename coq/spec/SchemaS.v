(* C17 — the property statement, written without reference to how schemas are compared. *)
From Coq Require Import List Bool String Arith.
Import ListNotations.
From HV Require Import lib.Harness model.Schema.
Open Scope string_scope.

(* "a document is accepted by the one iff it is accepted by the other", for every definition name, every
   document and every recursion budget *)
Definition SameDocuments (p g : json) : Prop :=
  forall fuel name d, accepts fuel p name d = accepts fuel g name d.

(* the four file-name prefixes of scripts/generate_schema.py and the four model classes with get_version() *)
Definition file_prefixes : list string :=
  ["testing_hugr_schema_strict"; "testing_hugr_schema"; "hugr_schema_strict"; "hugr_schema"].
Definition model_names : list string := ["SerialHugr"; "TestingHugr"; "Extension"; "Package"].

Fixpoint slookup (k : string) (l : list (string * string)) : option string :=
  match l with [] => None | (k', v) :: r => if k =? k' then Some v else slookup k r end.

(* every model class reports `sv`; there is exactly one file per prefix and it is named <prefix>_<sv>.json *)
Definition files_named (sv : string) (files : list (string * string)) : bool :=
  Nat.eqb (List.length files) (List.length file_prefixes) &&
  forallb (fun p => match slookup p files with Some v => v =? sv | None => false end) file_prefixes.
Definition versions_agree_b (sv : string) (models published generated : list (string * string)) : bool :=
  negb (sv =? "") &&
  Nat.eqb (List.length models) (List.length model_names) &&
  forallb (fun m => match slookup m models with Some v => v =? sv | None => false end) model_names &&
  files_named sv published && files_named sv generated.

(* monitor for one document: verdict of the published schema vs verdict of the pydantic models.
   one_way (named exclusions: pydantic coerces / is more lenient by construction): only
   "published schema accepts -> pydantic accepts" is demanded. *)
Definition verdicts_agree (one_way : bool) (schema_ok pyd_ok : bool) : bool :=
  if one_way then implb schema_ok pyd_ok else Bool.eqb schema_ok pyd_ok.
