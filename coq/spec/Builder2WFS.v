(* C01 (third pass) — decidable premises on programs of the extended builder language (model/Builder2.v), computed
   from the program text alone.

   croot_ok p: no constant is placed at the root of a Hugr whose root is a Conditional.
   `load(value, const_parent=hugr.root)` puts the Const node under the root of the Hugr the builder works on; a
   Conditional may only have Case children (hugr-py does not raise; the document is invalid).  A program that is
   built separately and inserted (TInsert) has its own root.  The interpreter of harness/progs.py never asks for
   it (it falls back to the current container), so every generated program satisfies croot_ok. *)
From Coq Require Import NArith List Bool Arith.
Import ListNotations.
From HV Require Import lib.Harness model.Validity model.Builder model.Builder2.
Local Open Scope N_scope.

(* strict: the current Hugr is rooted in a Conditional *)
Fixpoint croot_stmt (strict : bool) (s : stmt2) {struct s} : bool :=
  match s with
  | TLoad _ _ CRoot _ => negb strict
  | TNested _ _ body _ => croot_region strict body
  | TLoop _ _ _ body _ => croot_region strict body
  | TCond _ _ _ cs _ => croot_cases strict cs
  | TInsert _ sub _ _ => croot_ok sub
  | _ => true
  end
with croot_region (strict : bool) (r : region2) {struct r} : bool :=
  match r with Reg _ body _ => croot_stmts strict body end
with croot_stmts (strict : bool) (l : stmts2) {struct l} : bool :=
  match l with TNil => true | TCons s r => croot_stmt strict s && croot_stmts strict r end
with croot_cases (strict : bool) (cs : cases2) {struct cs} : bool :=
  match cs with CNil => true | CCons _ r rest => croot_region strict r && croot_cases strict rest end
with croot_ok (p : prog2) {struct p} : bool :=
  match p with
  | QDfg _ body => croot_region false body
  | QLoop _ _ body => croot_region false body
  | QCond _ _ _ cs => croot_cases true cs
  end.
