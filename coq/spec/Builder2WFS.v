(* C01 (third pass) — decidable premises on programs of the extended builder language (model/Builder2.v), computed
   from the program text alone.

   croot_ok p: no constant is placed at the root of a Hugr whose root is a Conditional.
   `load(value, const_parent=hugr.root)` puts the Const node under the root of the Hugr the builder works on; a
   Conditional may only have Case children (hugr-py does not raise; the document is invalid).  A program that is
   built separately and inserted (TInsert) has its own root.  The interpreter of harness/progs.py never asks for
   it (it falls back to the current container), so every generated program satisfies croot_ok. *)
From Coq Require Import NArith List Bool Arith.
Import ListNotations.
From HV Require Import lib.Harness model.Validity model.Builder model.Builder2 spec.BuilderWFS.
Local Open Scope N_scope.

(* strict: the current Hugr is rooted in a Conditional *)
Fixpoint croot_stmt (strict : bool) (s : stmt2) {struct s} : bool :=
  match s with
  | TLoad _ _ CRoot _ => negb strict
  | TNested _ _ body _ => croot_region strict body
  | TLoop _ _ _ body _ => croot_region strict body
  | TCond _ _ _ cs _ => croot_cases strict cs
  | TInsert _ sub _ _ => croot_ok sub
  | _ => true
  end
with croot_region (strict : bool) (r : region2) {struct r} : bool :=
  match r with Reg _ body _ => croot_stmts strict body end
with croot_stmts (strict : bool) (l : stmts2) {struct l} : bool :=
  match l with TNil => true | TCons s r => croot_stmt strict s && croot_stmts strict r end
with croot_cases (strict : bool) (cs : cases2) {struct cs} : bool :=
  match cs with CNil => true | CCons _ r rest => croot_region strict r && croot_cases strict rest end
with croot_ok (p : prog2) {struct p} : bool :=
  match p with
  | QDfg _ body => croot_region false body
  | QLoop _ _ body => croot_region false body
  | QCond _ _ _ cs => croot_cases true cs
  end.

(* ------------------------------------------------------------------ a static type system for the extended language *)
(* wt_prog2 tys p, computed from the program text alone.  As wt_prog of spec/BuilderWFS.v (wires bound and typed,
   arguments of a fixed-signature operation have its input row, partial operations can be completed, Tags and
   constants agree with the type table, add_state_order joins nodes that have order ports), and further
   (hugr-py checks none of these):
     TLoop    the body's outputs are  Sum [just_inputs; just_outputs] :: rest  with `rest` the types of the rest wires
              (TailLoop._set_out_types asserts only the first variant row);
     TCond    the first wire has a sum type of the table; case i is typed with variant i ++ the other inputs; all
              cases give the same outputs (this one hugr-py does check, dynamically);
     TInsert  the separately built program is typed on its own, with NO access to the wires and statements of the
              enclosing program (they name nodes of another Hugr), its own wires and statements are dead afterwards
              (same reason), and the argument wires have the input row of its root operation;
     TCallInd the first wire has a function type of the table and the other wires have its input row;
     QCond    the root's sum type id is the table entry of its rows.
   The checker's environments mirror the interpreter's (harness/progs.py keeps one wire dictionary and one statement
   dictionary for the whole program): a dead entry shadows like a live one but cannot be used. *)
Definition senv := list (sid * bool).
Definition stmt_alive (S : senv) (r : nref) : bool :=
  match r with
  | RStmt s => match lookup S s with Some true => true | _ => false end
  | _ => true
  end.
Definition killw (G : tenv) : tenv := map (fun x => (fst x, @None tyid)) G.
Definition kills (S : senv) : senv := map (fun x => (fst x, false)) S.
(* G' = delta ++ (killed G): the entries added on top are killed, the entries of G come back *)
Definition splicew (G' G : tenv) : tenv := killw (firstn (length G' - length G) G') ++ G.
Definition splices (S' S : senv) : senv := kills (firstn (length S' - length S) S') ++ S.

Section WT2.
  Variable tys : list tyinfo.

  Fixpoint wt_stmt2 (s : stmt2) (G : tenv) (S : senv) {struct s} : option (tenv * senv) :=
    match s with
    | TOp id o args rs =>
        match wire_tys G args with
        | Some ts =>
            match completed_op tys o ts with
            | Ok op' => if row_eqb (val_in op') ts && opspec_ok tys o
                        then Some (tbind G rs (val_out op'), (id, true) :: S) else None
            | Err _ => None
            end
        | None => None
        end
    | TLoad id v _ r => if value_ok tys [] v then Some (tbind G [r] [value_ty v], (id, true) :: S) else None
    | TNested id args body rs =>
        match wire_tys G args with
        | Some ts => match wt_region2 body ts G S with
                     | Some (G', S', outs) => Some (tbind G' rs outs, (id, true) :: S')
                     | None => None
                     end
        | None => None
        end
    | TOrder src dst =>
        if order_ends_ok src dst && stmt_alive S src && stmt_alive S dst then Some (G, S) else None
    | TLoop id just rest body rs =>
        match wire_tys G just, wire_tys G rest with
        | Some jt, Some rt =>
            match wt_region2 body (jt ++ rt) G S with
            | Some (G', S', t :: rt') =>
                match nthN tys t with
                | Some (TSum _ [a; jo]) =>
                    if row_eqb a jt && row_eqb rt' rt then Some (tbind G' rs (jo ++ rt), (id, true) :: S') else None
                | _ => None
                end
            | _ => None
            end
        | _, _ => None
        end
    | TCond id cond args cs rs =>
        match wire_ty G cond, wire_tys G args with
        | Some t, Some others =>
            match nthN tys t with
            | Some (TSum _ rows) =>
                match wt_cases2 cs rows others G S None with
                | Some (G', S', Some outs) => Some (tbind G' rs outs, (id, true) :: S')
                | _ => None
                end
            | _ => None
            end
        | _, _ => None
        end
    | TInsert id sub args rs =>
        match wt_progx sub (killw G) (kills S) with
        | Some (Gs, Ss, (sin, sout)) =>
            let G1 := splicew Gs G in
            match wire_tys G1 args with
            | Some ts => if row_eqb ts sin then Some (tbind G1 rs sout, (id, true) :: splices Ss S) else None
            | None => None
            end
        | None => None
        end
    | TCallInd id args rs =>
        match wire_tys G args with
        | Some ts =>
            match completed_callind tys ts with
            | Ok op' => if row_eqb (val_in op') ts then Some (tbind G rs (val_out op'), (id, true) :: S) else None
            | Err _ => None
            end
        | None => None
        end
    end
  with wt_region2 (r : region2) (ins : row) (G : tenv) (S : senv) {struct r} : option (tenv * senv * row) :=
    match r with
    | Reg ws body outs =>
        match wt_stmts2 body (tbind G ws ins) S with
        | Some (G1, S1) => match wire_tys G1 outs with Some ts => Some (G1, S1, ts) | None => None end
        | None => None
        end
    end
  with wt_stmts2 (l : stmts2) (G : tenv) (S : senv) {struct l} : option (tenv * senv) :=
    match l with
    | TNil => Some (G, S)
    | TCons s r => match wt_stmt2 s G S with Some (G1, S1) => wt_stmts2 r G1 S1 | None => None end
    end
  with wt_cases2 (cs : cases2) (rows : list row) (others : row) (G : tenv) (S : senv) (cur : option row) {struct cs}
       : option (tenv * senv * option row) :=
    match cs with
    | CNil => Some (G, S, cur)
    | CCons i r rest =>
        match nthN rows i with
        | Some row =>
            match wt_region2 r (row ++ others) G S with
            | Some (G1, S1, outs) =>
                match cur with
                | None => wt_cases2 rest rows others G1 S1 (Some outs)
                | Some o => if row_eqb o outs then wt_cases2 rest rows others G1 S1 cur else None
                end
            | None => None
            end
        | None => None
        end
    end
  (* a program typed in the environments G, S; result: the environments and the outer signature of its root *)
  with wt_progx (p : prog2) (G : tenv) (S : senv) {struct p} : option (tenv * senv * (row * row)) :=
    match p with
    | QDfg ins body =>
        match wt_region2 body ins G S with
        | Some (G', S', outs) => Some (G', S', (ins, outs))
        | None => None
        end
    | QLoop just rest body =>
        match wt_region2 body (just ++ rest) G S with
        | Some (G', S', t :: rest') =>
            match nthN tys t with
            | Some (TSum _ [a; jo]) =>
                if row_eqb a just && row_eqb rest' rest then Some (G', S', (just ++ rest, jo ++ rest)) else None
            | _ => None
            end
        | _ => None
        end
    | QCond rows others sumty cs =>
        if is_sum_of tys sumty rows then
          match wt_cases2 cs rows others G S None with
          | Some (G', S', Some outs) => Some (G', S', (sumty :: others, outs))
          | _ => None
          end
        else None
    end.

  Definition wt_prog2 (p : prog2) : bool := is_some (wt_progx p [] []).
End WT2.
