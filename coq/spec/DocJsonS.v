(* C03 — index sanity as a reader of the JSON TEXT sees it (written against model/Schema.v's json only, with no
   reference to the serial records or to doc_json): `nodes` is a non-empty array of objects whose `parent` member
   is an integer; node 0 names itself; every other node names a node listed earlier; both endpoints of every edge
   ([[node, offset], [node, offset]]) name a listed node. *)
From Coq Require Import List Bool ZArith String.
Import ListNotations.
From HV Require Import lib.Harness model.Schema.
Open Scope string_scope.

Definition jget (k : string) (d : json) : option json := match d with JObj kvs => lookup k kvs | _ => None end.
Definition jparent (n : json) : option Z := match jget "parent" n with Some (JNum p) => Some p | _ => None end.
(* the nodes at positions k, k+1, ... name nodes at positions below their own *)
Fixpoint jparents_earlier (k : Z) (l : list json) : bool :=
  match l with
  | [] => true
  | x :: r => match jparent x with Some p => (0 <=? p)%Z && (p <? k)%Z | None => false end && jparents_earlier (k + 1)%Z r
  end.
Definition jendpoint (n : Z) (p : json) : bool :=
  match p with JArr (JNum i :: _) => (0 <=? i)%Z && (i <? n)%Z | _ => false end.
Definition json_index_sane (d : json) : bool :=
  match jget "nodes" d, jget "edges" d with
  | Some (JArr (r :: rest)), Some (JArr es) =>
      let n := Z.of_nat (S (List.length rest)) in
      match jparent r with Some p => Z.eqb p 0 | None => false end && jparents_earlier 1 rest &&
      forallb (fun e => match e with JArr [a; b] => jendpoint n a && jendpoint n b | _ => false end) es
  | _, _ => false
  end.
