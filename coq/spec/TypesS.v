(* Specification for C07: when every value of a type can be copied. *)
From Coq Require Import NArith List Bool Arith.
Import ListNotations.
From HV Require Import lib.Harness model.Types.

Inductive Copy : ty -> Prop :=
| CSum rows : Forall (Forall Copy) rows -> Copy (TSum rows)       (* every element of every variant *)
| CUnit n : Copy (TUnitSum n)
| CVar i : Copy (TVar i Copyable)                                 (* declared bound *)
| CRow i : Copy (TRowVar i Copyable)
| CUSize : Copy TUSize
| CAlias n : Copy (TAlias n Copyable)
| CFunc i o r : Copy (TFunc i o r)                                 (* function types are copyable *)
| CPoly ps i o r : Copy (TPoly ps i o r)
| COpaque e id a : Copy (TOpaque e id a Copyable)
| CExtExplicit d a c : td_bound d = Explicit Copyable -> Copy (TExt d a c)
| CExtParams d a c idx : td_bound d = FromParams idx ->
    Forall (fun i => forall t, nth_error a i = Some (AType t) -> Copy t) idx -> Copy (TExt d a c).
(* qubits are not: there is no constructor for TQubit, nor for the Any-bounded atoms *)

(* ---- boolean form (computes; used by the monitor), written without reference to [tbound] ---- *)
Fixpoint copy_b (t : ty) : bool :=
  let fix row (l : list ty) : bool := match l with [] => true | x :: r => copy_b x && row r end in
  let fix rows (l : list (list ty)) : bool := match l with [] => true | x :: r => row x && rows r end in
  (* the type argument at position i, if it is a type, must be copyable *)
  let fix at_arg (l : list tyarg) (i : nat) : bool :=
    match l, i with
    | [], _ => true
    | AType t' :: _, O => copy_b t'
    | _ :: _, O => true
    | _ :: r, S k => at_arg r k
    end in
  match t with
  | TSum rs => rows rs
  | TUnitSum _ | TUSize | TFunc _ _ _ | TPoly _ _ _ _ => true
  | TQubit => false
  | TVar _ b | TRowVar _ b | TAlias _ b | TOpaque _ _ _ b => bound_eqb b Copyable
  | TExt d a _ =>
      match td_bound d with
      | Explicit b => bound_eqb b Copyable
      | FromParams idx => (fix all (l : list nat) : bool := match l with [] => true | i :: r => at_arg a i && all r end) idx
      end
  end.

(* the order on bounds: Copyable below Any *)
Definition ble (a b : bound) : bool := match a, b with Any, Copyable => false | _, _ => true end.
Definition is_lub (bs : list bound) (j : bound) : Prop :=
  (forall b, In b bs -> ble b j = true) /\ (forall u, (forall b, In b bs -> ble b u = true) -> ble j u = true).

(* well-formedness (the property's quantifier: index lists in range; a std collection's element argument
   is a type): every index a from-parameters definition names exists in the argument list, hereditarily *)
Fixpoint wf_b (t : ty) : bool :=
  let fix row (l : list ty) : bool := match l with [] => true | x :: r => wf_b x && row r end in
  let fix rows (l : list (list ty)) : bool := match l with [] => true | x :: r => row x && rows r end in
  let fix args (l : list tyarg) : bool := match l with [] => true | x :: r => wf_arg x && args r end in
  match t with
  | TSum rs => rows rs
  | TFunc i o _ | TPoly _ i o _ => row i && row o
  | TOpaque _ _ a _ => args a
  | TExt d a c =>
      args a &&
      match td_bound d with
      | Explicit _ => true
      | FromParams idx => forallb (fun i => Nat.ltb i (length a)) idx
      end &&
      match c with
      | Generic => true
      | ElemAt i => match nth_error a i with Some (AType _) => true | _ => false end
      end
  | _ => true
  end
with wf_arg (a : tyarg) : bool :=
  let fix args (l : list tyarg) : bool := match l with [] => true | x :: r => wf_arg x && args r end in
  match a with
  | AType t => wf_b t
  | ASeq l => args l
  | _ => true
  end.
