(* Specification for C07: when every value of a type can be copied. *)
From Coq Require Import NArith List Bool Arith.
Import ListNotations.
From HV Require Import lib.Harness model.Types.

Inductive Copy : ty -> Prop :=
| CSum rows : Forall (Forall Copy) rows -> Copy (TSum rows)       (* every element of every variant *)
| CUnit n : Copy (TUnitSum n)
| CVar i : Copy (TVar i Copyable)                                 (* declared bound *)
| CRow i : Copy (TRowVar i Copyable)
| CUSize : Copy TUSize
| CAlias n : Copy (TAlias n Copyable)
| CFunc i o r : Copy (TFunc i o r)                                 (* function types are copyable *)
| CPoly ps i o r : Copy (TPoly ps i o r)
| COpaque e id a : Copy (TOpaque e id a Copyable)
| CExtExplicit d a c : td_bound d = Explicit Copyable -> Copy (TExt d a c)
| CExtParams d a c idx : td_bound d = FromParams idx ->
    Forall (fun i => forall t, nth_error a i = Some (AType t) -> Copy t) idx -> Copy (TExt d a c).
(* qubits are not: there is no constructor for TQubit, nor for the Any-bounded atoms *)
