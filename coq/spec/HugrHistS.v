(* Premises on the individual calls of a mutation history (C02, quantifier "all HUGRs reachable by ...
   arbitrary add/delete/insert mutation histories"), as booleans that compute on the store state the
   call is made in.  Written against the queries of model/Graph.v only (liveness, children, root, free
   stack) and, for the port premise, the reader's contract of spec/SerialHugrS.v.

   call_in_guard   the call is inside the guard of the graph store (C04): node arguments are live, link
                   offsets are >= -1, delete_node is applied to a childless node other than the root;
                   insert_hugr inserts, under a live parent, a HUGR that was itself built by basic calls
                   inside the guard without index reuse
   call_fresh      no index reuse: no freed index is pending when a node is added
   call_on_ports   add_link / add_order_link attach to ports the operations have (the premise of C03's
                   addressing clause, a premise about the caller's use of add_link) *)
From Coq Require Import List Bool Arith ZArith.
Import ListNotations.
From HV Require Import lib.PyDict lib.Harness model.BiMapM model.Graph model.SerialHugr spec.SerialHugrS model.HugrHist.

Section S.
  Context {Op Meta : Type}.
  Variables vports sports : Op -> dir -> nat.
  Variable has_order : Op -> bool.
  Notation store := (Graph.hugr Op Meta).

  Definition s_live (h : store) (n : nid) : bool :=
    match Graph.get_node h n with Some _ => true | None => false end.
  Definition pok (h : store) (p : Graph.port) : bool := s_live h (fst p) && Z.leb (-1) (snd p).
  Definition dfl (h : store) (p : option nid) : nid := match p with Some x => x | None => root h end.
  Definition is_nil {A} (l : list A) : bool := match l with [] => true | _ => false end.

  (* -- the basic calls -- *)
  Definition basic_adds (b : bcmd Op Meta) : bool :=
    match b with AddNode _ _ _ _ | AddConst _ _ _ => true | _ => false end.
  Definition basic_in_guard (h : store) (b : bcmd Op Meta) : bool :=
    match b with
    | AddNode _ p _ _ | AddConst _ p _ => s_live h (dfl h p)
    | AddLink s t => pok h s && pok h t
    | AddOrder a b => s_live h a && s_live h b
    | DelLink _ _ => true
    | DelNode n =>
        match Graph.get_node h n with
        | Some d => is_nil (nd_children d) && negb (Nat.eqb n (root h))
        | None => false
        end
    end.
  Definition basic_ok (h : store) (b : bcmd Op Meta) : bool :=
    basic_in_guard h b && (negb (basic_adds b) || is_nil (free h)).
  Definition link_on_ports (h : store) (s t : Graph.port) : bool :=
    port_exists vports sports has_order (view h) (vport s) DOut &&
    port_exists vports sports has_order (view h) (vport t) DIn.
  Definition basic_on_ports (h : store) (b : bcmd Op Meta) : bool :=
    match b with
    | AddLink s t => link_on_ports h s t
    | AddOrder a b => link_on_ports h (a, (-1)%Z) (b, (-1)%Z)
    | _ => true
    end.
  (* the history of an inserted HUGR: basic calls only, each in the state it is made in *)
  Fixpoint every_basic (P : store -> bcmd Op Meta -> bool) (h : store) (bs : list (bcmd Op Meta)) : bool :=
    match bs with
    | [] => true
    | b :: r => P h b && every_basic P (fst (fst (bstep h b))) r
    end.

  (* -- all calls -- *)
  Definition adds_node (c : hcmd Op Meta) : bool :=
    match c with HB b => basic_adds b | HSetMeta _ _ => false | HInsert _ _ _ _ => true end.
  Definition deletes_node (c : hcmd Op Meta) : bool :=
    match c with HB (DelNode _) => true | _ => false end.

  (* insert_hugr: the inserted HUGR was itself built inside the guard without index reuse, and the parent
     it is inserted under is live *)
  Definition call_in_guard (h : store) (c : hcmd Op Meta) : bool :=
    match c with
    | HB b => basic_in_guard h b
    | HSetMeta n _ => s_live h n
    | HInsert o m src p => every_basic basic_ok (init o m) src && s_live h (dfl h p)
    end.
  Definition call_fresh (h : store) (c : hcmd Op Meta) : bool := negb (adds_node c) || is_nil (free h).
  Definition call_ok (h : store) (c : hcmd Op Meta) : bool := call_in_guard h c && call_fresh h c.

  Definition call_on_ports (h : store) (c : hcmd Op Meta) : bool :=
    match c with
    | HB b => basic_on_ports h b
    | HSetMeta _ _ => true
    | HInsert o m src _ => every_basic basic_on_ports (init o m) src
    end.

  (* a premise checked at every call of a history, each in the state the call is made in *)
  Fixpoint every_call (P : store -> hcmd Op Meta -> bool) (h : store) (cs : list (hcmd Op Meta)) : bool :=
    match cs with
    | [] => true
    | c :: r => P h c && every_call P (fst (hstep h c)) r
    end.
  (* histories without index reuse, inside the guard *)
  Definition hist_ok := every_call call_ok.
  Definition hist_in_guard := every_call call_in_guard.
  Definition hist_on_ports := every_call call_on_ports.

  (* the syntactic form of "no index reuse": no node is added after a node was deleted *)
  Fixpoint no_add_after_delete (cs : list (hcmd Op Meta)) : bool :=
    match cs with
    | [] => true
    | c :: r => if deletes_node c then forallb (fun c' => negb (adds_node c')) r else no_add_after_delete r
    end.

  (* every call of the history returned normally *)
  Fixpoint all_return (h : store) (cs : list (hcmd Op Meta)) : bool :=
    match cs with
    | [] => true
    | c :: r => res_eqb (snd (hstep h c)) Ok && all_return (fst (hstep h c)) r
    end.
End S.
