(* Specification for C16: Python's own indexing and slicing semantics, written independently
   of node_port.py (CPython: PySlice_AdjustIndices, sequence index normalisation). *)
From Coq Require Import ZArith List Bool.
Import ListNotations.
From HV Require Import model.NodeIndex.
Open Scope Z_scope.

(* range(n)[i] *)
Definition py_index (n i : Z) : res Z :=
  if (- n <=? i) && (i <? n) then Ok (if i <? 0 then n + i else i) else Err IndexError.

(* PySlice_AdjustIndices for step > 0 on a sequence of length n *)
Definition adj (n : Z) (x : option Z) (dflt : Z) : Z :=
  match x with
  | None => dflt
  | Some v => if v <? 0 then Z.max (v + n) 0 else Z.min v n
  end.
Definition step_of (step : option Z) : Z := match step with None => 1 | Some s => s end.
(* range(n)[start:stop:step] *)
Definition py_slice (n : Z) (start stop step : option Z) : list Z :=
  zrange (adj n start 0) (adj n stop n) (step_of step).

Definition below (n : Z) (x : option Z) : bool := match x with None => false | Some v => v <? - n end.

(* what the property promises for a slice on a handle with n outputs *)
Definition slice_spec (n : Z) (start stop step : option Z) : res (list Z) :=
  if below n start || below n stop then Err IndexError else Ok (py_slice n start stop step).

(* a second, pointwise reading of range(n)[start:stop:step]: membership *)
Definition in_py_slice (n : Z) (start stop step : option Z) (j : Z) : Prop :=
  adj n start 0 <= j < adj n stop n /\ (j - adj n start 0) mod step_of step = 0.

(* ---- "knows how many value outputs it has": the number of value outputs of an operation ----
   = length of the output row of its dataflow signature.  For Call that signature is the polymorphic body
   with the type arguments substituted: a row variable stands for as many types as its sequence argument
   holds, so the count may be larger or smaller than the length of the body's output row.
   None = the shape is ill-typed (variable index out of range or of the wrong kind). *)
Definition item_len (args : list targ) (it : rowitem) : option Z :=
  match it with
  | RTy => Some 1
  | RVar i => match nth_error args i with Some ATy => Some 1 | _ => None end
  | RRow i => match nth_error args i with Some (ASeq len) => Some (Z.of_nat len) | _ => None end
  end.
Fixpoint inst_len (args : list targ) (row : list rowitem) : option Z :=
  match row with
  | [] => Some 0
  | it :: r =>
      match item_len args it, inst_len args r with
      | Some a, Some b => Some (a + b)
      | _, _ => None
      end
  end.
Definition value_outputs (s : opshape) : option Z :=
  match s with
  | SSig _ nout => Some nout
  | SUnpack k => Some k
  | SPack _ => Some 1
  | SUnary => Some 1
  | SCall body_out args _ => inst_len args body_out
  | SDfg outs => Some outs
  | SLoop j r => Some (j + r)
  end.
(* guard: counts are lengths, and the instantiation handed to `call` is the substitution instance *)
Definition shape_wf (s : opshape) : bool :=
  match s with
  | SSig nin nout => (0 <=? nin) && (0 <=? nout)
  | SUnpack k | SPack k | SDfg k => 0 <=? k
  | SUnary => true
  | SCall body_out args inst_out =>
      match inst_len args body_out with Some n => Z.eqb n inst_out | None => false end
  | SLoop j r => (0 <=? j) && (0 <=? r)
  end.

(* ---- a node made from an operation of a given kind wired to inputs of given types: its value outputs ----
   Written from the operations' dataflow signatures, without reference to the operation object's history:
   UnpackTuple of a k-tuple has k outputs, CallIndirect of a function value nin -> nout (followed by its nin
   arguments) has nout, MakeTuple / Noop have one, an operation carrying its signature has that signature's. *)
Inductive okind := KUnpack | KCallInd | KMake | KNoop | KFixed (nout : Z).
Definition kind_of (o : opobj) : okind :=
  match o with OUnpack _ => KUnpack | OCallInd _ => KCallInd | OMake _ => KMake | ONoop _ => KNoop | OFixed n => KFixed n end.
Definition wty_wf (w : wty) : bool :=
  match w with WVal => true | WTup k => 0 <=? k | WFn a b => (0 <=? a) && (0 <=? b) end.
Definition use_outputs (k : okind) (ws : list wty) : option Z :=
  match k, ws with
  | KUnpack, [WTup n] => Some n
  | KCallInd, WFn a b :: args => if Z.of_nat (length args) =? a then Some b else None
  | KMake, _ => Some 1
  | KNoop, [_] => Some 1
  | KFixed n, _ => Some n
  | _, _ => None
  end.
(* guard: the wiring fits the kind of operation and every count is a length *)
Definition use_wf (k : okind) (ws : list wty) : bool :=
  forallb wty_wf ws &&
  match k with KFixed n => 0 <=? n | _ => true end &&
  match use_outputs k ws with Some _ => true | None => false end.
