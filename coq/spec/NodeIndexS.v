(* Specification for C16: Python's own indexing and slicing semantics, written independently
   of node_port.py (CPython: PySlice_AdjustIndices, sequence index normalisation). *)
From Coq Require Import ZArith List Bool.
Import ListNotations.
From HV Require Import model.NodeIndex.
Open Scope Z_scope.

(* range(n)[i] *)
Definition py_index (n i : Z) : res Z :=
  if (- n <=? i) && (i <? n) then Ok (if i <? 0 then n + i else i) else Err IndexError.

(* PySlice_AdjustIndices for step > 0 on a sequence of length n *)
Definition adj (n : Z) (x : option Z) (dflt : Z) : Z :=
  match x with
  | None => dflt
  | Some v => if v <? 0 then Z.max (v + n) 0 else Z.min v n
  end.
Definition step_of (step : option Z) : Z := match step with None => 1 | Some s => s end.
(* range(n)[start:stop:step] *)
Definition py_slice (n : Z) (start stop step : option Z) : list Z :=
  zrange (adj n start 0) (adj n stop n) (step_of step).

Definition below (n : Z) (x : option Z) : bool := match x with None => false | Some v => v <? - n end.

(* what the property promises for a slice on a handle with n outputs *)
Definition slice_spec (n : Z) (start stop step : option Z) : res (list Z) :=
  if below n start || below n stop then Err IndexError else Ok (py_slice n start stop step).

(* a second, pointwise reading of range(n)[start:stop:step]: membership *)
Definition in_py_slice (n : Z) (start stop step : option Z) (j : Z) : Prop :=
  adj n start 0 <= j < adj n stop n /\ (j - adj n start 0) mod step_of step = 0.
