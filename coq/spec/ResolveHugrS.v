(* C11, second pass — specification of `Hugr.resolve_extensions` on the whole HUGR, written against the
   property text and not against the functions of model/ResolveHugr.v (it uses the data types only, and the
   per-operation relations of spec/ResolveS.v).

   "Resolving against a registry replaces an opaque operation of a HUGR (together with the opaque types in its
   signature and type arguments) by its definition-backed form exactly when the registry holds an extension of
   that name containing a definition of that name, and leaves everything else untouched ... changes neither the
   serialized document ... nor signatures, port types or type bounds, except that an operation's free-text
   description may be replaced by its definition's, and resolving twice equals resolving once." *)
From Coq Require Import NArith List Bool Arith.
Import ListNotations.
From HV Require Import lib.Harness model.Types model.Resolve spec.ResolveS model.SerialHugr model.ResolveHugr.

(* ------------------------------------------------------------------ the frame: everything but the operations *)
Definition node_frame {A B M} (n : node A M) (n' : node B M) : Prop :=
  n_parent n' = n_parent n /\ n_children n' = n_children n /\ n_md n' = n_md n /\
  n_nin n' = n_nin n /\ n_nout n' = n_nout n.
(* a relation on live nodes lifted to the slots of the node table: holes stay holes, live nodes stay live *)
Inductive slot_rel {A B} (R : A -> B -> Prop) : option A -> option B -> Prop :=
| SRHole : slot_rel R None None
| SRLive a b : R a b -> slot_rel R (Some a) (Some b).
Definition same_frame {A B M} (h : hugr A M) (h' : hugr B M) : Prop :=
  h_root h' = h_root h /\ h_links h' = h_links h /\ Forall2 (slot_rel node_frame) (h_nodes h) (h_nodes h').

(* ------------------------------------------------------------------ "exactly the resolvable operations replaced" *)
(* at every node of the HUGR being resolved; the HUGRs held by function values inside constants are not nodes of
   it: they belong to "everything else" *)
Inductive RHop (reg : registry) : hop -> hop -> Prop :=
| RHOp o o' : ROp reg o o' -> RHop reg (HOp o) (HOp o')
| RHOther k a b l : RHop reg (HOther k a b l) (HOther k a b l)
(* a constant is part of the frame, whatever its value holds (the HUGRs of function values included) *)
| RHConst v : RHop reg (HConst v) (HConst v).
Definition RNode (reg : registry) (n n' : nodeT) : Prop := node_frame n n' /\ RHop reg (n_op n) (n_op n').
Definition RHugr (reg : registry) (h h' : hugrT) : Prop :=
  h_root h' = h_root h /\ h_links h' = h_links h /\ Forall2 (slot_rel (RNode reg)) (h_nodes h) (h_nodes h').

(* ------------------------------------------------------------------ decidable equalities and the relation, computing *)
Definition aoff_eqb (a b : aoff) : bool :=
  match a, b with AOrder, AOrder => true | APort x, APort y => Nat.eqb x y | _, _ => false end.
Definition port_eqb (a b : port) : bool := Nat.eqb (fst a) (fst b) && aoff_eqb (snd a) (snd b).
Definition link_eqb (a b : link) : bool := port_eqb (fst a) (fst b) && port_eqb (snd a) (snd b).
Definition node_frame_b {A B} (n : node A md) (n' : node B md) : bool :=
  option_eqb Nat.eqb (n_parent n') (n_parent n) && list_eqb Nat.eqb (n_children n') (n_children n) &&
  N.eqb (n_md n') (n_md n) && Nat.eqb (n_nin n') (n_nin n) && Nat.eqb (n_nout n') (n_nout n).

Fixpoint hop_eqb (a b : hop) : bool :=
  match a, b with
  | HOp x, HOp y => op_eqb x y
  | HOther k i o l, HOther k' i' o' l' =>
      N.eqb k k' && option_eqb Nat.eqb i i' && option_eqb Nat.eqb o o' && list_eqb (option_eqb ty_eqb) l l'
  | HConst v, HConst w => cval_eqb v w
  | _, _ => false
  end
with cval_eqb (v w : cval) : bool :=
  let fix vals (l m : list cval) : bool :=
    match l, m with [], [] => true | x :: r, y :: s => cval_eqb x y && vals r s | _, _ => false end in
  let fix slots (l m : list (option nodeT)) : bool :=
    match l, m with
    | [], [] => true
    | None :: r, None :: s => slots r s
    | Some n :: r, Some n' :: s => node_frame_b n n' && hop_eqb (n_op n) (n_op n') && slots r s
    | _, _ => false
    end in
  match v, w with
  | VFunc b, VFunc b' =>
      Nat.eqb (h_root b') (h_root b) && list_eqb link_eqb (h_links b') (h_links b) && slots (h_nodes b) (h_nodes b')
  | VSum k vs, VSum k' vs' => N.eqb k k' && vals vs vs'
  | VLeaf k, VLeaf k' => N.eqb k k'
  | _, _ => false
  end.
Definition slot_eqb (x y : option nodeT) : bool :=
  match x, y with
  | None, None => true
  | Some n, Some n' => node_frame_b n n' && hop_eqb (n_op n) (n_op n')
  | _, _ => false
  end.
Definition hugr_eqb (h h' : hugrT) : bool :=
  Nat.eqb (h_root h') (h_root h) && list_eqb link_eqb (h_links h') (h_links h) && list_eqb slot_eqb (h_nodes h) (h_nodes h').

Definition rhop_b (reg : registry) (a b : hop) : bool :=
  match a, b with
  | HOp x, HOp y => rop_b reg x y
  | _, _ => hop_eqb a b
  end.
Definition rslot_b (reg : registry) (x y : option nodeT) : bool :=
  match x, y with
  | None, None => true
  | Some n, Some n' => node_frame_b n n' && rhop_b reg (n_op n) (n_op n')
  | _, _ => false
  end.
Definition rhugr_b (reg : registry) (h h' : hugrT) : bool :=
  Nat.eqb (h_root h') (h_root h) && list_eqb link_eqb (h_links h') (h_links h) &&
  list_eqb (rslot_b reg) (h_nodes h) (h_nodes h').

(* ------------------------------------------------------------------ predicates on the operations of the HUGR's nodes *)
(* p holds of the node's operation if it is one of model/Resolve.v (Custom / ExtOp); the operations inside the
   HUGRs of constants are not operations of the HUGR *)
Definition hop_holds (p : op -> bool) (o : hop) : bool :=
  match o with HOp x => p x | _ => true end.
Definition hugr_all (p : op -> bool) (h : hugrT) : bool :=
  forallb (fun x => match x with Some n => hop_holds p (n_op n) | None => true end) (h_nodes h).

(* nothing the registry could resolve: not an opaque operation with a definition *)
Definition untouchable_op (reg : registry) (o : op) : bool :=
  match o with OCustom c => negb (resolvable_op_b reg (c_ext c) (c_name c)) | _ => true end.
(* the guard of the per-operation encoding theorems, at every node *)
Definition consistent_hugr (reg : registry) : hugrT -> bool := hugr_all (consistent_op reg).

(* the implementation kept the loaded description of this operation (true of everything that is not an opaque
   operation: there is nothing to choose) *)
Definition keeps_descr (keep : descr_choice) (o : op) : bool :=
  match o with OCustom c => keep c | _ => true end.

(* ------------------------------------------------------------------ the serialised document *)
(* two documents agree except, possibly, in descriptions of Extension operations at the nodes of the document, each
   then being the description of a definition filed under the operation's name; constants (with the documents of
   their function values) are identical *)
Inductive SameSop (reg : registry) : sop -> sop -> Prop :=
| SSOp a b : same_but_descr reg a b -> SameSop reg (SOp a) (SOp b)
| SSOther k : SameSop reg (SOther k) (SOther k)
(* the serial form of a constant, the documents of its function values included, is identical *)
| SSConst v : SameSop reg (SConst v) (SConst v).
Definition SameDoc (reg : registry) (d d' : serialT) : Prop :=
  s_edges d' = s_edges d /\ s_meta d' = s_meta d /\
  Forall2 (fun a b => s_parent b = s_parent a /\ SameSop reg (s_op a) (s_op b)) (s_nodes d) (s_nodes d').

Definition sport_eqb (a b : sport) : bool := Nat.eqb (fst a) (fst b) && option_eqb Nat.eqb (snd a) (snd b).
Definition sedge_eqb (a b : sedge) : bool := sport_eqb (fst a) (fst b) && sport_eqb (snd a) (snd b).
Definition smeta_eqb (a b : option (list (option md))) : bool := option_eqb (list_eqb (option_eqb N.eqb)) a b.

Section SopRel.
  (* rel = op_eqb: plain equality of serial operations / values / documents *)
  Variable rel : op -> op -> bool.
  Fixpoint sop_rel (a b : sop) : bool :=
    match a, b with
    | SOp x, SOp y => rel x y
    | SOther k, SOther k' => N.eqb k k'
    | SConst v, SConst w => sval_rel v w
    | _, _ => false
    end
  with sval_rel (v w : sval) : bool :=
    let fix vals (l m : list sval) : bool :=
      match l, m with [], [] => true | x :: r, y :: s => sval_rel x y && vals r s | _, _ => false end in
    let fix nodes (l m : list (snode sop)) : bool :=
      match l, m with
      | [], [] => true
      | a :: r, b :: s => Nat.eqb (s_parent b) (s_parent a) && sop_rel (s_op a) (s_op b) && nodes r s
      | _, _ => false
      end in
    match v, w with
    | SVFunc d, SVFunc d' =>
        list_eqb sedge_eqb (s_edges d') (s_edges d) && smeta_eqb (s_meta d') (s_meta d) && nodes (s_nodes d) (s_nodes d')
    | SVSum k vs, SVSum k' vs' => N.eqb k k' && vals vs vs'
    | SVLeaf k, SVLeaf k' => N.eqb k k'
    | _, _ => false
    end.
  Definition doc_rel (d d' : serialT) : bool :=
    list_eqb sedge_eqb (s_edges d') (s_edges d) && smeta_eqb (s_meta d') (s_meta d) &&
    list_eqb (fun a b => Nat.eqb (s_parent b) (s_parent a) && sop_rel (s_op a) (s_op b)) (s_nodes d) (s_nodes d').
End SopRel.
Definition sop_eqb : sop -> sop -> bool := sop_rel op_eqb.
Definition same_sop_b (reg : registry) (a b : sop) : bool :=
  match a, b with
  | SOp x, SOp y => same_but_descr_b reg x y
  | _, _ => sop_eqb a b
  end.
Definition same_doc_b (reg : registry) (d d' : serialT) : bool :=
  list_eqb sedge_eqb (s_edges d') (s_edges d) && smeta_eqb (s_meta d') (s_meta d) &&
  list_eqb (fun a b => Nat.eqb (s_parent b) (s_parent a) && same_sop_b reg (s_op a) (s_op b)) (s_nodes d) (s_nodes d').
Definition doc_eqb : serialT -> serialT -> bool := doc_rel op_eqb.

(* ------------------------------------------------------------------ port types *)
(* the type an out port shows after resolution is the type it showed before, or that type with exactly its
   resolvable opaque types replaced *)
Definition port_type_rel (reg : registry) (before after : option ty) : Prop :=
  after = before \/ exists t t', before = Some t /\ after = Some t' /\ RTy reg t t'.
Definition port_type_rel_b (reg : registry) (before after : option ty) : bool :=
  option_eqb ty_eqb after before ||
  match before, after with Some t, Some t' => rty_b reg t t' | _, _ => false end.

(* ------------------------------------------------------------------ every depth, at HUGR level *)
(* an operation as loading produces it: opaque, without definition-backed types in signature and arguments *)
Definition op_loaded (o : op) : bool :=
  match o with
  | OCustom c => forallb no_ext (ft_in (c_sig c)) && forallb no_ext (ft_out (c_sig c)) && forallb no_ext_arg (c_args c)
  | OExt _ => false
  | OOther _ => true
  end.
(* a definition-backed operation holds no opaque type the registry could resolve, at any depth of its signature
   and type arguments *)
Definition op_clean (reg : registry) (o : op) : bool :=
  match o with
  | OExt x => forallb (clean reg) (ft_in (x_sig x)) && forallb (clean reg) (ft_out (x_sig x)) &&
              forallb (clean_arg reg) (x_args x)
  | _ => true
  end.
