(* Specification for C08: inserting B into A along the returned node mapping is an isomorphic embedding
   of B (operations, hierarchy with child order, metadata, output port counts, every link with its
   offsets and multiplicity, order links included; the image of B's root hangs under the requested
   parent) and a frame for A (every node and link A had is unchanged, except that the parent gains the
   image of B's root as its last child).  Stated on the abstract graphs of spec/GraphS.v, independently
   of the implementation's algorithm.  [extra] are the wires a builder wrapper attaches afterwards. *)
From Coq Require Import List Bool Arith ZArith.
Import ListNotations.
From HV Require Import lib.PyDict lib.Harness model.BiMapM model.Graph spec.GraphS.

Section I.
  Context {Op Meta : Type} (op_eqb : Op -> Op -> bool) (meta_eqb : Meta -> Meta -> bool).
  Notation agraph := (agraph Op Meta).
  Notation anode := (anode Op Meta).
  Notation aget := (dget Nat.eqb).

  Definition mapl (mp : list (nid * nid)) (l : port * port) : port * port := (mapp mp (fst l), mapp mp (snd l)).

  (* the mapping is a bijection from the nodes of B onto fresh nodes, and A' has exactly A's nodes and those *)
  Definition mapping_bij_b (A B A' : agraph) (mp : list (nid * nid)) : bool :=
    nodupb Nat.eqb (map fst mp) && nodupb Nat.eqb (map snd mp) &&
    seteq_b Nat.eqb (map fst mp) (map fst (a_nodes B)) &&
    forallb (fun x => negb (a_live A x)) (map snd mp) &&
    seteq_b Nat.eqb (map fst (a_nodes A')) (map fst (a_nodes A) ++ map snd mp) &&
    nodupb Nat.eqb (map fst (a_nodes A')).

  (* one node of B and its image; [wrapped]: a builder wrapper may re-declare the port counts of the image of
     the root from the operation's signature *)
  Definition iso_node_b (B A' : agraph) (mp : list (nid * nid)) (p : nid) (wrapped : bool) (nb : nid * anode) : bool :=
    let (n, b) := nb in
    match aget (a_nodes A') (mapn mp n) with
    | None => false
    | Some a' =>
        op_eqb (a_op a') (a_op b) && meta_eqb (a_meta a') (a_meta b) &&
        option_eqb Nat.eqb (a_parent a')
                   (if Nat.eqb n (a_root B) then Some p else option_map (mapn mp) (a_parent b)) &&
        list_eqb Nat.eqb (a_children a') (map (mapn mp) (a_children b)) &&
        ((wrapped && Nat.eqb n (a_root B)) || Z.eqb (a_nout a') (a_nout b))
    end.

  (* every link of B, with offsets and multiplicity, and nothing else besides A's own links (and the wires) *)
  Definition links_b (A B A' : agraph) (mp : list (nid * nid)) (extra : list (port * port)) : bool :=
    perm_eqb link_eqb (a_links A') (a_links A ++ map (mapl mp) (a_links B) ++ extra).

  Definition bump_out (n : nid) (extra : list (port * port)) (k : Z) : Z :=
    fold_left (fun acc l => if Nat.eqb (fst (fst l)) n then Z.max acc (snd (fst l) + 1) else acc) extra k.
  Definition bump_in (n : nid) (extra : list (port * port)) (k : Z) : Z :=
    fold_left (fun acc l => if Nat.eqb (fst (snd l)) n then Z.max acc (snd (snd l) + 1) else acc) extra k.
  (* one node of A: unchanged, except that the parent gains the image of B's root as its last child
     (and the declared counts cover the wires attached by a wrapper) *)
  Definition frame_node_b (B A' : agraph) (mp : list (nid * nid)) (p : nid) (extra : list (port * port))
             (na : nid * anode) : bool :=
    let (n, a) := na in
    match aget (a_nodes A') n with
    | None => false
    | Some a' =>
        op_eqb (a_op a') (a_op a) && meta_eqb (a_meta a') (a_meta a) &&
        option_eqb Nat.eqb (a_parent a') (a_parent a) &&
        list_eqb Nat.eqb (a_children a')
                 (if Nat.eqb n p then a_children a ++ [mapn mp (a_root B)] else a_children a) &&
        Z.eqb (a_nin a') (bump_in n extra (a_nin a)) && Z.eqb (a_nout a') (bump_out n extra (a_nout a))
    end.

  Definition insert_iso_b (A B A' : agraph) mp p wrapped extra : bool :=
    mapping_bij_b A B A' mp && forallb (iso_node_b B A' mp p wrapped) (a_nodes B) && links_b A B A' mp extra.
  Definition insert_frame_b (A B A' : agraph) mp p extra : bool :=
    a_live A p && forallb (frame_node_b B A' mp p extra) (a_nodes A) && Nat.eqb (a_root A') (a_root A).
  Definition insert_spec_b (A B A' : agraph) mp p wrapped extra : bool :=
    insert_iso_b A B A' mp p wrapped extra && insert_frame_b A B A' mp p extra.
End I.
