(* Specification for C08: inserting B into A along the returned node mapping is an isomorphic embedding
   of B (operations, hierarchy with child order, metadata, output port counts, every link with its
   offsets and multiplicity, order links included; the image of B's root hangs under the requested
   parent) and a frame for A (every node and link A had is unchanged, except that the parent gains the
   image of B's root as its last child).  Stated on the abstract graphs of spec/GraphS.v, independently
   of the implementation's algorithm.  [extra] are the wires a builder wrapper attaches afterwards. *)
From Coq Require Import List Bool Arith ZArith.
Import ListNotations.
From HV Require Import lib.PyDict lib.Harness model.BiMapM model.Graph spec.GraphS.

Section I.
  Context {Op Meta : Type} (op_eqb : Op -> Op -> bool) (meta_eqb : Meta -> Meta -> bool).
  Notation agraph := (agraph Op Meta).
  Notation anode := (anode Op Meta).
  Notation aget := (dget Nat.eqb).

  Definition mapl (mp : list (nid * nid)) (l : port * port) : port * port := (mapp mp (fst l), mapp mp (snd l)).

  (* the mapping is a bijection from the nodes of B onto fresh nodes, and A' has exactly A's nodes and those *)
  Definition mapping_bij_b (A B A' : agraph) (mp : list (nid * nid)) : bool :=
    nodupb Nat.eqb (map fst mp) && nodupb Nat.eqb (map snd mp) &&
    seteq_b Nat.eqb (map fst mp) (map fst (a_nodes B)) &&
    forallb (fun x => negb (a_live A x)) (map snd mp) &&
    seteq_b Nat.eqb (map fst (a_nodes A')) (map fst (a_nodes A) ++ map snd mp) &&
    nodupb Nat.eqb (map fst (a_nodes A')).

  (* one node of B and its image; [wrapped]: a builder wrapper may re-declare the port counts of the image of
     the root from the operation's signature *)
  Definition iso_node_b (B A' : agraph) (mp : list (nid * nid)) (p : nid) (wrapped : bool) (nb : nid * anode) : bool :=
    let (n, b) := nb in
    match aget (a_nodes A') (mapn mp n) with
    | None => false
    | Some a' =>
        op_eqb (a_op a') (a_op b) && meta_eqb (a_meta a') (a_meta b) &&
        option_eqb Nat.eqb (a_parent a')
                   (if Nat.eqb n (a_root B) then Some p else option_map (mapn mp) (a_parent b)) &&
        list_eqb Nat.eqb (a_children a') (map (mapn mp) (a_children b)) &&
        ((wrapped && Nat.eqb n (a_root B)) || Z.eqb (a_nout a') (a_nout b))
    end.

  (* every link of B, with offsets and multiplicity, and nothing else besides A's own links (and the wires) *)
  Definition links_b (A B A' : agraph) (mp : list (nid * nid)) (extra : list (port * port)) : bool :=
    perm_eqb link_eqb (a_links A') (a_links A ++ map (mapl mp) (a_links B) ++ extra).

  Definition bump_out (n : nid) (extra : list (port * port)) (k : Z) : Z :=
    fold_left (fun acc l => if Nat.eqb (fst (fst l)) n then Z.max acc (snd (fst l) + 1) else acc) extra k.
  Definition bump_in (n : nid) (extra : list (port * port)) (k : Z) : Z :=
    fold_left (fun acc l => if Nat.eqb (fst (snd l)) n then Z.max acc (snd (snd l) + 1) else acc) extra k.
  (* one node of A: unchanged, except that the parent gains the image of B's root as its last child
     (and the declared counts cover the wires attached by a wrapper) *)
  Definition frame_node_b (B A' : agraph) (mp : list (nid * nid)) (p : nid) (extra : list (port * port))
             (na : nid * anode) : bool :=
    let (n, a) := na in
    match aget (a_nodes A') n with
    | None => false
    | Some a' =>
        op_eqb (a_op a') (a_op a) && meta_eqb (a_meta a') (a_meta a) &&
        option_eqb Nat.eqb (a_parent a') (a_parent a) &&
        list_eqb Nat.eqb (a_children a')
                 (if Nat.eqb n p then a_children a ++ [mapn mp (a_root B)] else a_children a) &&
        Z.eqb (a_nin a') (bump_in n extra (a_nin a)) && Z.eqb (a_nout a') (bump_out n extra (a_nout a))
    end.

  Definition insert_iso_b (A B A' : agraph) mp p wrapped extra : bool :=
    mapping_bij_b A B A' mp && forallb (iso_node_b B A' mp p wrapped) (a_nodes B) && links_b A B A' mp extra.
  Definition insert_frame_b (A B A' : agraph) mp p extra : bool :=
    a_live A p && forallb (frame_node_b B A' mp p extra) (a_nodes A) && Nat.eqb (a_root A') (a_root A).
  Definition insert_spec_b (A B A' : agraph) mp p wrapped extra : bool :=
    insert_iso_b A B A' mp p wrapped extra && insert_frame_b A B A' mp p extra.
End I.

(* The wires a builder wrapper (insert_nested / insert_cfg / insert_conditional / insert_tail_loop) attaches to the
   image r' of B's root, which hangs under p.  Stated on the graph A as it was BEFORE the call:
   - wire i ends in r'.inp(i): one link per wire, offsets 0, 1, ...;
   - a wire whose source s is a child of p (a sibling of r') brings nothing else;
   - a wire from an enclosing region (s is a child of a proper ancestor q of p) is an inter-graph edge and is
     accompanied by the state order link s -> a, where a is the ancestor-or-self of p that is a child of q
     (the sibling of s below which the wire enters); that link is a SET element: it is added once however many
     wires ask for it and not at all when A already has it;
   - a source that is neither (no ancestor of p is its sibling, or it is the root) is outside the guard
     (the builder raises NoSiblingAncestor). *)
Fixpoint wire_links (node : nid) (i : Z) (ws : list port) : list (port * port) :=
  match ws with [] => [] | w :: r => (w, (node, i)) :: wire_links node (i + 1) r end.
(* first occurrences only *)
Fixpoint dedup {X} (eqb : X -> X -> bool) (l : list X) : list X :=
  match l with [] => [] | x :: r => x :: filter (fun y => negb (eqb y x)) (dedup eqb r) end.

Section W.
  Context {Op Meta : Type}.
  Notation agraph := (agraph Op Meta).
  Notation aget := (dget Nat.eqb).

  (* the ancestor-or-self of t whose parent is sp (fuel: the number of nodes; the walk visits each at most once) *)
  Fixpoint sibling_ancestor (fuel : nat) (A : agraph) (sp t : nid) : option nid :=
    match fuel with
    | 0 => None
    | S f => match aget (a_nodes A) t with
             | Some d => match a_parent d with
                         | Some tp => if Nat.eqb tp sp then Some t else sibling_ancestor f A sp tp
                         | None => None
                         end
             | None => None
             end
    end.
  (* None: outside the guard; Some None: a sibling of the inserted root; Some (Some a): from an enclosing region,
     entering below a *)
  Definition wire_anchor (A : agraph) (p s : nid) : option (option nid) :=
    match aget (a_nodes A) s with
    | Some ds => match a_parent ds with
                 | Some sp => if Nat.eqb sp p then Some None
                              else option_map Some (sibling_ancestor (length (a_nodes A)) A sp p)
                 | None => None
                 end
    | None => None
    end.
  Definition wires_guard (A : agraph) (p : nid) (ws : list port) : bool :=
    forallb (fun w => match wire_anchor A p (fst w) with Some _ => Z.leb (-1) (snd w) | None => false end) ws.
  Definition order_of_wire (A : agraph) (p : nid) (w : port) : list (port * port) :=
    match wire_anchor A p (fst w) with
    | Some (Some a) => [((fst w, (-1)%Z), (a, (-1)%Z))]
    | _ => []
    end.
  Definition wires_order (A : agraph) (p : nid) (ws : list port) : list (port * port) :=
    filter (fun l => negb (mem link_eqb l (a_links A))) (dedup link_eqb (flat_map (order_of_wire A p) ws)).
  Definition wires_extra (A : agraph) (p r' : nid) (ws : list port) : list (port * port) :=
    wire_links r' 0 ws ++ wires_order A p ws.
End W.
