(* C01 — the "order edge accompanies every non-local value wire" clause, stated on the builder's graph
   store independently of the code's _ancestral_sibling loop (an inductive relation instead of a fuel walk). *)
From Coq Require Import NArith List Bool.
Import ListNotations.
From HV Require Import lib.Harness model.Validity model.Builder.
Local Open Scope N_scope.

(* AncSib par sp t a: a is t or an ancestor of t, and a's parent is sp (the source's parent) *)
Inductive AncSib (par : N -> option N) (sp : option N) : N -> N -> Prop :=
| AS_here t tp : par t = Some tp -> Some tp = sp -> AncSib par sp t t
| AS_up t tp a : par t = Some tp -> Some tp <> sp -> AncSib par sp tp a -> AncSib par sp t a.

Definition is_const_kind (o : option vop) : bool := match o with Some (Const _) => true | _ => false end.
(* a link between two numbered ports (not an order link) *)
Definition port_link (e : edge) : bool := is_some (e_soff e) && is_some (e_doff e).

(* what one link must satisfy in store st *)
Definition ok_link (st : store) (e : edge) : Prop :=
  port_link e = true -> is_const_kind (s_op st (e_src e)) = false ->
  exists a, AncSib (s_parent st) (s_parent st (e_src e)) (e_dst e) a /\
            (a = e_dst e \/ exists o, In o (s_links st) /\ is_order_link (e_src e) a o = true).

(* Every port link whose source is not a Const (in the modelled language these are exactly the value
   wires; the only static links are Const -> LoadConst) ends at a node that is, or lies inside, a sibling `a`
   of the source; and when it lies strictly inside (a non-local, Ext wire) the store holds the order link
   source -> a. *)
Definition ExtOrder (st : store) : Prop := forall e, In e (s_links st) -> ok_link st e.
